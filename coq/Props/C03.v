(* Props/C03.v — property C03: batching is transparent.
   C03 has no model of its own: it is the family of batch-invariance corollaries of the Model = Spec theorems of the
   individual methods (each proved for EVERY batch size: any positive integer or None, dividing the workload or not,
   below steps / nb_samples or above every workload), re-stated here, plus the generic facts that make a
   per-sample method commute with permuting, subsetting and duplicating its inputs.  Only statements. *)
From Xpl Require Import Base.Tensor.
From Xpl Require C03.Proofs C06.Spec C06.Proofs C04.Spec C04.Proofs C09.Spec C09.Proofs C14.Spec C14.Proofs.
From Xpl Require C01.Model C01.Spec C01.Proofs C08.Model C08.Spec C08.Proofs C15.Model C15.Spec C15.Proofs.
From Xpl Require C07.Model C07.Spec C07.Proofs C10.Model C10.Spec C10.Proofs.
Open Scope Qc_scope.

(* ---- generic: row-wise evaluation batch by batch = evaluation at once, for every batch size ---- *)
Theorem C03_batched_rowwise :
  forall (A B : Type) (F : list A -> list B) (f : A -> B) (b : nat) (l : list A),
    (1 <= b)%nat -> (forall c, F c = map f c) -> concat (map F (chunks b l)) = map f l.
Proof. exact @batched_rowwise. Qed.
Print Assumptions C03_batched_rowwise.

Theorem C03_chunks_partition : forall (A : Type) (b : nat) (l : list A), (1 <= b)%nat -> concat (chunks b l) = l.
Proof. exact @concat_chunks. Qed.
Print Assumptions C03_chunks_partition.

(* ---- generic: a per-sample method commutes with any selection of its inputs ---- *)
Theorem C03_selection_equivariance :
  forall (A B C : Type) (f : A -> B -> C) idx xs ts dx dt,
    (forall i, In i idx -> (i < length xs)%nat /\ (i < length ts)%nat) ->
    map2 f (C03.Proofs.select idx xs dx) (C03.Proofs.select idx ts dt) = C03.Proofs.select idx (map2 f xs ts) (f dx dt).
Proof. exact @C03.Proofs.map2_select. Qed.
Print Assumptions C03_selection_equivariance.

(* ---- Occlusion ---- *)
Theorem C03_occlusion_batch_invariant :
  forall (score : list Qc -> list Qc -> Qc) g bs bs' v xs ts,
    C06.Spec.geom_ok g -> C06.Proofs.bs_ok bs -> C06.Proofs.bs_ok bs' ->
    (forall x, In x xs -> length x = C06.Spec.geom_size g) ->
    C06.Model.occlusion score g bs v xs ts = C06.Model.occlusion score g bs' v xs ts.
Proof. exact C06.Proofs.occlusion_batch_invariant. Qed.
Print Assumptions C03_occlusion_batch_invariant.

Theorem C03_occlusion_selection :
  forall (score : list Qc -> list Qc -> Qc) g bs bs' v xs ts idx dx dt,
    C06.Spec.geom_ok g -> C06.Proofs.bs_ok bs -> C06.Proofs.bs_ok bs' ->
    (forall x, In x xs -> length x = C06.Spec.geom_size g) ->
    (forall i, In i idx -> (i < length xs)%nat /\ (i < length ts)%nat) ->
    C06.Model.occlusion score g bs v (C03.Proofs.select idx xs dx) (C03.Proofs.select idx ts dt)
    = C03.Proofs.select idx (C06.Model.occlusion score g bs' v xs ts) (C06.Spec.spec_map score g v dx dt).
Proof. exact C03.Proofs.occlusion_select. Qed.
Print Assumptions C03_occlusion_selection.

(* ---- Integrated Gradients ---- *)
Theorem C03_integrated_gradients_batch_invariant :
  forall (grad : list Qc -> list Qc -> list Qc) n m bs bs' bv xs ts,
    C04.Spec.bs_ok bs -> C04.Spec.bs_ok bs' -> (1 <= m)%nat -> xs <> [] ->
    C04.Model.ig grad n m bs bv xs ts = C04.Model.ig grad n m bs' bv xs ts.
Proof. exact C04.Proofs.ig_batch_invariant. Qed.
Print Assumptions C03_integrated_gradients_batch_invariant.

(* ---- RISE (given its masks, i.e. seeded) ---- *)
Theorem C03_rise_batch_invariant :
  forall (score : list Qc -> list Qc -> Qc) k bs bs' nb v xs ts mss,
    C09.Spec.bs_ok bs -> C09.Spec.bs_ok bs' -> (1 <= nb)%nat ->
    (forall x, In x xs -> length x = C09.Model.size k) -> (forall ms, In ms mss -> C09.Spec.masks_ok k ms) ->
    C09.Model.rise score k bs nb v xs ts mss = C09.Model.rise score k bs' nb v xs ts mss.
Proof. exact C09.Proofs.rise_batch_invariant. Qed.
Print Assumptions C03_rise_batch_invariant.

(* ---- Deletion / Insertion ---- *)
Theorem C03_deletion_insertion_batch_invariant :
  forall (score : list Qc -> list Qc -> Qc) (rank : list Qc -> list nat) c bs bs' bm xs ts es,
    (1 <= C14.Model.cC c)%nat -> C14.Spec.bs_ok bs -> C14.Spec.bs_ok bs' ->
    C14.Spec.sizes_ok c xs (C14.Model.baselines_of bm xs) ->
    C14.Model.detailed_evaluate score rank c bs bm xs ts es = C14.Model.detailed_evaluate score rank c bs' bm xs ts es /\
    C14.Model.evaluate score rank c bs bm xs ts es = C14.Model.evaluate score rank c bs' bm xs ts es.
Proof. exact C14.Proofs.causal_batch_invariant. Qed.
Print Assumptions C03_deletion_insertion_batch_invariant.


(* ---- Saliency, GradientInput, SmoothGrad / SquareGrad / VarGrad (given the noise, in particular noise 0) ---- *)
Theorem C03_gradient_methods_batch_invariant :
  forall (grad : list Qc -> list Qc -> list Qc) k r st bs bs' nb xs ts noises,
    C01.Spec.shape_preserving grad -> C06.Proofs.bs_ok bs -> C06.Proofs.bs_ok bs' -> (1 <= nb)%nat ->
    (st = C01.Model.SVar -> (2 <= nb)%nat) -> C01.Spec.noises_ok nb (C01.Proofs.rows xs ts noises) ->
    C01.Model.saliency grad k r bs xs ts = C01.Model.saliency grad k r bs' xs ts /\
    C01.Model.gradient_input grad k r bs xs ts = C01.Model.gradient_input grad k r bs' xs ts /\
    C01.Model.gradstat grad k r st bs nb xs ts noises = C01.Model.gradstat grad k r st bs' nb xs ts noises.
Proof. exact C01.Proofs.batch_invariant. Qed.
Print Assumptions C03_gradient_methods_batch_invariant.

(* ---- Sobol / HSIC: the map is the estimator of the scores of the perturbed inputs whatever the forward batch size;
        HSIC also whatever estimator_batch_size ---- *)
Theorem C03_gsa_batch_invariant :
  forall (score : list Qc -> list Qc -> Qc) (est : list Qc -> list Qc) pf g H W C bs bs' masks xs ts,
    C08.Spec.bs_valid bs -> C08.Spec.bs_valid bs' ->
    C08.Model.gsa_explain score est pf g H W C bs masks xs ts = C08.Model.gsa_explain score est pf g H W C bs' masks xs ts.
Proof. intros. rewrite !C08.Proofs.gsa_explain_correct by assumption. reflexivity. Qed.
Print Assumptions C03_gsa_batch_invariant.

Theorem C03_hsic_estimator_batch_invariant :
  forall gramf ebs ebs' dims L n, (1 <= ebs)%nat -> (1 <= ebs')%nat ->
    C08.Model.hsic_estimator gramf ebs dims L n = C08.Model.hsic_estimator gramf ebs' dims L n.
Proof. exact C08.Proofs.hsic_batch_invariant. Qed.
Print Assumptions C03_hsic_estimator_batch_invariant.

(* ---- MuFidelity (given its random subsets) ---- *)
Theorem C03_mufidelity_batch_invariant :
  forall (score : list Qc -> list Qc -> Qc) bm c cphi bs bs' nb rows,
    C06.Proofs.bs_ok bs -> C06.Proofs.bs_ok bs' -> (1 <= nb)%nat -> (forall r, In r rows -> length (C15.Model.rm r) = nb) ->
    forall sqrt, C15.Model.mufid score bm c cphi sqrt bs nb rows = C15.Model.mufid score bm c cphi sqrt bs' nb rows.
Proof. exact C15.Proofs.mufid_batch_invariant. Qed.
Print Assumptions C03_mufidelity_batch_invariant.


(* ---- selecting inputs selects explanations: Saliency, GradientInput, Integrated Gradients, Sobol / HSIC ---- *)
Theorem C03_saliency_selection :
  forall (grad : list Qc -> list Qc -> list Qc) k r bs bs' xs ts idx dx dt,
    C01.Spec.shape_preserving grad -> C01.Spec.kind_ok k -> C06.Proofs.bs_ok bs -> C06.Proofs.bs_ok bs' ->
    (forall x, In x xs -> length x = C01.Model.kind_size k) -> length dx = C01.Model.kind_size k ->
    (forall i, In i idx -> (i < length xs)%nat /\ (i < length ts)%nat) ->
    C01.Model.saliency grad k r bs (C03.Proofs.select idx xs dx) (C03.Proofs.select idx ts dt)
    = C03.Proofs.select idx (C01.Model.saliency grad k r bs' xs ts)
                        (C01.Spec.spec_reduce k r (C01.Spec.spec_saliency grad dx dt)).
Proof. exact C03.Proofs.saliency_select. Qed.
Print Assumptions C03_saliency_selection.

Theorem C03_gradient_input_selection :
  forall (grad : list Qc -> list Qc -> list Qc) k r bs bs' xs ts idx dx dt,
    C01.Spec.shape_preserving grad -> C01.Spec.kind_ok k -> C06.Proofs.bs_ok bs -> C06.Proofs.bs_ok bs' ->
    (forall x, In x xs -> length x = C01.Model.kind_size k) ->
    (forall i, In i idx -> (i < length xs)%nat /\ (i < length ts)%nat) ->
    C01.Model.gradient_input grad k r bs (C03.Proofs.select idx xs dx) (C03.Proofs.select idx ts dt)
    = C03.Proofs.select idx (C01.Model.gradient_input grad k r bs' xs ts)
                        (C01.Spec.spec_reduce k r (C01.Spec.spec_gradient_input grad dx dt)).
Proof. exact C03.Proofs.gradient_input_select. Qed.
Print Assumptions C03_gradient_input_selection.

Theorem C03_integrated_gradients_selection :
  forall (grad : list Qc -> list Qc -> list Qc) n m bs bs' bv xs ts idx dx dt,
    C04.Spec.bs_ok bs -> C04.Spec.bs_ok bs' -> (2 <= m)%nat -> xs <> [] -> idx <> [] ->
    (forall x, In x xs -> length x = n) -> C04.Spec.grad_shape n grad ->
    (forall i, In i idx -> (i < length xs)%nat /\ (i < length ts)%nat) ->
    C04.Model.ig grad n m bs bv (C03.Proofs.select idx xs dx) (C03.Proofs.select idx ts dt)
    = C03.Proofs.select idx (C04.Model.ig grad n m bs' bv xs ts) (C04.Spec.spec_ig_one grad n m bv dx dt).
Proof. exact C03.Proofs.ig_select. Qed.
Print Assumptions C03_integrated_gradients_selection.

Theorem C03_gsa_selection :
  forall (score : list Qc -> list Qc -> Qc) (est : list Qc -> list Qc) pf g H W C bs bs' masks xs ts idx dx dt,
    C08.Spec.bs_valid bs -> C08.Spec.bs_valid bs' ->
    (forall i, In i idx -> (i < length xs)%nat /\ (i < length ts)%nat) ->
    C08.Model.gsa_explain score est pf g H W C bs masks (C03.Proofs.select idx xs dx) (C03.Proofs.select idx ts dt)
    = C03.Proofs.select idx (C08.Model.gsa_explain score est pf g H W C bs' masks xs ts)
                        (est (C08.Spec.perturbed_scores score (pf dx) g H W C masks dx dt)).
Proof. exact C03.Proofs.gsa_select. Qed.
Print Assumptions C03_gsa_selection.

Close Scope Qc_scope. Open Scope nat_scope.
Example C03_nonvacuous :
  C06.Proofs.bs_ok (@Some nat 3) /\ C06.Proofs.bs_ok (@None nat) /\
  chunks 3 [1; 2; 3; 4; 5; 6; 7]%nat = [[1; 2; 3]; [4; 5; 6]; [7]]%nat /\
  C03.Proofs.select [2; 0; 0]%nat [10; 11; 12]%nat 0%nat = [12; 10; 10]%nat.
Proof. split; [cbn; lia|]. split; [exact I|]. split; reflexivity. Qed.

(* ---- Lime / KernelShap: the (nb_samples) perturbed samples of an input are scored batch by batch; the fitted surrogate,
        hence the explanation, is the same for every batch size (any positive integer or None) ---- *)
Theorem C03_lime_batch_invariant :
  forall (score : list Qc -> list Qc -> Qc) (karg : list Qc -> list bool -> list Qc -> Qc)
         (fit : list (list bool) -> list Qc -> list Qc -> list Qc) bs bs' nb k ref xs ts mappings Zs,
    C07.Spec.bs_ok bs nb -> C07.Spec.bs_ok bs' nb ->
    (forall x mp, In (x, mp) (combine xs mappings) -> C07.Spec.lime_ok k ref x mp) ->
    C07.Model.lime score karg fit bs nb k ref xs ts mappings Zs = C07.Model.lime score karg fit bs' nb k ref xs ts mappings Zs.
Proof. exact C07.Proofs.lime_batch_invariant. Qed.
Print Assumptions C03_lime_batch_invariant.

(* ---- DeconvNet / GuidedBackprop (modified back-propagation through the commuted-ReLU clone) ---- *)
Theorem C03_relu_explainers_batch_invariant :
  forall p n bs bs' xs ts, C06.Proofs.bs_ok bs -> C06.Proofs.bs_ok bs' ->
    C10.Model.relu_explainer p n bs xs ts = C10.Model.relu_explainer p n bs' xs ts.
Proof. exact C10.Proofs.relu_explainer_batch_invariant. Qed.
Print Assumptions C03_relu_explainers_batch_invariant.

(* ---- Grad-CAM / Grad-CAM++ (any channel-weight rule, any resize) ---- *)
Theorem C03_gradcam_batch_invariant :
  forall weights resize n cl bs bs' xs ts, C06.Proofs.bs_ok bs -> C06.Proofs.bs_ok bs' ->
    C10.Model.gradcam_gen weights resize n cl bs xs ts = C10.Model.gradcam_gen weights resize n cl bs' xs ts.
Proof. exact C10.Proofs.gradcam_batch_invariant. Qed.
Print Assumptions C03_gradcam_batch_invariant.
