(* Props/C02.v — property C02: the explained function is the one selected by operator, output_layer and targets.
   Only statements; proofs in C02/Proofs.v. *)
From Xpl Require Import C02.Spec C02.Proofs.
From Coq Require Import String.
Open Scope Qc_scope.

(* (a) dispatch — finite decision table, every case *)
Theorem C02_aliases_resolve :
  forall s o, In (s, o) documented_aliases -> forall k,
    inference_of k (SName s) = Some o /\ gradient_of k (SName s) = Some (Some o).
Proof. intros s o H k. cbn [inference_of gradient_of]. rewrite (aliases_resolve s o H). split; reflexivity. Qed.
Print Assumptions C02_aliases_resolve.

Theorem C02_unknown_alias_rejected :
  forall s, (forall o, ~ In (s, o) documented_aliases) -> forall k, inference_of k (SName s) = None.
Proof. intros s H k. cbn [inference_of]. apply unknown_alias_rejected; exact H. Qed.
Print Assumptions C02_unknown_alias_rejected.

Theorem C02_custom_and_member_kept :
  forall k, (forall n, (3 <= n)%nat -> inference_of k (SCustom n) = Some OpCustom /\ gradient_of k (SCustom n) = Some (Some OpCustom))
         /\ (forall m, inference_of k (SMember m) = Some m /\ gradient_of k (SMember m) = Some (Some m)).
Proof. intro k. split; [intros n H; cbn [inference_of gradient_of]; rewrite custom_kept by exact H; split; reflexivity
                       | intro m; split; reflexivity]. Qed.
Print Assumptions C02_custom_and_member_kept.

Theorem C02_default_is_predictions :
  forall k, inference_of k SNone = Some (if is_tf_object k then OpPredictions else OpCallablePredictions).
Proof. exact default_operator. Qed.
Print Assumptions C02_default_is_predictions.

(* white-box explainers differentiate iff an operator is given or the model is a Keras model; black-box never *)
Theorem C02_gradient_availability :
  forall k o g, gradient_of k o = Some (Some g) <->
    (o = SNone /\ is_keras_model k = true /\ g = OpPredictions) \/ (o <> SNone /\ get_operator o = Some g).
Proof. exact whitebox_gradient_iff. Qed.
Print Assumptions C02_gradient_availability.
Theorem C02_blackbox_no_gradient : forall k o, blackbox_gradient k o = None.
Proof. reflexivity. Qed.
Print Assumptions C02_blackbox_no_gradient.

(* (b) operators compute their documented scores *)
Theorem C02_predictions_onehot : forall out c, predictions_op out (onehot (List.length out) c) = nthq out c.
Proof. exact predictions_op_onehot. Qed.
Print Assumptions C02_predictions_onehot.
Theorem C02_predictions_linear_in_targets :
  forall out t t' a, List.length t = List.length t' ->
    predictions_op out (vadd (vscale a t) t') = a * predictions_op out t + predictions_op out t'.
Proof. exact predictions_op_linear. Qed.
Print Assumptions C02_predictions_linear_in_targets.
Theorem C02_segmentation_mean_over_zone :
  forall out t, List.length out = List.length t -> (forall v, In v t -> v = 0 \/ v = 1) ->
    segmentation_op out t = qmean (zone out t).
Proof. exact segmentation_binary. Qed.
Print Assumptions C02_segmentation_mean_over_zone.
Theorem C02_iou_is_ratio_of_areas :
  forall eps a b, box_iou eps a b = inter_area a b / (area a + area b - inter_area a b + eps).
Proof. exact box_iou_alt. Qed.
Print Assumptions C02_iou_is_ratio_of_areas.
Theorem C02_iou_bounds :
  forall eps a b, 0 < eps -> wf_box a -> wf_box b -> 0 <= box_iou eps a b /\ box_iou eps a b <= 1.
Proof. exact iou_bounds. Qed.
Print Assumptions C02_iou_bounds.
Theorem C02_iou_symmetric : forall eps a b, box_iou eps a b = box_iou eps b a.
Proof. exact iou_symmetric. Qed.
Print Assumptions C02_iou_symmetric.
Theorem C02_detection_variants :
  forall eps norm ref pred,
  pair_score eps norm false false ref pred = box_iou eps (obj_box ref) (obj_box pred) /\
  pair_score eps norm true false ref pred = box_iou eps (obj_box ref) (obj_box pred) * obj_proba pred /\
  pair_score eps norm false true ref pred =
    box_iou eps (obj_box ref) (obj_box pred) *
    (qsum (vmul (obj_class ref) (obj_class pred)) / (norm (obj_class pred) * norm (obj_class ref) + eps)) /\
  pair_score eps norm true true ref pred =
    box_iou eps (obj_box ref) (obj_box pred) * obj_proba pred *
    (qsum (vmul (obj_class ref) (obj_class pred)) / (norm (obj_class pred) * norm (obj_class ref) + eps)).
Proof. exact detection_variants. Qed.
Print Assumptions C02_detection_variants.
Theorem C02_detection_mean_of_best :
  forall eps norm p c objs refs, objs <> [] ->
    detection_op eps norm p c objs refs = qmean (map (fun ref => qmax_list (map (pair_score eps norm p c ref) objs)) refs)
    /\ forall ref, In (qmax_list (map (pair_score eps norm p c ref) objs)) (map (pair_score eps norm p c ref) objs)
                /\ forall s, In s (map (pair_score eps norm p c ref) objs) -> s <= qmax_list (map (pair_score eps norm p c ref) objs).
Proof. intros eps norm p c objs refs H. split; [apply detection_is_mean_of_best; exact H|].
  intro ref. apply qmax_list_spec. destruct objs; [congruence | discriminate]. Qed.
Print Assumptions C02_detection_mean_of_best.

(* (c) output_layer *)
Theorem C02_output_layer_truncates :
  forall n r x t,
  saliency_with wb_model n (Some r) x t =
    match truncate n r with Some m => saliency_with wb_model m None x t | None => None end
  /\ gradinput_with wb_model n (Some r) x t =
    match truncate n r with Some m => gradinput_with wb_model m None x t | None => None end.
Proof. exact output_layer_truncates. Qed.
Print Assumptions C02_output_layer_truncates.
Theorem C02_truncated_model_is_layer_activation :
  forall n k x, forward n x = forward (skipn k n) (forward (firstn k n) x).
Proof. exact truncate_forward. Qed.
Print Assumptions C02_truncated_model_is_layer_activation.
Theorem C02_layer_index_resolution :
  forall n z, (- Z.of_nat (S (List.length n)) <= z < Z.of_nat (S (List.length n)))%Z ->
  exists k, kept_layers n (ByIndex z) = Some k /\ (k <= List.length n)%nat /\
            Z.of_nat k = (if (z <? 0) then Z.of_nat (S (List.length n)) + z else z)%Z.
Proof. exact kept_layers_in_range. Qed.
Print Assumptions C02_layer_index_resolution.
Theorem C02_chain_rule_structure :
  forall a b x t, net_grad (a ++ b) x t = net_grad a x (net_grad b (forward a x) t).
Proof. exact net_grad_app. Qed.
Print Assumptions C02_chain_rule_structure.

(* the code as found ignored output_layer *)
Theorem C02_output_layer_refuted_orig :
  exists n r x t m, truncate n r = Some m /\
    saliency_with wb_model_orig n (Some r) x t <> saliency_with wb_model_orig m None x t.
Proof. exact output_layer_refuted_orig. Qed.
Print Assumptions C02_output_layer_refuted_orig.

Example C02_nonvacuous :
  wf_box [0; 0; q 1 2; 1] /\ 0 < q 1 10000 /\
  In ("object detection box proba"%string, OpDetection true false) documented_aliases /\
  truncate witness_net (ByName "logits"%string) = Some (firstn 1 witness_net) /\
  (- Z.of_nat (S (List.length witness_net)) <= -2 < Z.of_nat (S (List.length witness_net)))%Z.
Proof. repeat split; try (vm_compute; reflexivity); try (cbn; auto 10); try lia;
  unfold nthq; cbn; unfold Qcle, Qclt; cbn; try lia; try reflexivity; intro K; discriminate K. Qed.
