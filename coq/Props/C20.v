(* Props/C20.v — property C20: CRAFT factors are consistent and importances are (Jansen) total Sobol indices.
   Only statements, each closed by [exact]; proofs live in C20/Proofs.v (and C08/Proofs.v for the Jansen estimator).

   Conventions.  A torch model is a batch function on flat per-sample tensors (channels-first, as torch stores them);
   [rowwise Fb f] says it treats every sample on its own (no cross-sample coupling).  scikit-learn's NMF transform is a
   matrix function [nmf]; the theorems that speak of "the coefficients of an activation" assume it row-wise ([rowwise nmf f]),
   the batch-invariance and matrix theorems hold for ANY [nmf].  The Halton draw AB (n rows, 2R columns) and the fitted
   bank Wb are inputs.  Non-negativity of U, W and of the transform output is scikit-learn's contract: not proved here,
   checked on the implementation at run time by the correspondence (harness/c20.py). *)
From Xpl Require Import Base.Tensor C20.Spec C20.Proofs.
Open Scope Qc_scope.

(* ------------------------------------------------------------------ transform *)
(* Location (n, h, w) of transform(x) holds the NMF coefficients of the activation vector of input n at (h, w)
   (channels read from the channels-first tensor the extractor returned), for every batch size. *)
Theorem C20_transform_reshape_roundtrip :
  forall (X : Type) (G : list X -> list (list Qc)) (g : X -> list Qc) (nmf : list (list Qc) -> list (list Qc)),
    rowwise G g -> forall f : list Qc -> list Qc, rowwise nmf f ->
    forall (bs C H W : nat) (xs : list X) (n h w : nat) (d : X),
      (1 <= bs)%nat -> (n < length xs)%nat -> (h < H)%nat -> (w < W)%nat ->
      nth w (nth h (nth n (transform_4d G nmf bs C H W xs) []) []) [] = f (act_at C H W (g (nth n xs d)) h w).
Proof. exact @transform_reshape_roundtrip. Qed.
Print Assumptions C20_transform_reshape_roundtrip.

(* Whatever scikit-learn does with the matrix, it receives one row per (input, location), image-major then row-major,
   and its result is cut back into (N, H, W, R) in the same order. *)
Theorem C20_transform_matrix :
  forall (X : Type) (G : list X -> list (list Qc)) (g : X -> list Qc) (nmf : list (list Qc) -> list (list Qc)),
    rowwise G g -> forall (bs C H W : nat) (xs : list X), (1 <= bs)%nat ->
      transform_4d G nmf bs C H W xs
      = reshape_nhw H W (nmf (flatten_nhw (map (fun x : X => chw_to_hwc C H W (g x)) xs))).
Proof. exact @transform_4d_matrix. Qed.
Print Assumptions C20_transform_matrix.

(* Without any assumption on scikit-learn's transform beyond "one row out per row in": location (n, h, w) of
   transform(x) is the row the library returned at the position where it was handed the activation vector of (n, h, w). *)
Theorem C20_transform_location :
  forall (X : Type) (G : list X -> list (list Qc)) g nmf bs C H W (xs : list X) n h w d,
    rowwise G g -> (forall M, length (nmf M) = length M) ->
    (1 <= bs)%nat -> (1 <= H)%nat -> (1 <= W)%nat -> (n < length xs)%nat -> (h < H)%nat -> (w < W)%nat ->
    let M := flatten_nhw (map (fun x => chw_to_hwc C H W (g x)) xs) in
    let k := (n * (H * W) + h * W + w)%nat in
    nth w (nth h (nth n (transform_4d G nmf bs C H W xs) []) []) [] = nth k (nmf M) [] /\
    nth k M [] = act_at C H W (g (nth n xs d)) h w.
Proof. exact @transform_4d_location. Qed.
Print Assumptions C20_transform_location.

Theorem C20_reshape_roundtrip :
  forall (T : Type) (H W : nat) (a : list (list (list T))),
    (1 <= H)%nat -> (1 <= W)%nat -> shape_nhw H W a -> reshape_nhw H W (flatten_nhw a) = a.
Proof. exact @reshape_flatten_nhw. Qed.
Print Assumptions C20_reshape_roundtrip.

Theorem C20_transform_batch_invariant_2d :
  forall (X : Type) (G : list X -> list (list Qc)) (g : X -> list Qc) (nmf : list (list Qc) -> list (list Qc)),
    rowwise G g -> forall (bs bs' : nat) (xs : list X), (1 <= bs)%nat -> (1 <= bs')%nat ->
      transform_2d G nmf bs xs = transform_2d G nmf bs' xs.
Proof. exact @transform_2d_batch_invariant. Qed.
Print Assumptions C20_transform_batch_invariant_2d.

Theorem C20_transform_batch_invariant_4d :
  forall (X : Type) (G : list X -> list (list Qc)) (g : X -> list Qc) (nmf : list (list Qc) -> list (list Qc)),
    rowwise G g -> forall (bs bs' C H W : nat) (xs : list X), (1 <= bs)%nat -> (1 <= bs')%nat ->
      transform_4d G nmf bs C H W xs = transform_4d G nmf bs' C H W xs.
Proof. exact @transform_4d_batch_invariant. Qed.
Print Assumptions C20_transform_batch_invariant_4d.

(* ------------------------------------------------------------------ fit: one row per crop *)
Theorem C20_crop_count :
  forall C H W p imgs, length (extract_patches C H W p imgs) = crop_count (length imgs) H W p.
Proof. exact crop_count_correct. Qed.
Print Assumptions C20_crop_count.

(* crop_count N H W p = N (floor((H-p)/s)+1) (floor((W-p)/s)+1) with s = floor(4p/5), by definition; the crops are
   exactly the windows anchored at multiples of s that fit in the image *)
Theorem C20_crop_anchors :
  forall H W p a b, (p <= H)%nat -> (p <= W)%nat -> (1 <= stride p)%nat ->
    (In (a, b) (crop_anchors H W p) <-> is_anchor H W p a b).
Proof. exact crop_anchors_spec. Qed.
Print Assumptions C20_crop_anchors.

Theorem C20_stride_pos : forall p, (2 <= p)%nat -> (1 <= stride p)%nat.
Proof. exact stride_pos. Qed.
Print Assumptions C20_stride_pos.

Theorem C20_crop_pixel :
  forall C H W p img a b c y x, (c < C)%nat -> (y < p)%nat -> (x < p)%nat ->
    nthq (crop C H W p img a b) (c * (p * p) + y * p + x) = nthq img (c * (H * W) + (a + y) * W + (b + x)).
Proof. exact crop_pixel. Qed.
Print Assumptions C20_crop_pixel.

(* ------------------------------------------------------------------ importances are Jansen total indices *)
(* 2-D activations: for every batch size, head, bank, class id, nb_design, number of concepts and design (A, B), the
   importance of concept i is the mean over the inputs of Jansen's total index of m |-> head((u * m) @ W)[cls] w.r.t.
   coordinate i, on the outputs taken in design order A, B, C_0, ..., C_{R-1}. *)
Theorem C20_importance_is_jansen_2d :
  forall (Hd : list (list Qc) -> list (list Qc)) (head : list Qc -> list Qc), rowwise Hd head ->
    forall (bs : nat) (Wb : list (list Qc)) (F cls n R : nat) (A B : list (list Qc)),
      (1 <= bs)%nat -> is_matrix n R A -> is_matrix n R B ->
      forall coeffs : list (list Qc),
        importance_2d Hd bs Wb F cls n R (replicated_design R A B) coeffs
        = map (importance_spec (map (logit_2d head Wb F cls) coeffs) A B) (seq 0 R).
Proof. exact importance_2d_is_jansen. Qed.
Print Assumptions C20_importance_is_jansen_2d.

(* 4-D activations: the same with the activation map rebuilt location by location, every location of a design point
   masked by the same row of the design *)
Theorem C20_importance_is_jansen_4d :
  forall (Hd : list (list Qc) -> list (list Qc)) (head : list Qc -> list Qc), rowwise Hd head ->
    forall (bs : nat) (Wb : list (list Qc)) (F cls n R : nat) (A B : list (list Qc)),
      (1 <= bs)%nat -> is_matrix n R A -> is_matrix n R B ->
      forall (H W : nat) (coeffs : list (list (list (list Qc)))),
        (1 <= H)%nat -> (1 <= W)%nat -> coeffs <> [] -> shape_nhw H W coeffs ->
        importance_4d Hd bs Wb F cls n R (replicated_design R A B) coeffs
        = map (importance_spec (map (logit_4d head Wb F H W cls) coeffs) A B) (seq 0 R).
Proof. exact importance_4d_is_jansen. Qed.
Print Assumptions C20_importance_is_jansen_4d.

(* the whole of estimate_importance: extractor batches, NMF transform, Halton draw AB, head batches *)
Theorem C20_estimate_importance_2d :
  forall (X : Type) (G : list X -> list (list Qc)) g nmf Hd head bs Wb F cls n R AB xs,
    rowwise G g -> rowwise Hd head -> (1 <= bs)%nat -> is_matrix n (2 * R) AB ->
    estimate_importance_2d G nmf Hd bs Wb F cls n R AB xs
    = map (importance_spec (map (logit_2d head Wb F cls) (nmf (map g xs))) (map (firstn R) AB) (map (skipn R) AB))
          (seq 0 R).
Proof. exact @estimate_importance_2d_correct. Qed.
Print Assumptions C20_estimate_importance_2d.

Theorem C20_estimate_importance_4d :
  forall (X : Type) (G : list X -> list (list Qc)) g nmf f Hd head bs C H W Wb F cls n R AB xs,
    rowwise G g -> rowwise nmf f -> rowwise Hd head -> (1 <= bs)%nat -> is_matrix n (2 * R) AB ->
    (1 <= H)%nat -> (1 <= W)%nat -> xs <> [] ->
    estimate_importance_4d G nmf Hd bs C H W Wb F cls n R AB xs
    = map (importance_spec (map (fun x => logit_4d head Wb F H W cls (map (map f) (chw_to_hwc C H W (g x)))) xs)
                           (map (firstn R) AB) (map (skipn R) AB))
          (seq 0 R).
Proof. exact @estimate_importance_4d_correct. Qed.
Print Assumptions C20_estimate_importance_4d.

(* ------------------------------------------------------------------ consequences *)
(* non-negative (nb_design >= 2; in Python the value is finite only when Var f(A) > 0 — in Qc, x / 0 = 0, so the
   statement needs no such hypothesis) *)
Theorem C20_importance_nonneg_2d :
  forall Hd head bs Wb F cls n R A B coeffs v,
    rowwise Hd head -> (1 <= bs)%nat -> (2 <= n)%nat -> is_matrix n R A -> is_matrix n R B ->
    In v (importance_2d Hd bs Wb F cls n R (replicated_design R A B) coeffs) -> 0 <= v.
Proof. exact importance_2d_nonneg. Qed.
Print Assumptions C20_importance_nonneg_2d.

Theorem C20_importance_nonneg_4d :
  forall Hd head bs Wb F cls n R A B H W coeffs v,
    rowwise Hd head -> (1 <= bs)%nat -> (2 <= n)%nat -> is_matrix n R A -> is_matrix n R B ->
    (1 <= H)%nat -> (1 <= W)%nat -> coeffs <> [] -> shape_nhw H W coeffs ->
    In v (importance_4d Hd bs Wb F cls n R (replicated_design R A B) coeffs) -> 0 <= v.
Proof. exact importance_4d_nonneg. Qed.
Print Assumptions C20_importance_nonneg_4d.

(* unchanged when the class logit is replaced by k * logit + b, k <> 0 (in particular k > 0) *)
Theorem C20_importance_affine_invariant_2d :
  forall Hd head Hd' head' k b bs Wb F cls n R A B coeffs,
    rowwise Hd head -> rowwise Hd' head' -> (forall a, nthq (head' a) cls = k * nthq (head a) cls + b) -> k <> 0 ->
    (1 <= bs)%nat -> (1 <= n)%nat -> is_matrix n R A -> is_matrix n R B ->
    importance_2d Hd' bs Wb F cls n R (replicated_design R A B) coeffs
    = importance_2d Hd bs Wb F cls n R (replicated_design R A B) coeffs.
Proof. exact importance_2d_affine. Qed.
Print Assumptions C20_importance_affine_invariant_2d.

Theorem C20_importance_affine_invariant_4d :
  forall Hd head Hd' head' k b bs Wb F cls n R A B H W coeffs,
    rowwise Hd head -> rowwise Hd' head' -> (forall a, nthq (head' a) cls = k * nthq (head a) cls + b) -> k <> 0 ->
    (1 <= bs)%nat -> (1 <= n)%nat -> is_matrix n R A -> is_matrix n R B ->
    (1 <= H)%nat -> (1 <= W)%nat -> coeffs <> [] -> shape_nhw H W coeffs ->
    importance_4d Hd' bs Wb F cls n R (replicated_design R A B) coeffs
    = importance_4d Hd bs Wb F cls n R (replicated_design R A B) coeffs.
Proof. exact importance_4d_affine. Qed.
Print Assumptions C20_importance_affine_invariant_4d.

(* exactly 0 for a concept whose mask the class logit does not look at, for every input *)
Theorem C20_importance_zero_ignored_2d :
  forall Hd head bs Wb F cls n R A B coeffs j,
    rowwise Hd head -> (1 <= bs)%nat -> is_matrix n R A -> is_matrix n R B -> (j < R)%nat ->
    (forall u, In u coeffs -> ignores (logit_2d head Wb F cls u) j) ->
    nthq (importance_2d Hd bs Wb F cls n R (replicated_design R A B) coeffs) j = 0.
Proof. exact importance_2d_zero_ignored. Qed.
Print Assumptions C20_importance_zero_ignored_2d.

Theorem C20_importance_zero_ignored_4d :
  forall Hd head bs Wb F cls n R A B H W coeffs j,
    rowwise Hd head -> (1 <= bs)%nat -> is_matrix n R A -> is_matrix n R B ->
    (1 <= H)%nat -> (1 <= W)%nat -> coeffs <> [] -> shape_nhw H W coeffs -> (j < R)%nat ->
    (forall u, In u coeffs -> ignores (logit_4d head Wb F H W cls u) j) ->
    nthq (importance_4d Hd bs Wb F cls n R (replicated_design R A B) coeffs) j = 0.
Proof. exact importance_4d_zero_ignored. Qed.
Print Assumptions C20_importance_zero_ignored_4d.

(* an instance the logit provably ignores: a concept whose row of the bank is zero, whatever the head *)
Theorem C20_importance_zero_bank_row_2d :
  forall Hd head bs Wb F cls n R A B coeffs j,
    rowwise Hd head -> (1 <= bs)%nat -> is_matrix n R A -> is_matrix n R B -> (j < R)%nat ->
    (forall k, nthq (nth j Wb []) k = 0) ->
    nthq (importance_2d Hd bs Wb F cls n R (replicated_design R A B) coeffs) j = 0.
Proof. exact importance_2d_zero_bank_row. Qed.
Print Assumptions C20_importance_zero_bank_row_2d.

Theorem C20_importance_zero_bank_row_4d :
  forall Hd head bs Wb F cls n R A B H W coeffs j,
    rowwise Hd head -> (1 <= bs)%nat -> is_matrix n R A -> is_matrix n R B ->
    (1 <= H)%nat -> (1 <= W)%nat -> coeffs <> [] -> shape_nhw H W coeffs -> (j < R)%nat ->
    (forall k, nthq (nth j Wb []) k = 0) ->
    nthq (importance_4d Hd bs Wb F cls n R (replicated_design R A B) coeffs) j = 0.
Proof. exact importance_4d_zero_bank_row. Qed.
Print Assumptions C20_importance_zero_bank_row_4d.

(* non-vacuity: 12 x 16 images with patch 6 give stride 4 (0.8 * 6 = 4.8 truncated) and 2 x 3 crops per image;
   a concrete 2-concept configuration (identity extractor / NMF / bank, head = sum of the activation, nb_design = 2,
   batch size 1: four head batches of one row) meets every hypothesis and has two non-zero importances 9/392, 32/1225;
   with the second bank row zeroed the second importance is 0 and the first is not. *)
Example C20_nonvacuous :
  stride 6 = 4%nat /\ crop_count 3 12 16 6 = 18%nat /\
  crop_anchors 12 16 6 = [(0, 0); (0, 4); (0, 8); (4, 0); (4, 4); (4, 8)]%nat /\
  (let AB := [[0; 0; 0; 0]; [q 1 2; q 1 3; q 1 4; q 1 5]] in
   let G := map (fun x : list Qc => x) in let nmf := map (fun r : list Qc => r) in
   let Hd := map (fun a : list Qc => [qsum a]) in
   is_matrix 2 (2 * 2) AB /\ rowwise G (fun x => x) /\ rowwise nmf (fun r => r) /\ rowwise Hd (fun a => [qsum a]) /\
   qlist_eqb (estimate_importance_2d G nmf Hd 1 [[1; 0]; [0; 1]] 2 0 2 2 AB [[1; two]]) [q 9 392; q 32 1225] = true /\
   qlist_eqb (estimate_importance_2d G nmf Hd 1 [[1; 0]; [0; 0]] 2 0 2 2 AB [[1; two]]) [q 1 8; 0] = true).
Proof.
  repeat split; try reflexivity; try (intro c; reflexivity).
  intros r [<-|[<-|[]]]; reflexivity.
Qed.
