(* Props/C17.v — property C17: counterfactual / semi-factual searches honour class constraints and are nearest.
   Only statements, each closed by [exact]; proofs live in C17/Proofs.v on top of the running top-k theorems of
   C16/Proofs.v.  All statements hold for ANY [argsort] returning a sorting permutation (any tie-breaking), every
   batch size, every k, every N >= 1, every distance and projection; classes are argmax of the target vectors. *)
From Xpl Require Import C16.Spec C16.Proofs C17.Spec C17.Proofs.
Close Scope Qc_scope. Open Scope nat_scope.

(* filter_sound (FilterKNN with any boolean filter): a returned example is a fill, or the original case i with its
   label at index (i / B, i mod B); finite distance => the filter accepts the case and the distance is the true one *)
Theorem C17_filter_sound :
  forall argsort, argsort_ok argsort ->
  forall dist proj (L : Type) k bs cases targets (labels : list L) q tq,
    bs_ok' bs -> 1 <= length cases -> length targets = length cases ->
    forall (filter : list Qc -> list Qc -> bool) ft e,
      In e (cf_one argsort dist proj filter k bs cases targets labels q tq ft) ->
      (ex_dist e = Inf /\ ex_idx e = fill_idx /\ ex_case e = None /\ ex_label e = None)
      \/ exists i c t,
           nth_error cases i = Some c /\ nth_error targets i = Some t
           /\ ex_idx e = (Z.of_nat (i / eff_batch bs (length cases)), Z.of_nat (i mod eff_batch bs (length cases)))
           /\ ex_case e = Some c /\ ex_label e = nth_error labels i
           /\ ((filter ft t = true /\ ex_dist e = Fin (dist (proj q tq) (proj c t)))
               \/ (filter ft t = false /\ ex_dist e = Inf)).
Proof. exact cf_sound. Qed.
Print Assumptions C17_filter_sound.

(* filter_complete: no admissible case is closer than a returned one (an admissible case is returned or at least as
   far as every returned example) *)
Theorem C17_filter_complete :
  forall argsort, argsort_ok argsort ->
  forall dist proj (L : Type) k bs cases targets (labels : list L) q tq,
    bs_ok' bs -> 1 <= length cases -> length targets = length cases ->
    forall (filter : list Qc -> list Qc -> bool) ft i c t,
      nth_error cases i = Some c -> nth_error targets i = Some t -> filter ft t = true ->
      (exists e, In e (cf_one argsort dist proj filter k bs cases targets labels q tq ft)
                 /\ ex_idx e = (Z.of_nat (i / eff_batch bs (length cases)), Z.of_nat (i mod eff_batch bs (length cases))))
      \/ (forall e, In e (cf_one argsort dist proj filter k bs cases targets labels q tq ft) ->
                    ext_le (ex_dist e) (Fin (dist (proj q tq) (proj c t)))).
Proof. exact cf_complete. Qed.
Print Assumptions C17_filter_complete.

(* unfillable slots: sorted, k slots, and exactly min(k, #admissible) of them carry a finite distance *)
Theorem C17_filter_fill_count :
  forall argsort, argsort_ok argsort ->
  forall dist proj (L : Type) k bs cases targets (labels : list L) q tq,
    bs_ok' bs -> 1 <= length cases -> length targets = length cases ->
    forall (filter : list Qc -> list Qc -> bool) ft,
      Sorted ext_le (map (@ex_dist L) (cf_one argsort dist proj filter k bs cases targets labels q tq ft))
      /\ length (cf_one argsort dist proj filter k bs cases targets labels q tq ft) = k
      /\ count_fin (map (@ex_dist L) (cf_one argsort dist proj filter k bs cases targets labels q tq ft))
         = Nat.min k (count_fin (map (filter_key dist filter (proj q tq) ft) (proj_pairs proj cases targets))).
Proof. exact cf_sorted_filled. Qed.
Print Assumptions C17_filter_fill_count.

(* naive counterfactuals: admissible = class differs from the query's *)
Theorem C17_naive_cf_spec :
  forall argsort, argsort_ok argsort ->
  forall dist proj (L : Type) k bs cases targets (labels : list L) q tq,
    bs_ok' bs -> 1 <= length cases -> length targets = length cases ->
    cf_statement dist proj k bs cases targets labels q tq
                 (cf_one argsort dist proj ne_class k bs cases targets labels q tq tq)
                 (fun t => argmax tq <> argmax t).
Proof. exact naive_cf_spec. Qed.
Print Assumptions C17_naive_cf_spec.

(* label-aware counterfactuals: admissible = class equals the requested class cfc *)
Theorem C17_label_aware_spec :
  forall argsort, argsort_ok argsort ->
  forall dist proj (L : Type) k bs cases targets (labels : list L) q tq,
    bs_ok' bs -> 1 <= length cases -> length targets = length cases ->
    forall cfc,
    cf_statement dist proj k bs cases targets labels q tq
                 (cf_one argsort dist proj eq_class k bs cases targets labels q tq cfc)
                 (fun t => argmax cfc = argmax t).
Proof. exact label_aware_spec. Qed.
Print Assumptions C17_label_aware_spec.

(* nun_is_nearest_unlike *)
Theorem C17_nun_is_nearest_unlike :
  forall argsort, argsort_ok argsort ->
  forall dist proj bs cases targets q tq,
    bs_ok' bs -> 1 <= length cases -> length targets = length cases ->
    let B := eff_batch bs (length cases) in
    let nun_e := nun_search argsort dist (zip_batches B (project_dataset proj B cases targets) targets) (proj q tq) tq in
    (forall x, fst nun_e = Fin x ->
       exists i c t, nth_error cases i = Some c /\ nth_error targets i = Some t
         /\ snd nun_e = (Z.of_nat (i / B), Z.of_nat (i mod B))
         /\ argmax tq <> argmax t /\ x = dist (proj q tq) (proj c t)
         /\ forall j c' t', nth_error cases j = Some c' -> nth_error targets j = Some t' -> argmax tq <> argmax t' ->
              (x <= dist (proj q tq) (proj c' t'))%Qc)
    /\ (fst nun_e = Inf <-> forall j t', nth_error targets j = Some t' -> argmax tq = argmax t').
Proof. exact nun_spec. Qed.
Print Assumptions C17_nun_is_nearest_unlike.

(* kleor_simmiss_spec / kleor_globalsim_spec (global = false / true), for any NUN entry [ne] used for ranking:
   every returned semi-factual is a fill or the original case i; a finite distance to the NUN means same class as
   the query, true distances to the NUN and to the query, and (Global-Sim) STRICTLY closer to the query than the NUN *)
Theorem C17_kleor_sound :
  forall argsort, argsort_ok argsort ->
  forall dist proj (L : Type) k bs cases targets (labels : list L) q tq,
    bs_ok' bs -> 1 <= length cases -> length targets = length cases ->
    forall (global : bool) (ne : ext * idx) e,
      In e (kr_examples (kleor_one argsort dist proj global k bs cases targets labels q tq (Some ne))) ->
      let B := eff_batch bs (length cases) in
      let nun := dataset_gather (project_dataset proj B cases targets) (snd ne) in
      (sf_dist_to_nun e = Inf /\ sf_dist e = Inf /\ sf_idx e = fill_idx /\ sf_case e = None /\ sf_label e = None)
      \/ exists i c t,
           nth_error cases i = Some c /\ nth_error targets i = Some t
           /\ sf_idx e = (Z.of_nat (i / B), Z.of_nat (i mod B)) /\ sf_case e = Some c /\ sf_label e = nth_error labels i
           /\ sf_dist_to_nun e = kleor_key dist global nun (fst ne) (proj q tq) tq (proj c t, t)
           /\ sf_dist e = kleor_input_dist dist global (fst ne) (proj q tq) tq (proj c t, t)
           /\ forall x, sf_dist_to_nun e = Fin x ->
                argmax tq = argmax t
                /\ (exists u, nun = Some u /\ x = dist u (proj c t))
                /\ sf_dist e = Fin (dist (proj q tq) (proj c t))
                /\ (global = true -> ext_ltb (Fin (dist (proj q tq) (proj c t))) (fst ne) = true).
Proof. exact kleor_sound. Qed.
Print Assumptions C17_kleor_sound.

(* among the admissible cases the ones closest to the NUN are returned *)
Theorem C17_kleor_complete :
  forall argsort, argsort_ok argsort ->
  forall dist proj (L : Type) k bs cases targets (labels : list L) q tq,
    bs_ok' bs -> 1 <= length cases -> length targets = length cases ->
    forall (global : bool) (ne : ext * idx) i c t,
      nth_error cases i = Some c -> nth_error targets i = Some t ->
      let B := eff_batch bs (length cases) in
      let nun := dataset_gather (project_dataset proj B cases targets) (snd ne) in
      (exists e, In e (kr_examples (kleor_one argsort dist proj global k bs cases targets labels q tq (Some ne)))
                 /\ sf_idx e = (Z.of_nat (i / B), Z.of_nat (i mod B)))
      \/ (forall e, In e (kr_examples (kleor_one argsort dist proj global k bs cases targets labels q tq (Some ne))) ->
                    ext_le (sf_dist_to_nun e) (kleor_key dist global nun (fst ne) (proj q tq) tq (proj c t, t))).
Proof. exact kleor_complete. Qed.
Print Assumptions C17_kleor_complete.

(* admissibility in the property's words: same class, a NUN exists, and for Global-Sim strictly closer than the NUN *)
Theorem C17_kleor_admissible :
  forall dist proj bs cases targets q tq (global : bool) (ne : ext * idx) c t,
    let nun := dataset_gather (project_dataset proj (eff_batch bs (length cases)) cases targets) (snd ne) in
    is_fin (kleor_key dist global nun (fst ne) (proj q tq) tq (proj c t, t)) = true
    <-> argmax tq = argmax t /\ nun <> None
        /\ (global = true -> ext_ltb (Fin (dist (proj q tq) (proj c t))) (fst ne) = true).
Proof. exact kleor_admissible. Qed.
Print Assumptions C17_kleor_admissible.

(* strictness: a case exactly as far from the query as the NUN is never admissible for Global-Sim *)
Theorem C17_kleor_globalsim_strict :
  forall dist nun d pq tq (ct : pcase), Fin (dist pq (fst ct)) = d -> kleor_key dist true nun d pq tq ct = Inf.
Proof. exact globalsim_strict. Qed.
Print Assumptions C17_kleor_globalsim_strict.

Theorem C17_kleor_sorted_filled :
  forall argsort, argsort_ok argsort ->
  forall dist proj (L : Type) k bs cases targets (labels : list L) q tq,
    bs_ok' bs -> 1 <= length cases -> length targets = length cases ->
    forall (global : bool) (ne : ext * idx),
      let r := kleor_one argsort dist proj global k bs cases targets labels q tq (Some ne) in
      let nun := dataset_gather (project_dataset proj (eff_batch bs (length cases)) cases targets) (snd ne) in
      Sorted ext_le (map (@sf_dist_to_nun L) (kr_examples r)) /\ length (kr_examples r) = k
      /\ count_fin (map (@sf_dist_to_nun L) (kr_examples r))
         = Nat.min k (count_fin (map (kleor_key dist global nun (fst ne) (proj q tq) tq) (proj_pairs proj cases targets))).
Proof. exact kleor_sorted_filled. Qed.
Print Assumptions C17_kleor_sorted_filled.

(* the full method searches its own NUN (nun_is_nearest_unlike applies to it) and reports the UNprojected NUN *)
Theorem C17_kleor_uses_its_nun :
  forall argsort dist proj (L : Type) k bs cases targets (labels : list L) q tq,
    let B := eff_batch bs (length cases) in
    let nun_e := nun_search argsort dist (zip_batches B (project_dataset proj B cases targets) targets) (proj q tq) tq in
    let r := kleor_one argsort dist proj true k bs cases targets labels q tq None in
    let r' := kleor_one argsort dist proj false k bs cases targets labels q tq None in
    kr_nun_idx r = snd nun_e /\ kr_nun_dist r = fst nun_e /\ kr_nun_idx r' = snd nun_e /\ kr_nun_dist r' = fst nun_e
    /\ kr_nun r = dataset_gather (chunks B cases) (snd nun_e) /\ kr_nun_label r = dataset_gather (chunks B labels) (snd nun_e)
    /\ kr_examples r = kr_examples (kleor_one argsort dist proj true k bs cases targets labels q tq (Some nun_e))
    /\ kr_examples r' = kr_examples (kleor_one argsort dist proj false k bs cases targets labels q tq (Some nun_e)).
Proof. exact kleor_nun_fields. Qed.
Print Assumptions C17_kleor_uses_its_nun.

(* non-vacuity: 5 one-dimensional cases, classes 0,0,1,0,1, batch size 2, query 0 of class 0, Manhattan distance.
   NUN = case 2 (x = 2, distance 2).  Sim-Miss ranks the class-0 cases 0 (x=1), 1 (x=3), 3 (x=-1) by distance to
   the NUN: 1, 1, 3.  Global-Sim drops case 1 (x = 3: farther than the NUN) and would also drop a case at distance
   exactly 2 (strict); k = 3 leaves one slot unfilled (+inf, (-1,-1)). *)
Example C17_nonvacuous :
  let cases := [[q 1 1]; [q 3 1]; [q 2 1]; [q (-1) 1]; [q 5 1]] in
  let targets := [[q 1 1; q 0 1]; [q 1 1; q 0 1]; [q 0 1; q 1 1]; [q 1 1; q 0 1]; [q 0 1; q 1 1]] in
  let run g := kleor_one argsort_stable manhattan (fun x _ => x) g 3 (Some 2) cases targets [10; 11; 12; 13; 14]
                         [q 0 1] [q 1 1; q 0 1] None in
  bs_ok' (Some 2)
  /\ kr_nun_idx (run false) = (1%Z, 0%Z) /\ kr_nun_dist (run false) = Fin (q 2 1)
  /\ map (fun e : @sf_example nat => (sf_dist_to_nun e, sf_dist e, sf_idx e)) (kr_examples (run false))
     = [(Fin (q 1 1), Fin (q 1 1), (0%Z, 0%Z)); (Fin (q 1 1), Fin (q 3 1), (0%Z, 1%Z)); (Fin (q 3 1), Fin (q 1 1), (1%Z, 1%Z))]
  /\ map (fun e : @sf_example nat => (sf_dist_to_nun e, sf_dist e, sf_idx e)) (kr_examples (run true))
     = [(Fin (q 1 1), Fin (q 1 1), (0%Z, 0%Z)); (Fin (q 3 1), Fin (q 1 1), (1%Z, 1%Z)); (Inf, Inf, fill_idx)].
Proof. cbv zeta. split; [cbn; lia|]. vm_compute. repeat split; reflexivity. Qed.
