(* C03/Proofs.v — generic facts behind "batching is transparent": a method whose model equals a per-sample map
   commutes with every selection of its inputs (permutation, subset, duplication). *)
From Xpl Require Import Base.Tensor C06.Spec C06.Proofs.
From Coq Require Import Arith.
Close Scope Qc_scope. Open Scope nat_scope.

(* pick the samples number idx_0, idx_1, ... (a permutation, a subset, with repetitions ...) *)
Definition select {A} (idx : list nat) (l : list A) (d : A) : list A := map (fun i => nth i l d) idx.

Lemma nth_map2 {A B C} (f : A -> B -> C) a b da db i : i < length a -> i < length b ->
  nth i (map2 f a b) (f da db) = f (nth i a da) (nth i b db).
Proof. revert b i; induction a as [|x a IH]; intros [|y b] [|i] Ha Hb; cbn in *; try lia; auto. apply IH; lia. Qed.

Theorem map2_select {A B C} (f : A -> B -> C) idx xs ts dx dt :
  (forall i, In i idx -> i < length xs /\ i < length ts) ->
  map2 f (select idx xs dx) (select idx ts dt) = select idx (map2 f xs ts) (f dx dt).
Proof.
  intro H. unfold select. rewrite map2_map_l, map2_map_r, map2_same. apply map_ext_in.
  intros i Hi. destruct (H i Hi). symmetry. apply nth_map2; assumption.
Qed.

Lemma select_in {A} idx (l : list A) d x : (forall i, In i idx -> i < length l) -> In x (select idx l d) -> In x l.
Proof. intros H Hx. unfold select in Hx. apply in_map_iff in Hx as [i [<- Hi]]. apply nth_In. auto. Qed.

Open Scope Qc_scope.
(* Occlusion: the explanation of a sample does not depend on which other samples are passed with it *)
Theorem occlusion_select (score : list Qc -> list Qc -> Qc) g bs bs' v xs ts idx dx dt :
  geom_ok g -> bs_ok bs -> bs_ok bs' -> (forall x, In x xs -> length x = geom_size g) ->
  (forall i, In i idx -> (i < length xs)%nat /\ (i < length ts)%nat) ->
  occlusion score g bs v (select idx xs dx) (select idx ts dt)
  = select idx (occlusion score g bs' v xs ts) (spec_map score g v dx dt).
Proof.
  intros Hg Hb Hb' Hx Hi. rewrite !occlusion_correct; try assumption.
  - unfold spec_occlusion. apply map2_select. exact Hi.
  - intros x K. apply Hx. eapply select_in; [|exact K]. intros i Hin. apply Hi; exact Hin.
Qed.

(* ---- the same for the gradient methods, Integrated Gradients and the Sobol / HSIC explain loop ---- *)
From Xpl Require C01.Model C01.Spec C01.Proofs C04.Model C04.Spec C04.Proofs C08.Model C08.Spec C08.Proofs.

Theorem saliency_select (grad : list Qc -> list Qc -> list Qc) k r bs bs' xs ts idx dx dt :
  C01.Spec.shape_preserving grad -> C01.Spec.kind_ok k -> bs_ok bs -> bs_ok bs' ->
  (forall x, In x xs -> length x = C01.Model.kind_size k) -> length dx = C01.Model.kind_size k ->
  (forall i, In i idx -> (i < length xs)%nat /\ (i < length ts)%nat) ->
  C01.Model.saliency grad k r bs (select idx xs dx) (select idx ts dt)
  = select idx (C01.Model.saliency grad k r bs' xs ts) (C01.Spec.spec_reduce k r (C01.Spec.spec_saliency grad dx dt)).
Proof.
  intros Hg Hk Hb Hb' Hx Hdx Hi. rewrite !C01.Proofs.saliency_correct; try assumption.
  - apply (map2_select (fun x t => C01.Spec.spec_reduce k r (C01.Spec.spec_saliency grad x t))). exact Hi.
  - intros x K. unfold select in K. apply in_map_iff in K as [i [<- Hin]].
    destruct (Hi i Hin) as [H1 _]. apply Hx. apply nth_In. exact H1.
Qed.

Theorem gradient_input_select (grad : list Qc -> list Qc -> list Qc) k r bs bs' xs ts idx dx dt :
  C01.Spec.shape_preserving grad -> C01.Spec.kind_ok k -> bs_ok bs -> bs_ok bs' ->
  (forall x, In x xs -> length x = C01.Model.kind_size k) ->
  (forall i, In i idx -> (i < length xs)%nat /\ (i < length ts)%nat) ->
  C01.Model.gradient_input grad k r bs (select idx xs dx) (select idx ts dt)
  = select idx (C01.Model.gradient_input grad k r bs' xs ts) (C01.Spec.spec_reduce k r (C01.Spec.spec_gradient_input grad dx dt)).
Proof.
  intros Hg Hk Hb Hb' Hx Hi. rewrite !C01.Proofs.gradient_input_correct; try assumption.
  - apply (map2_select (fun x t => C01.Spec.spec_reduce k r (C01.Spec.spec_gradient_input grad x t))). exact Hi.
  - intros x K. unfold select in K. apply in_map_iff in K as [i [<- Hin]].
    destruct (Hi i Hin) as [H1 _]. apply Hx. apply nth_In. exact H1.
Qed.

Theorem ig_select (grad : list Qc -> list Qc -> list Qc) n m bs bs' bv xs ts idx dx dt :
  C04.Spec.bs_ok bs -> C04.Spec.bs_ok bs' -> (2 <= m)%nat -> xs <> [] -> idx <> [] ->
  (forall x, In x xs -> length x = n) -> C04.Spec.grad_shape n grad ->
  (forall i, In i idx -> (i < length xs)%nat /\ (i < length ts)%nat) ->
  C04.Model.ig grad n m bs bv (select idx xs dx) (select idx ts dt)
  = select idx (C04.Model.ig grad n m bs' bv xs ts) (C04.Spec.spec_ig_one grad n m bv dx dt).
Proof.
  intros Hb Hb' Hm Hne Hidx Hx Hg Hi. rewrite !C04.Proofs.ig_correct; try assumption.
  - unfold C04.Spec.spec_ig. apply (map2_select (C04.Spec.spec_ig_one grad n m bv)). exact Hi.
  - destruct idx; [congruence | discriminate].
  - intros x K. unfold select in K. apply in_map_iff in K as [i [<- Hin]].
    destruct (Hi i Hin) as [H1 _]. apply Hx. apply nth_In. exact H1.
Qed.

Theorem gsa_select (score : list Qc -> list Qc -> Qc) (est : list Qc -> list Qc) pf g H W C bs bs' masks xs ts idx dx dt :
  C08.Spec.bs_valid bs -> C08.Spec.bs_valid bs' ->
  (forall i, In i idx -> (i < length xs)%nat /\ (i < length ts)%nat) ->
  C08.Model.gsa_explain score est pf g H W C bs masks (select idx xs dx) (select idx ts dt)
  = select idx (C08.Model.gsa_explain score est pf g H W C bs' masks xs ts)
           (est (C08.Spec.perturbed_scores score (pf dx) g H W C masks dx dt)).
Proof.
  intros Hb Hb' Hi. rewrite !C08.Proofs.gsa_explain_correct by assumption.
  apply (map2_select (fun x t => est (C08.Spec.perturbed_scores score (pf x) g H W C masks x t))). exact Hi.
Qed.
