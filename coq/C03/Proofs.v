(* C03/Proofs.v — generic facts behind "batching is transparent": a method whose model equals a per-sample map
   commutes with every selection of its inputs (permutation, subset, duplication). *)
From Xpl Require Import Base.Tensor C06.Spec C06.Proofs.
From Coq Require Import Arith.
Close Scope Qc_scope. Open Scope nat_scope.

(* pick the samples number idx_0, idx_1, ... (a permutation, a subset, with repetitions ...) *)
Definition select {A} (idx : list nat) (l : list A) (d : A) : list A := map (fun i => nth i l d) idx.

Lemma nth_map2 {A B C} (f : A -> B -> C) a b da db i : i < length a -> i < length b ->
  nth i (map2 f a b) (f da db) = f (nth i a da) (nth i b db).
Proof. revert b i; induction a as [|x a IH]; intros [|y b] [|i] Ha Hb; cbn in *; try lia; auto. apply IH; lia. Qed.

Theorem map2_select {A B C} (f : A -> B -> C) idx xs ts dx dt :
  (forall i, In i idx -> i < length xs /\ i < length ts) ->
  map2 f (select idx xs dx) (select idx ts dt) = select idx (map2 f xs ts) (f dx dt).
Proof.
  intro H. unfold select. rewrite map2_map_l, map2_map_r, map2_same. apply map_ext_in.
  intros i Hi. destruct (H i Hi). symmetry. apply nth_map2; assumption.
Qed.

Lemma select_in {A} idx (l : list A) d x : (forall i, In i idx -> i < length l) -> In x (select idx l d) -> In x l.
Proof. intros H Hx. unfold select in Hx. apply in_map_iff in Hx as [i [<- Hi]]. apply nth_In. auto. Qed.

Open Scope Qc_scope.
(* Occlusion: the explanation of a sample does not depend on which other samples are passed with it *)
Theorem occlusion_select (score : list Qc -> list Qc -> Qc) g bs bs' v xs ts idx dx dt :
  geom_ok g -> bs_ok bs -> bs_ok bs' -> (forall x, In x xs -> length x = geom_size g) ->
  (forall i, In i idx -> (i < length xs)%nat /\ (i < length ts)%nat) ->
  occlusion score g bs v (select idx xs dx) (select idx ts dt)
  = select idx (occlusion score g bs' v xs ts) (spec_map score g v dx dt).
Proof.
  intros Hg Hb Hb' Hx Hi. rewrite !occlusion_correct; try assumption.
  - unfold spec_occlusion. apply map2_select. exact Hi.
  - intros x K. apply Hx. eapply select_in; [|exact K]. intros i Hin. apply Hi; exact Hin.
Qed.
