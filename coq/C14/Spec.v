(* C14/Spec.v — the property's own words, no batching, no reshapes, no dictionary:

   "At step k, Deletion (Insertion) reports the mean model score after the k highest-ranked features of each
    sample were replaced by the baseline (restored onto the baseline), all channels of a pixel moving together;
    the steps are evenly spaced from 0 to floor(max_percentage*features) and the metric is the trapezoidal mean
    of that curve." *)
From Xpl Require Export C14.Model.
From Coq Require Export Sorting.Permutation Sorting.Sorted.
Close Scope Qc_scope. Open Scope nat_scope.

Definition memb (i : nat) (l : list nat) : bool := existsb (Nat.eqb i) l.

(* the sample `from` in which the features listed in `moved` are taken from `to_`;
   flat (row-major) index k belongs to feature k / C, so all C channels of a feature move together *)
Definition move (C : nat) (from to_ : list Qc) (moved : list nat) : list Qc :=
  map (fun k => if memb (k / C) moved then nthq to_ k else nthq from k) (seq 0 (length from)).

(* what a ranking of the features of one sample is: a permutation of 0..len-1 sorted by decreasing value
   (ties in any order) — the contract of  argsort(.)[::-1] *)
Definition by_value_desc (e : list Qc) (a b : nat) : Prop := (nthq e b <= nthq e a)%Qc.
Definition is_ranking (e : list Qc) (r : list nat) : Prop :=
  Permutation r (seq 0 (length e)) /\ StronglySorted (by_value_desc e) r.
Definition rank_ok (rank : list Qc -> list nat) : Prop := forall e, is_ranking e (rank e).

(* value of feature f of an explanation with c channels: the mean of its c channel values *)
Definition feature_value (c : nat) (e : list Qc) (f : nat) : Qc :=
  (qsum (map (fun j => nthq e (f * c + j)) (seq 0 c)) / qn c)%Qc.
Definition feature_values (ec : option nat) (F : nat) (e : list Qc) : list Qc :=
  match ec with Some c => map (feature_value c e) (seq 0 F) | None => e end.

Fixpoint map4 {A B C D E} (f : A -> B -> C -> D -> E) (a : list A) (b : list B) (c : list C) (d : list D) : list E :=
  match a, b, c, d with
  | x :: a', y :: b', z :: c', w :: d' => f x y z w :: map4 f a' b' c' d'
  | _, _, _, _ => []
  end.

Section Spec.
Variable score : list Qc -> list Qc -> Qc.

(* score of one sample after its k highest-ranked features moved *)
Definition point (md : cmode) (C : nat) (k : nat) (x b : list Qc) (r : list nat) (t : list Qc) : Qc :=
  match md with
  | Deletion => score (move C x b (firstn k r)) t       (* replaced by the baseline *)
  | Insertion => score (move C b x (firstn k r)) t      (* restored onto the baseline *)
  end.

(* the curve as a function of the number k of moved features: mean over the samples.
   xs inputs, bl baselines, rs rankings (one per sample), ts targets *)
Definition curve (md : cmode) (C : nat) (xs bl : list (list Qc)) (rs : list (list nat)) (ts : list (list Qc))
  (k : nat) : Qc :=
  qmean (map4 (point md C k) xs bl rs ts).
End Spec.

(* the dictionary keys: the step values in order of first occurrence (equal steps collapse) *)
Definition add_key (ks : list nat) (k : nat) : list nat := if memb k ks then ks else ks ++ [k].
Definition distinct_steps (l : list nat) : list nat := fold_left add_key l [].

(* trapezoidal mean of equally spaced values v_0 .. v_n (n >= 1): (v_0/2 + v_1 + ... + v_(n-1) + v_n/2) / n *)
Definition trapezoid_mean (v : list Qc) : Qc :=
  ((qsum v - (hd 0 v + last v 0) / two) / qn (length v - 1))%Qc.

(* configuration as the API requires it *)
Definition steps_ok (c : cfg) : Prop :=
  (cSteps c = (-1)%Z /\ 1 <= max_nb (cF c) (cPct c)) \/ (1 <= cSteps c)%Z.
Definition cfg_ok (c : cfg) : Prop :=
  1 <= cC c /\ steps_ok c /\ match cEC c with Some ec => 1 <= ec | None => True end.
Definition sizes_ok (c : cfg) (xs bl : list (list Qc)) : Prop :=
  Forall (fun x => length x = cF c * cC c) xs /\ Forall (fun b => length b = cF c * cC c) bl.
(* batch_size: None or an integer >= 1 *)
Definition bs_ok (bs : option nat) : Prop := match bs with Some b => 1 <= b | None => True end.

(* additive models: the score is a constant plus one contribution per feature (a function of all the channels of
   that feature); the exact attribution of feature f is what replacing it by the baseline removes *)
Open Scope Qc_scope.
Definition feat_row (C : nat) (z : list Qc) (f : nat) : list Qc := map (fun j => nthq z (f * C + j)) (seq 0 C).
Definition additive_score (contrib : nat -> list Qc -> Qc) (c0 : Qc) (C F : nat) (z : list Qc) : Qc :=
  c0 + qsum (map (fun f => contrib f (feat_row C z f)) (seq 0 F)).
Definition exact_attr (contrib : nat -> list Qc -> Qc) (C F : nat) (x b : list Qc) : list Qc :=
  map (fun f => contrib f (feat_row C x f) - contrib f (feat_row C b f)) (seq 0 F).
Close Scope Qc_scope.
