(* C14/Model.v — executable transcription of xplique/metrics/fidelity.py, CausalFidelity
   (Deletion = causal_mode "deletion", Insertion = causal_mode "insertion").  No proofs here.

   __init__:
     has_channels = len(inputs.shape) > 3
     nb_features  = prod(shape[1:-1]) if has_channels else prod(shape[1:])
     inputs_flatten = inputs.reshape(N, nb_features, C)            (C = 1 without channel axis)
     max_nb_perturbed = int(floor(nb_features * max_percentage_perturbed))
     if steps == -1: steps = max_nb_perturbed

   detailed_evaluate(explanations):
     if len(explanations.shape) == 4: explanations = mean(explanations, -1)
     explanations_flatten = explanations.reshape(N, -1)
     most_important_features = argsort(explanations_flatten, -1)[:, ::-1]
     baselines = baseline_mode(inputs) if isfunction(baseline_mode) else ones_like(inputs) * baseline_mode
     baselines_flatten = baselines.reshape(inputs_flatten.shape)
     steps = linspace(0, max_nb_perturbed, self.steps + 1, dtype=int32)
     (start, end) = (inputs_flatten, baselines_flatten) if deletion else (baselines_flatten, inputs_flatten)
     scores_dict = {}
     for step in steps:
        ids_to_flip  = most_important_features[:, :step]
        batch_inputs = start.copy()
        for i, ids in enumerate(ids_to_flip): batch_inputs[i, ids] = end[i, ids]
        batch_inputs = batch_inputs.reshape(-1, *inputs.shape[1:])
        predictions  = batch_inference_function(model, batch_inputs, targets, batch_size)
        scores_dict[step] = mean(predictions)
     return scores_dict

   evaluate(explanations):
     np_scores = array(list(detailed_evaluate(explanations).values()))
     auc = mean(np_scores[:-1] + np_scores[1:]) * 0.5

   commons/operators_operations.py, operator_batching:
     batch_size None -> operator(model, inputs, targets)
     else            -> concat([operator(model, x, y) for x, y in Dataset((inputs, targets)).batch(batch_size)])

   Library behaviour kept as function arguments:
     score : sample (flat, row-major) -> target -> Qc     the model + operator, applied row-wise
     rank  : list Qc -> list nat                          argsort(.)[::-1]: a permutation sorting by decreasing value
   np.linspace(0, m, S+1, dtype=int32) is transcribed as its exact-arithmetic value  floor(j*m/S), j = 0..S
   (NumPy computes j*(m/S) in float64; the correspondence check guards the rare (m,S) where that rounds below
   an exact integer, e.g. m=30, S=22, j=11). *)
From Xpl Require Export Base.ListX.
From Coq Require Export Qround.
Close Scope Qc_scope. Open Scope nat_scope.

Inductive cmode := Deletion | Insertion.

(* baseline_mode: a number, or a function called once with ALL the inputs *)
Inductive bmode :=
| BConst (v : Qc)
| BFun (f : list (list Qc) -> list (list Qc)).

(* configuration fixed by __init__:
     cF = nb_features, cC = channels of the inputs (1 when there is no channel axis),
     cEC = Some c when the explanations are 4-D with c channels (averaged), None otherwise,
     cSteps = the `steps` argument (an integer, -1 allowed), cPct = max_percentage_perturbed *)
Record cfg := { cF : nat; cC : nat; cEC : option nat; cSteps : Z; cPct : Qc; cMode : cmode }.

(* int(np.floor(nb_features * max_percentage_perturbed)) *)
Definition max_nb (F : nat) (pct : Qc) : nat := Z.to_nat (Qfloor (this (qn F * pct)%Qc)).

(* if steps == -1: steps = max_nb_perturbed *)
Definition eff_steps (steps : Z) (m : nat) : nat := if Z.eqb steps (-1) then m else Z.to_nat steps.

(* np.linspace(0, m, S + 1, dtype=np.int32) *)
Definition linspace_int (m S : nat) : list nat := map (fun j => (j * m) / S) (seq 0 (S + 1)).

(* np.mean(explanations, -1) on flat row-major data with c channels *)
Definition chan_mean (c : nat) (e : list Qc) : list Qc := map (fun g => (qsum g / qn c)%Qc) (chunks c e).

(* x.reshape(nb_features, C): list of rows *)
Definition rows (C : nat) (x : list Qc) : list (list Qc) := chunks C x.

(* a[i] = v *)
Fixpoint upd {A} (l : list A) (i : nat) (v : A) : list A :=
  match l, i with
  | [], _ => []
  | _ :: r, O => v :: r
  | a :: r, S i' => a :: upd r i' v
  end.

(* batch_inputs[i, ids] = end[i, ids] for one sample: every listed row is taken from `end` *)
Definition flip_rows (start end_ : list (list Qc)) (ids : list nat) : list (list Qc) :=
  fold_left (fun acc id => upd acc id (nth id end_ [])) ids start.

(* scores_dict[step] = value : Python dict, insertion order kept, existing key overwritten in place *)
Fixpoint dict_set (k : nat) (v : Qc) (d : list (nat * Qc)) : list (nat * Qc) :=
  match d with
  | [] => [(k, v)]
  | (k', v') :: r => if Nat.eqb k' k then (k', v) :: r else (k', v') :: dict_set k v r
  end.

Section Causal.
Variable score : list Qc -> list Qc -> Qc.
Variable rank : list Qc -> list nat.

(* batch_inference_function(model, inputs, targets, batch_size) *)
Definition batch_inference (bs : option nat) (xs ts : list (list Qc)) : list Qc :=
  match bs with
  | None => map2 score xs ts
  | Some b => concat (map (map (fun xt => score (fst xt) (snd xt))) (chunks b (combine xs ts)))
  end.

Definition baselines_of (bm : bmode) (xs : list (list Qc)) : list (list Qc) :=
  match bm with
  | BConst v => map (map (fun _ => v)) xs           (* ones_like(inputs) * v *)
  | BFun f => f xs
  end.

Definition ranking_of (c : cfg) (es : list (list Qc)) : list (list nat) :=
  let es1 := match cEC c with Some ec => map (chan_mean ec) es | None => es end in
  map rank es1.

(* one iteration of `for step in steps` : the perturbed batch *)
Definition step_batch (C : nat) (start end_ : list (list (list Qc))) (mif : list (list nat)) (step : nat)
  : list (list Qc) :=
  map2 (fun se r => concat (flip_rows (fst se) (snd se) (firstn step r))) (combine start end_) mif.

Definition detailed_evaluate (c : cfg) (bs : option nat) (bm : bmode) (xs ts es : list (list Qc))
  : list (nat * Qc) :=
  let m := max_nb (cF c) (cPct c) in
  let S := eff_steps (cSteps c) m in
  let mif := ranking_of c es in
  let xrows := map (rows (cC c)) xs in
  let brows := map (rows (cC c)) (baselines_of bm xs) in
  let start := match cMode c with Deletion => xrows | Insertion => brows end in
  let end_ := match cMode c with Deletion => brows | Insertion => xrows end in
  fold_left
    (fun dict step =>
       let batch := step_batch (cC c) start end_ mif step in
       let predictions := batch_inference bs batch ts in
       dict_set step (qmean predictions) dict)
    (linspace_int m S) [].

Open Scope Qc_scope.

(* np.mean(v[:-1] + v[1:]) * 0.5 *)
Definition auc_of (v : list Qc) : Qc :=
  qmean (map2 Qcplus (removelast v) (tl v)) * half.

Definition evaluate (c : cfg) (bs : option nat) (bm : bmode) (xs ts es : list (list Qc)) : Qc :=
  auc_of (map snd (detailed_evaluate c bs bm xs ts es)).
End Causal.

(* ---- a concrete argsort to RUN the model: stable insertion sort by decreasing value.
   On pairwise distinct values every sorting permutation is this one (Proofs.v: ranking_unique). ---- *)
Fixpoint ins_desc (p : nat * Qc) (l : list (nat * Qc)) : list (nat * Qc) :=
  match l with
  | [] => [p]
  | p' :: r => if Qcltb (snd p') (snd p) then p :: p' :: r else p' :: ins_desc p r
  end.
Definition rank_insertion (e : list Qc) : list nat :=
  map fst (fold_left (fun acc p => ins_desc p acc) (combine (seq 0 (length e)) e) []).
