(* C14/Proofs.v — the executable model of CausalFidelity (Deletion / Insertion) equals the documented curve,
   for every batch size, number of samples, shape, steps, max_percentage; and the listed consequences. *)
From Xpl Require Import Base.Tensor C14.Spec.
From Coq Require Import Arith FinFun Lqa.
Close Scope Qc_scope. Open Scope nat_scope.

(* ================================================================ generic list facts *)
Lemma nth_skipn' {A} n (l : list A) i d : nth i (skipn n l) d = nth (n + i) l d.
Proof. revert l; induction n as [|n IH]; intro l; [reflexivity|]. destruct l as [|a l]; cbn [skipn plus nth].
  - destruct i; reflexivity.
  - apply IH. Qed.

Lemma nth_firstn' {A} n (l : list A) i d : i < n -> nth i (firstn n l) d = nth i l d.
Proof. revert l i; induction n as [|n IH]; intros l i H; [lia|]. destruct l as [|a l]; [reflexivity|].
  destruct i; cbn [firstn nth]; [reflexivity | apply IH; lia]. Qed.

Lemma firstn_as_seq {A} n (l : list A) d : n <= length l -> firstn n l = map (fun j => nth j l d) (seq 0 n).
Proof. intro H. rewrite (list_as_seq (firstn n l) d). rewrite firstn_length, Nat.min_l by exact H.
  apply map_ext_in. intros j Hj. apply in_seq in Hj. apply nth_firstn'; lia. Qed.

(* x.reshape(F, C) as index arithmetic *)
Lemma chunks_as_seq {A} (C F : nat) (x : list A) d : 1 <= C -> length x = F * C ->
  chunks C x = map (fun i => map (fun j => nth (i * C + j) x d) (seq 0 C)) (seq 0 F).
Proof.
  intro HC. revert x; induction F as [|F IH]; intros x Hx.
  - destruct x; [reflexivity | cbn [length] in Hx; lia].
  - assert (Hne : x <> []) by (intro E; subst x; cbn [length] in Hx; nia).
    rewrite chunks_cons_step by assumption. cbn [seq map]. f_equal.
    + rewrite (firstn_as_seq C x d) by nia. reflexivity.
    + rewrite IH by (rewrite skipn_length; nia). rewrite <- seq_shift, map_map.
      apply map_ext. intro i. apply map_ext. intro j. rewrite nth_skipn'. f_equal. lia.
Qed.

Lemma concat_map_flat_map {A B} (f : A -> list B) l : concat (map f l) = flat_map f l.
Proof. symmetry; apply flat_map_concat_map. Qed.

Lemma upd_length {A} (l : list A) i v : length (upd l i v) = length l.
Proof. revert i; induction l as [|a l IH]; intros [|i]; cbn [upd length]; auto. Qed.

Lemma upd_nth {A} (l : list A) i v j d : nth j (upd l i v) d = if (j =? i) && (i <? length l) then v else nth j l d.
Proof. revert i j; induction l as [|a l IH]; intros i j.
  - cbn [upd length]. replace (i <? 0) with false by (symmetry; apply Nat.ltb_ge; lia).
    rewrite andb_false_r. reflexivity.
  - destruct i as [|i]; destruct j as [|j]; cbn [upd nth length]; try reflexivity.
    rewrite IH. replace (S j =? S i) with (j =? i) by reflexivity.
    replace (S i <? S (length l)) with (i <? length l) by reflexivity. reflexivity. Qed.

Lemma memb_In i l : memb i l = true <-> In i l.
Proof. unfold memb. rewrite existsb_exists. split.
  - intros [x [Hx E]]. apply Nat.eqb_eq in E. subst; exact Hx.
  - intro H. exists i. split; [exact H | apply Nat.eqb_refl]. Qed.

Lemma memb_false i l : memb i l = false <-> ~ In i l.
Proof. rewrite <- memb_In. destruct (memb i l); split; intro; congruence. Qed.

Lemma map4_ext_in {A B C D E} (f g : A -> B -> C -> D -> E) a b c d :
  (forall x y z w, In x a -> In y b -> f x y z w = g x y z w) -> map4 f a b c d = map4 g a b c d.
Proof. revert b c d; induction a as [|x a IH]; intros [|y b] [|z c] [|w d] H; cbn [map4]; try reflexivity.
  f_equal; [apply H; left; reflexivity | apply IH; intros; apply H; right; assumption]. Qed.

(* ================================================================ flipping rows = moving features *)
Lemma flip_rows_length s e ids : length (flip_rows s e ids) = length s.
Proof. unfold flip_rows. revert s; induction ids as [|id ids IH]; intro s; cbn [fold_left]; [reflexivity|].
  rewrite IH. apply upd_length. Qed.

Lemma flip_rows_nth s e ids i : i < length s ->
  nth i (flip_rows s e ids) [] = if memb i ids then nth i e [] else nth i s [].
Proof.
  unfold flip_rows. revert s; induction ids as [|id ids IH]; intros s Hi; cbn [fold_left]; [reflexivity|].
  rewrite IH by (rewrite upd_length; exact Hi). rewrite upd_nth.
  unfold memb. cbn [existsb]. fold (memb i ids).
  destruct (memb i ids) eqn:Em; [rewrite orb_true_r; reflexivity|]. rewrite orb_false_r.
  destruct (i =? id) eqn:E; cbn [andb]; [|reflexivity].
  apply Nat.eqb_eq in E. subst id.
  replace (i <? length s) with true by (symmetry; apply Nat.ltb_lt; exact Hi). reflexivity.
Qed.

Lemma flip_rows_move C F x b ids : 1 <= C -> length x = F * C -> length b = F * C ->
  concat (flip_rows (rows C x) (rows C b) ids) = move C x b ids.
Proof.
  intros HC Hx Hb. unfold rows.
  assert (Ls : length (chunks C x) = F) by (rewrite (chunks_as_seq C F x 0%Qc) by assumption; rewrite map_length, seq_length; reflexivity).
  rewrite (list_as_seq (flip_rows (chunks C x) (chunks C b) ids) []). rewrite flip_rows_length, Ls.
  rewrite (map_ext_in _ (fun i => map (fun j => if memb i ids then nthq b (i * C + j) else nthq x (i * C + j)) (seq 0 C))).
  2:{ intros i Hi. apply in_seq in Hi. rewrite flip_rows_nth by lia.
      rewrite (chunks_as_seq C F x 0%Qc), (chunks_as_seq C F b 0%Qc) by assumption.
      rewrite !(nth_map_seq _ F i []) by lia. destruct (memb i ids); reflexivity. }
  rewrite concat_map_flat_map.
  rewrite (grid_flat (fun i j => if memb i ids then nthq b (i * C + j) else nthq x (i * C + j)) F C).
  unfold move. rewrite Hx. apply map_ext_in. intros k Hk.
  assert (C <> 0) by lia. pose proof (Nat.div_mod k C H) as E.
  replace (k / C * C + k mod C) with k by lia. reflexivity.
Qed.

(* ================================================================ batched inference is row-wise *)
Section Main.
Variable score : list Qc -> list Qc -> Qc.
Variable rank : list Qc -> list nat.

Lemma batch_inference_rowwise bs xs ts : bs_ok bs -> batch_inference score bs xs ts = map2 score xs ts.
Proof.
  destruct bs as [b|]; cbn [bs_ok batch_inference]; [|reflexivity]. intro Hb.
  rewrite map_chunks by exact Hb. rewrite map2_combine. reflexivity.
Qed.

Lemma step_batch_scores md C F xs bl rs ts k : 1 <= C ->
  Forall (fun x => length x = F * C) xs -> Forall (fun b => length b = F * C) bl ->
  map2 score
    (step_batch C (match md with Deletion => map (rows C) xs | Insertion => map (rows C) bl end)
                  (match md with Deletion => map (rows C) bl | Insertion => map (rows C) xs end) rs k) ts
  = map4 (point score md C k) xs bl rs ts.
Proof.
  intros HC Hxs Hbl. unfold step_batch.
  revert bl rs ts Hbl; induction Hxs as [|x xs Hx Hxs IH]; intros bl rs ts Hbl.
  - destruct md; cbn [map combine map2 map4]; [reflexivity|]. destruct bl; reflexivity.
  - destruct Hbl as [|b bl Hb Hbl]; [destruct md; reflexivity|].
    destruct rs as [|r rs]; [destruct md; reflexivity|].
    destruct ts as [|t ts]; [destruct md; reflexivity|].
    specialize (IH bl rs ts Hbl).
    destruct md; cbn [map combine map2 map4 fst snd point] in *; rewrite IH;
      rewrite (flip_rows_move C F) by assumption; reflexivity.
Qed.

(* ================================================================ the dictionary *)
Lemma dict_set_keys (v : nat -> Qc) ks k :
  dict_set k (v k) (map (fun k => (k, v k)) ks) = map (fun k => (k, v k)) (add_key ks k).
Proof.
  unfold add_key. induction ks as [|a ks IH]; [reflexivity|].
  cbn [map dict_set]. unfold memb in *. cbn [existsb].
  rewrite (Nat.eqb_sym k a). destruct (a =? k) eqn:E; cbn [orb].
  - apply Nat.eqb_eq in E. subst a. reflexivity.
  - rewrite IH. fold (memb k ks). destruct (memb k ks); reflexivity.
Qed.

Lemma dict_fold (v : nat -> Qc) l ks :
  fold_left (fun d k => dict_set k (v k) d) l (map (fun k => (k, v k)) ks)
  = map (fun k => (k, v k)) (fold_left add_key l ks).
Proof. revert ks; induction l as [|k l IH]; intro ks; cbn [fold_left]; [reflexivity|].
  rewrite dict_set_keys. apply IH. Qed.

Lemma fold_left_ext_in {A B} (f g : A -> B -> A) l a : (forall x y, In y l -> f x y = g x y) ->
  fold_left f l a = fold_left g l a.
Proof. revert a; induction l as [|y l IH]; intros a H; cbn [fold_left]; [reflexivity|].
  rewrite H by (left; reflexivity). apply IH. intros; apply H; right; assumption. Qed.

(* ================================================================ curve_correct *)
Definition steps_of (c : cfg) : list nat :=
  let m := max_nb (cF c) (cPct c) in linspace_int m (eff_steps (cSteps c) m).

Theorem detailed_correct c bs bm xs ts es :
  1 <= cC c -> bs_ok bs -> sizes_ok c xs (baselines_of bm xs) ->
  detailed_evaluate score rank c bs bm xs ts es
  = map (fun k => (k, curve score (cMode c) (cC c) xs (baselines_of bm xs) (ranking_of rank c es) ts k))
        (distinct_steps (steps_of c)).
Proof.
  intros HC Hbs [Hxs Hbl]. unfold detailed_evaluate, distinct_steps, steps_of. cbv zeta.
  set (v := fun k => curve score (cMode c) (cC c) xs (baselines_of bm xs) (ranking_of rank c es) ts k).
  rewrite <- (dict_fold v _ []). cbn [map]. apply fold_left_ext_in. intros d k _.
  f_equal. unfold v, curve. f_equal.
  rewrite batch_inference_rowwise by exact Hbs.
  apply (step_batch_scores (cMode c) (cC c) (cF c)); assumption.
Qed.

Corollary detailed_batch_invariant c bs bs' bm xs ts es :
  1 <= cC c -> bs_ok bs -> bs_ok bs' -> sizes_ok c xs (baselines_of bm xs) ->
  detailed_evaluate score rank c bs bm xs ts es = detailed_evaluate score rank c bs' bm xs ts es.
Proof. intros. rewrite !detailed_correct by assumption. reflexivity. Qed.

Corollary evaluate_batch_invariant c bs bs' bm xs ts es :
  1 <= cC c -> bs_ok bs -> bs_ok bs' -> sizes_ok c xs (baselines_of bm xs) ->
  evaluate score rank c bs bm xs ts es = evaluate score rank c bs' bm xs ts es.
Proof. intros. unfold evaluate. rewrite (detailed_batch_invariant c bs bs') by assumption. reflexivity. Qed.

End Main.

(* ######## part 2 ######## *)
(* ================================================================ the steps *)
Lemma linspace_length m S : length (linspace_int m S) = S + 1.
Proof. unfold linspace_int. rewrite map_length, seq_length. reflexivity. Qed.

Lemma linspace_nth m S j : j <= S -> nth j (linspace_int m S) 0 = j * m / S.
Proof. intro H. unfold linspace_int. apply (nth_map_seq (fun j => j * m / S)). lia. Qed.

Lemma linspace_floor m S j : 1 <= S -> S * (j * m / S) <= j * m < S * (j * m / S + 1).
Proof. intro HS. assert (S <> 0) by lia.
  pose proof (Nat.div_mod (j * m) S H). pose proof (Nat.mod_upper_bound (j * m) S H). lia. Qed.

Lemma linspace_first m S : hd 0 (linspace_int m S) = 0.
Proof. unfold linspace_int. replace (S + 1) with (Datatypes.S S) by lia. cbn [seq map hd].
  cbn [Nat.mul]. destruct S; reflexivity. Qed.

Lemma last_map_seq {A} (f : nat -> A) n d : last (map f (seq 0 (n + 1))) d = f n.
Proof. rewrite seq_app, map_app. cbn [seq map plus]. apply last_last. Qed.

Lemma linspace_last m S : 1 <= S -> last (linspace_int m S) 0 = m.
Proof. intro HS. unfold linspace_int. rewrite last_map_seq. rewrite Nat.mul_comm. apply Nat.div_mul. lia. Qed.

Lemma div_mono_strict m S i j : 1 <= S -> S <= m -> i < j -> i * m / S < j * m / S.
Proof.
  intros HS Hm Hij. assert (H0 : S <> 0) by lia.
  pose proof (Nat.div_mod (i * m) S H0). pose proof (Nat.mod_upper_bound (i * m) S H0).
  pose proof (Nat.div_mod (j * m) S H0). pose proof (Nat.mod_upper_bound (j * m) S H0).
  set (a := i * m / S) in *. set (b := j * m / S) in *.
  assert (i * m + m <= j * m) by nia. nia.
Qed.

Lemma div_step_le1 m S j : 1 <= S -> m <= S -> j * m / S <= (j + 1) * m / S <= j * m / S + 1.
Proof.
  intros HS Hm. assert (H0 : S <> 0) by lia.
  pose proof (Nat.div_mod (j * m) S H0). pose proof (Nat.mod_upper_bound (j * m) S H0).
  pose proof (Nat.div_mod ((j + 1) * m) S H0). pose proof (Nat.mod_upper_bound ((j + 1) * m) S H0).
  set (a := j * m / S) in *. set (b := (j + 1) * m / S) in *.
  assert ((j + 1) * m = j * m + m) by lia. split; nia.
Qed.

Lemma linspace_nodup m S : 1 <= S -> S <= m -> NoDup (linspace_int m S).
Proof.
  intros HS Hm. unfold linspace_int. apply Injective_map_NoDup; [|apply seq_NoDup].
  intros i j E. destruct (Nat.lt_trichotomy i j) as [L|[L|L]]; [|exact L|].
  - pose proof (div_mono_strict m S i j HS Hm L). lia.
  - pose proof (div_mono_strict m S j i HS Hm L). lia.
Qed.

Lemma fold_add_key_nodup l acc : NoDup (acc ++ l) -> fold_left add_key l acc = acc ++ l.
Proof.
  revert acc; induction l as [|k l IH]; intros acc H; cbn [fold_left]; [rewrite app_nil_r; reflexivity|].
  assert (Hk : memb k acc = false).
  { apply memb_false. intro Hin. apply NoDup_remove_2 in H. apply H. apply in_or_app. left; exact Hin. }
  unfold add_key at 2. rewrite Hk. rewrite IH; rewrite <- app_assoc; [reflexivity | exact H].
Qed.

Lemma distinct_nodup l : NoDup l -> distinct_steps l = l.
Proof. intro H. unfold distinct_steps. rewrite fold_add_key_nodup; [reflexivity | exact H]. Qed.

Lemma distinct_slow (f : nat -> nat) n : f 0 = 0 -> (forall j, f j <= f (j + 1) <= f j + 1) ->
  distinct_steps (map f (seq 0 (n + 1))) = seq 0 (f n + 1).
Proof.
  intros H0 Hs. unfold distinct_steps. induction n as [|n IH].
  - cbn [plus seq map fold_left]. rewrite H0. reflexivity.
  - replace (S n + 1) with (S (n + 1)) by lia. rewrite seq_S, map_app, fold_left_app, IH.
    cbn [plus map fold_left]. unfold add_key.
    specialize (Hs n). replace (S n) with (n + 1) by lia.
    destruct (Nat.eq_dec (f (n + 1)) (f n)) as [E|E].
    + rewrite E. replace (memb (f n) (seq 0 (f n + 1))) with true; [reflexivity|].
      symmetry. apply memb_In. apply in_seq. lia.
    + assert (E' : f (n + 1) = f n + 1) by lia. rewrite E'.
      replace (memb (f n + 1) (seq 0 (f n + 1))) with false.
      * replace (f n + 1 + 1) with (S (f n + 1)) by lia. rewrite seq_S. reflexivity.
      * symmetry. apply memb_false. intro Hin. apply in_seq in Hin. lia.
Qed.

(* S <= max_nb: the S+1 steps are pairwise distinct, nothing collapses *)
Lemma distinct_linspace_small m S : 1 <= S -> S <= m -> distinct_steps (linspace_int m S) = linspace_int m S.
Proof. intros. apply distinct_nodup. apply linspace_nodup; assumption. Qed.

(* S >= max_nb: duplicates collapse and every count 0..max_nb is visited *)
Lemma distinct_linspace_big m S : 1 <= S -> m <= S -> distinct_steps (linspace_int m S) = seq 0 (m + 1).
Proof.
  intros HS Hm. unfold linspace_int. rewrite (distinct_slow (fun j => j * m / S)).
  - rewrite (Nat.mul_comm S m), Nat.div_mul by lia. reflexivity.
  - cbn [Nat.mul]. apply Nat.div_0_l. lia.
  - intro j. apply div_step_le1; assumption.
Qed.

Lemma linspace_nodup_iff m S : 1 <= S -> (NoDup (linspace_int m S) <-> S <= m).
Proof.
  intro HS. split; [|apply linspace_nodup; exact HS].
  intro H. destruct (le_lt_dec S m) as [L|L]; [exact L|]. exfalso.
  pose proof (distinct_nodup _ H) as E. rewrite distinct_linspace_big in E by lia.
  apply (f_equal (@length nat)) in E. rewrite seq_length, linspace_length in E. lia.
Qed.
Open Scope Qc_scope.
(* ================================================================ trapezoid *)
Lemma qn_neq0 n : n <> 0%nat -> qn n <> 0.
Proof. intros Hn H. apply Qc_eq_iff in H. unfold qn in H. rewrite Qc_Q2Qc_q in H.
  unfold Qeq in H. cbn in H. lia. Qed.

Lemma half_inv_two : half = / two.
Proof. apply Qc_is_canon. reflexivity. Qed.

Lemma two_neq0 : two <> 0.
Proof. intro H. apply Qc_eq_iff in H. discriminate H. Qed.

Lemma pairs_sum v : v <> [] ->
  qsum (map2 Qcplus (removelast v) (tl v)) = two * qsum v - hd 0 v - last v 0
  /\ length (map2 Qcplus (removelast v) (tl v)) = (length v - 1)%nat.
Proof.
  induction v as [|a v IH]; [congruence|]. intros _. destruct v as [|b w].
  - cbn [removelast tl map2 qsum hd last length]. split; [assert (E : two = 1 + 1) by (apply Qc_is_canon; reflexivity); rewrite E; ring | reflexivity].
  - destruct IH as [IH1 IH2]; [discriminate|].
    change (removelast (a :: b :: w)) with (a :: removelast (b :: w)).
    change (tl (a :: b :: w)) with (b :: w). change (tl (b :: w)) with w in IH1, IH2.
    cbn [map2 qsum length]. rewrite IH1. split.
    + change (last (a :: b :: w) 0) with (last (b :: w) 0). cbn [hd qsum].
      assert (E : two = 1 + 1) by (apply Qc_is_canon; reflexivity). rewrite E. ring.
    + rewrite IH2. cbn [length]. lia.
Qed.

Theorem auc_trapezoid v : (2 <= length v)%nat -> auc_of v = trapezoid_mean v.
Proof.
  intro H. assert (Hne : v <> []) by (intro E; subst v; cbn [length] in H; lia).
  destruct (pairs_sum v Hne) as [E1 E2]. unfold auc_of, trapezoid_mean, qmean. rewrite E1, E2.
  rewrite half_inv_two. field. split; [apply two_neq0 | apply qn_neq0; lia].
Qed.

Lemma qsum_rev v : qsum (rev v) = qsum v.
Proof. induction v as [|a v IH]; [reflexivity|]. cbn [rev]. rewrite qsum_app, IH. cbn [qsum]. ring. Qed.

Lemma hd_rev {A} (l : list A) d : hd d (rev l) = last l d.
Proof. induction l as [|a l IH]; [reflexivity|]. cbn [rev]. destruct l as [|b l]; [reflexivity|].
  change (last (a :: b :: l) d) with (last (b :: l) d). rewrite <- IH.
  cbn [rev]. destruct (rev l); reflexivity. Qed.

Lemma last_rev {A} (l : list A) d : last (rev l) d = hd d l.
Proof. rewrite <- (rev_involutive l) at 2. rewrite hd_rev. reflexivity. Qed.

Lemma trapezoid_rev v : trapezoid_mean (rev v) = trapezoid_mean v.
Proof. unfold trapezoid_mean. rewrite qsum_rev, hd_rev, last_rev, rev_length.
  f_equal. f_equal. f_equal. ring. Qed.

Lemma auc_rev v : auc_of (rev v) = auc_of v.
Proof.
  destruct (le_lt_dec 2 (length v)) as [H|H].
  - rewrite !auc_trapezoid by (rewrite ?rev_length; exact H). apply trapezoid_rev.
  - destruct v as [|a [|b w]]; [reflexivity | reflexivity | cbn [length] in H; lia].
Qed.
Close Scope Qc_scope.
(* ================================================================ rankings *)
Lemma SS_unique {A} (R : A -> A -> Prop) l l' :
  (forall a b, In a l -> In b l -> R a b -> R b a -> a = b) ->
  Permutation l l' -> StronglySorted R l -> StronglySorted R l' -> l = l'.
Proof.
  revert l'; induction l as [|a l IH]; intros l' Has P S1 S2.
  - apply Permutation_nil in P. congruence.
  - destruct l' as [|a' l'']; [apply Permutation_sym, Permutation_nil in P; discriminate|].
    apply StronglySorted_inv in S1 as [S1 F1]. apply StronglySorted_inv in S2 as [S2 F2].
    rewrite Forall_forall in F1, F2.
    assert (E : a = a').
    { assert (I1 : In a' (a :: l)) by (eapply Permutation_in; [apply Permutation_sym; exact P | left; reflexivity]).
      assert (I2 : In a (a' :: l'')) by (eapply Permutation_in; [exact P | left; reflexivity]).
      destruct I1 as [E|I1]; [exact E|]. destruct I2 as [E|I2]; [congruence|].
      apply Has; [left; reflexivity | right; exact I1 | apply F1; exact I1 | apply F2; exact I2]. }
    subst a'. f_equal. apply IH; [| eapply Permutation_cons_inv; exact P | exact S1 | exact S2].
    intros x y Hx Hy. apply Has; right; assumption.
Qed.

Lemma SS_impl_in {A} (R R' : A -> A -> Prop) l :
  (forall a b, In a l -> In b l -> R a b -> R' a b) -> StronglySorted R l -> StronglySorted R' l.
Proof.
  induction l as [|a l IH]; intros H S; [constructor|].
  apply StronglySorted_inv in S as [S F]. constructor.
  - apply IH; [|exact S]. intros x y Hx Hy. apply H; right; assumption.
  - rewrite Forall_forall in *. intros x Hx. apply H; [left; reflexivity | right; exact Hx | apply F; exact Hx].
Qed.

Lemma SS_app {A} (R : A -> A -> Prop) l1 l2 :
  StronglySorted R l1 -> StronglySorted R l2 -> (forall a b, In a l1 -> In b l2 -> R a b) ->
  StronglySorted R (l1 ++ l2).
Proof.
  induction l1 as [|a l1 IH]; intros S1 S2 H; [exact S2|].
  apply StronglySorted_inv in S1 as [S1 F1]. cbn [app]. constructor.
  - apply IH; [exact S1 | exact S2 |]. intros x y Hx Hy. apply H; [right; exact Hx | exact Hy].
  - rewrite Forall_forall in *. intros x Hx. apply in_app_or in Hx as [Hx|Hx]; [apply F1; exact Hx|].
    apply H; [left; reflexivity | exact Hx].
Qed.

Lemma SS_rev {A} (R : A -> A -> Prop) l : StronglySorted R l -> StronglySorted (fun a b => R b a) (rev l).
Proof.
  induction l as [|a l IH]; intro S; [constructor|].
  apply StronglySorted_inv in S as [S F]. cbn [rev]. apply SS_app; [apply IH; exact S | repeat constructor |].
  intros x y Hx Hy. destruct Hy as [<-|[]]. rewrite Forall_forall in F. apply F. apply in_rev. exact Hx.
Qed.

Lemma ranking_in e r i : is_ranking e r -> In i r -> i < length e.
Proof. intros [P _] Hi. eapply Permutation_in in Hi; [|exact P]. apply in_seq in Hi. lia. Qed.

Lemma ranking_length e r : is_ranking e r -> length r = length e.
Proof. intros [P _]. apply Permutation_length in P. rewrite seq_length in P. exact P. Qed.

Lemma ranking_nodup e r : is_ranking e r -> NoDup r.
Proof. intros [P _]. apply (Permutation_NoDup (Permutation_sym P)). apply seq_NoDup. Qed.

Lemma ranking_covers e r i : is_ranking e r -> i < length e -> In i r.
Proof. intros [P _] Hi. eapply Permutation_in; [apply Permutation_sym; exact P|]. apply in_seq. lia. Qed.

(* on pairwise distinct values the sorting permutation is unique: tie-breaking is the only freedom of argsort *)
Theorem ranking_unique e r r' : NoDup e -> is_ranking e r -> is_ranking e r' -> r = r'.
Proof.
  intros Hnd Hr Hr'. apply (SS_unique (by_value_desc e)).
  - intros a b Ha Hb H1 H2. unfold by_value_desc in *.
    apply (proj1 (NoDup_nth e 0%Qc) Hnd); [apply (ranking_in e r); assumption | apply (ranking_in e r); assumption|].
    apply Qcle_antisym; assumption.
  - destruct Hr as [P _], Hr' as [P' _]. eapply Permutation_trans; [exact P | apply Permutation_sym; exact P'].
  - apply Hr.
  - apply Hr'.
Qed.

(* a weakly increasing transformation keeps every ranking a ranking *)
Lemma ranking_monotone (g : Qc -> Qc) e r : (forall a b, (a <= b)%Qc -> (g a <= g b)%Qc) ->
  is_ranking e r -> is_ranking (map g e) r.
Proof.
  intros Hg Hr. split; [rewrite map_length; apply Hr|].
  apply (SS_impl_in (by_value_desc e)); [|apply Hr].
  intros a b Ha Hb H. unfold by_value_desc in *.
  rewrite !(nthq_map g e 0%Qc) by (apply (ranking_in e r); assumption). apply Hg. exact H.
Qed.

(* negating the values reverses every ranking *)
Lemma ranking_opp e r : is_ranking e r -> is_ranking (map Qcopp e) (rev r).
Proof.
  intro Hr. split.
  - rewrite map_length. eapply Permutation_trans; [apply Permutation_sym, Permutation_rev | apply Hr].
  - apply (SS_impl_in (fun a b => by_value_desc e b a)); [|apply SS_rev; apply Hr].
    intros a b Ha Hb H. unfold by_value_desc in *. apply in_rev in Ha. apply in_rev in Hb.
    rewrite !(nthq_map Qcopp e 0%Qc) by (apply (ranking_in e r); assumption).
    apply Qcopp_le_compat. exact H.
Qed.

Definition strictly_increasing (g : Qc -> Qc) : Prop := forall a b, (a < b)%Qc -> (g a < g b)%Qc.

Lemma strict_inj g : strictly_increasing g -> Injective g.
Proof. intros Hg a b E. destruct (Qc_dec a b) as [[L|L]|L]; [| |exact L];
  apply Hg in L; rewrite E in L; exfalso; exact (Qclt_not_eq _ _ L eq_refl). Qed.

Lemma strict_mono g : strictly_increasing g -> forall a b, (a <= b)%Qc -> (g a <= g b)%Qc.
Proof. intros Hg a b H. apply Qcle_lt_or_eq in H as [H| ->]; [apply Qclt_le_weak, Hg, H | apply Qcle_refl]. Qed.

(* argsort(g(e)) = argsort(e) for strictly increasing g on pairwise distinct values, whatever the tie-breaking *)
Theorem rank_strict_invariant rank g e : rank_ok rank -> strictly_increasing g -> NoDup e ->
  rank (map g e) = rank e.
Proof.
  intros Hr Hg Hnd. apply (ranking_unique (map g e)).
  - apply Injective_map_NoDup; [apply strict_inj; exact Hg | exact Hnd].
  - apply Hr.
  - apply ranking_monotone; [apply strict_mono; exact Hg | apply Hr].
Qed.

(* argsort(-e) = reverse of argsort(e) on pairwise distinct values *)
Theorem rank_opp rank e : rank_ok rank -> NoDup e -> rank (map Qcopp e) = rev (rank e).
Proof.
  intros Hr Hnd. apply (ranking_unique (map Qcopp e)).
  - apply Injective_map_NoDup; [|exact Hnd]. intros a b E.
    rewrite <- (Qcopp_involutive a), <- (Qcopp_involutive b), E. reflexivity.
  - apply Hr.
  - apply ranking_opp. apply Hr.
Qed.

(* ================================================================ channel mean of the explanations *)
Lemma chan_mean_spec c F e : 1 <= c -> length e = F * c -> chan_mean c e = map (feature_value c e) (seq 0 F).
Proof. intros Hc He. unfold chan_mean. rewrite (chunks_as_seq c F e 0%Qc) by assumption.
  rewrite map_map. reflexivity. Qed.

Definition expl_ok (c : cfg) (es : list (list Qc)) : Prop :=
  Forall (fun e => length e = cF c * match cEC c with Some ec => ec | None => 1 end) es.

Lemma ranking_of_spec rank c es : cfg_ok c -> expl_ok c es ->
  ranking_of rank c es = map rank (map (feature_values (cEC c) (cF c)) es).
Proof.
  intros [_ [_ Hec]] He. unfold ranking_of, feature_values, expl_ok in *. f_equal.
  destruct (cEC c) as [ec|]; [|symmetry; apply map_id].
  apply map_ext_in. intros e Hin. rewrite Forall_forall in He. apply chan_mean_spec; [exact Hec | apply He; exact Hin].
Qed.

Lemma feature_values_length c F e : length e = F * match c with Some ec => ec | None => 1 end ->
  length (feature_values c F e) = F.
Proof. destruct c; cbn [feature_values]; intro H; [rewrite map_length, seq_length; reflexivity | lia]. Qed.

(* ================================================================ end points *)
Lemma move_nil C x b : move C x b [] = x.
Proof. unfold move. cbn [memb existsb]. symmetry. apply (list_as_seq x 0%Qc). Qed.

Lemma move_all C F x b ids : 1 <= C -> length x = F * C -> length b = F * C -> (forall f, f < F -> In f ids) ->
  move C x b ids = b.
Proof.
  intros HC Hx Hb Hall. unfold move.
  transitivity (map (fun i => nth i b 0%Qc) (seq 0 (length b))); [|symmetry; apply list_as_seq]. rewrite Hx, Hb.
  apply map_ext_in. intros k Hk. apply in_seq in Hk.
  assert (Hf : k / C < F) by (apply Nat.div_lt_upper_bound; lia).
  apply Hall, memb_In in Hf. rewrite Hf. reflexivity.
Qed.

Lemma map4_ext_in3 {A B C D E} (f g : A -> B -> C -> D -> E) a b c d :
  (forall x y z w, In x a -> In y b -> In z c -> f x y z w = g x y z w) -> map4 f a b c d = map4 g a b c d.
Proof. revert b c d; induction a as [|x a IH]; intros [|y b] [|z c] [|w d] H; cbn [map4]; try reflexivity.
  f_equal; [apply H; left; reflexivity | apply IH; intros; apply H; right; assumption]. Qed.

Lemma map4_map3 {A B C C' D E} (f : A -> B -> C' -> D -> E) (g : C -> C') a b c d :
  map4 f a b (map g c) d = map4 (fun x y z w => f x y (g z) w) a b c d.
Proof. revert b c d; induction a as [|x a IH]; intros [|y b] [|z c] [|w d]; cbn [map map4]; try reflexivity.
  f_equal. apply IH. Qed.

Section Curve.
Variable score : list Qc -> list Qc -> Qc.

(* the input a sample starts from / ends at *)
Definition start_input {A} (md : cmode) (x b : A) : A := match md with Deletion => x | Insertion => b end.
Definition end_input {A} (md : cmode) (x b : A) : A := match md with Deletion => b | Insertion => x end.

(* step 0: nothing moved — the originals (Deletion) / the baselines (Insertion) *)
Theorem curve_start md C xs bl rs ts :
  curve score md C xs bl rs ts 0 = qmean (map4 (fun x b _ t => score (start_input md x b) t) xs bl rs ts).
Proof. unfold curve. f_equal. apply map4_ext_in. intros x b r t _ _.
  destruct md; cbn [point firstn start_input]; rewrite move_nil; reflexivity. Qed.

(* every feature moved: the baselines (Deletion) / the originals (Insertion) *)
Theorem curve_end md C F xs bl rs ts k : 1 <= C -> F <= k ->
  Forall (fun x => length x = F * C) xs -> Forall (fun b => length b = F * C) bl ->
  Forall (fun r => Permutation r (seq 0 F)) rs ->
  curve score md C xs bl rs ts k = qmean (map4 (fun x b _ t => score (end_input md x b) t) xs bl rs ts).
Proof.
  intros HC Hk Hxs Hbl Hrs. unfold curve. f_equal. apply map4_ext_in3. intros x b r t Hx Hb Hr.
  rewrite Forall_forall in Hxs, Hbl, Hrs. specialize (Hxs x Hx). specialize (Hbl b Hb). specialize (Hrs r Hr).
  assert (Hl : length r = F) by (apply Permutation_length in Hrs; rewrite seq_length in Hrs; exact Hrs).
  assert (Hall : forall f, f < F -> In f (firstn k r)).
  { intros f Hf. rewrite firstn_all2 by lia. eapply Permutation_in; [apply Permutation_sym; exact Hrs|].
    apply in_seq. lia. }
  destruct md; cbn [point end_input]; rewrite (move_all C F) by assumption; reflexivity.
Qed.

(* ================================================================ duality *)
Lemma nodup_app_disj {A} (l1 l2 : list A) a : NoDup (l1 ++ l2) -> In a l1 -> ~ In a l2.
Proof. induction l1 as [|x l1 IH]; intros H H1 H2; [destruct H1|]. cbn [app] in H.
  apply NoDup_cons_iff in H as [Hx H]. destruct H1 as [->|H1]; [|exact (IH H H1 H2)].
  apply Hx. apply in_or_app. right; exact H2. Qed.

Lemma firstn_rev_skipn {A} (r : list A) j : firstn (length r - j) (rev r) = rev (skipn j r).
Proof.
  rewrite <- (firstn_skipn j r) at 2. rewrite rev_app_distr.
  rewrite <- (skipn_length j r), <- (rev_length (skipn j r)).
  rewrite firstn_app, firstn_all, Nat.sub_diag. cbn [firstn]. apply app_nil_r.
Qed.

Lemma memb_complement F r j f : Permutation r (seq 0 F) -> f < F ->
  memb f (firstn (F - j) (rev r)) = negb (memb f (firstn j r)).
Proof.
  intros P Hf.
  assert (Hl : length r = F) by (apply Permutation_length in P; rewrite seq_length in P; exact P).
  assert (Hnd : NoDup r) by (apply (Permutation_NoDup (Permutation_sym P)); apply seq_NoDup).
  assert (Hin : In f r) by (eapply Permutation_in; [apply Permutation_sym; exact P | apply in_seq; lia]).
  rewrite <- Hl, firstn_rev_skipn. rewrite <- (firstn_skipn j r) in Hnd, Hin.
  destruct (memb f (firstn j r)) eqn:E1; destruct (memb f (rev (skipn j r))) eqn:E2; cbn [negb]; try reflexivity; exfalso.
  - apply memb_In in E1. apply memb_In in E2. apply in_rev in E2. exact (nodup_app_disj _ _ _ Hnd E1 E2).
  - apply memb_false in E1. apply memb_false in E2. apply in_app_or in Hin as [H|H]; [exact (E1 H)|].
    apply E2. apply in_rev in H. exact H.
Qed.

Lemma move_dual C F x b r j : 1 <= C -> length x = F * C -> length b = F * C -> Permutation r (seq 0 F) ->
  move C b x (firstn j r) = move C x b (firstn (F - j) (rev r)).
Proof.
  intros HC Hx Hb P. unfold move. rewrite Hx, Hb. apply map_ext_in. intros k Hk. apply in_seq in Hk.
  assert (Hf : k / C < F) by (apply Nat.div_lt_upper_bound; lia).
  rewrite (memb_complement F r j (k / C) P Hf). destruct (memb (k / C) (firstn j r)); reflexivity.
Qed.

(* as functions of the number of moved features: Insertion along r at j = Deletion along reversed r at F - j *)
Theorem curve_duality C F xs bl rs ts j : 1 <= C ->
  Forall (fun x => length x = F * C) xs -> Forall (fun b => length b = F * C) bl ->
  Forall (fun r => Permutation r (seq 0 F)) rs ->
  curve score Insertion C xs bl rs ts j = curve score Deletion C xs bl (map (@rev nat) rs) ts (F - j).
Proof.
  intros HC Hxs Hbl Hrs. unfold curve. f_equal. rewrite map4_map3. apply map4_ext_in3. intros x b r t Hx Hb Hr.
  rewrite Forall_forall in Hxs, Hbl, Hrs. cbn [point]. rewrite (move_dual C F) by auto. reflexivity.
Qed.
End Curve.

(* ================================================================ max_nb *)
Lemma max_nb_full F : max_nb F 1%Qc = F.
Proof.
  unfold max_nb. rewrite Qcmult_1_r. unfold qn.
  rewrite (Qfloor_comp _ (inject_Z (Z.of_nat F))) by apply Qc_Q2Qc_q.
  rewrite Qfloor_Z. apply Nat2Z.id.
Qed.

Lemma max_nb_floor F pct : (0 <= pct)%Qc ->
  (qn (max_nb F pct) <= qn F * pct)%Qc /\ (qn F * pct < qn (max_nb F pct) + 1)%Qc.
Proof.
  intro Hp. unfold max_nb. set (x := (qn F * pct)%Qc).
  assert (Hx : (0 <= this x)%Q).
  { unfold x. rewrite Qc_mult_q. apply Qmult_le_0_compat; [|exact Hp].
    unfold qn. rewrite Qc_Q2Qc_q. unfold Qle. cbn. lia. }
  assert (Hf : (0 <= Qfloor (this x))%Z).
  { change 0%Z with (Qfloor 0). apply Qfloor_resp_le. exact Hx. }
  assert (E : (this (qn (Z.to_nat (Qfloor (this x)))) == inject_Z (Qfloor (this x)))%Q).
  { unfold qn. rewrite Qc_Q2Qc_q, Z2Nat.id by exact Hf. reflexivity. }
  split.
  - change (this (qn (Z.to_nat (Qfloor (this x)))) <= this x)%Q. rewrite E. apply Qfloor_le.
  - change (this x < this (qn (Z.to_nat (Qfloor (this x))) + 1)%Qc)%Q. rewrite Qc_plus_q, E.
    pose proof (Qlt_floor (this x)) as L. rewrite inject_Z_plus in L. exact L.
Qed.

Lemma eff_steps_pos c : steps_ok c -> 1 <= eff_steps (cSteps c) (max_nb (cF c) (cPct c)).
Proof.
  unfold steps_ok, eff_steps. intros [[E H]|H].
  - rewrite E. cbn [Z.eqb]. exact H.
  - replace (cSteps c =? -1)%Z with false by (symmetry; apply Z.eqb_neq; lia). lia.
Qed.

(* ================================================================ the steps of a configuration *)
Lemma distinct_steps_shape m St : 1 <= St ->
  exists mid, distinct_steps (linspace_int m St) = 0 :: mid /\ last (0 :: mid) 0 = m.
Proof.
  intro HS. destruct (le_lt_dec St m) as [L|L].
  - rewrite distinct_linspace_small by assumption.
    pose proof (linspace_last m St HS) as E. pose proof (linspace_first m St) as E0.
    destruct (linspace_int m St) as [|a mid] eqn:El.
    + apply (f_equal (@length nat)) in El. rewrite linspace_length in El. cbn [length] in El. lia.
    + cbn [hd] in E0. subst a. exists mid. split; [reflexivity | exact E].
  - rewrite distinct_linspace_big by lia. exists (seq 1 m). split.
    + replace (m + 1) with (S m) by lia. reflexivity.
    + change (0 :: seq 1 m) with (seq 0 (S m)). rewrite seq_S. apply last_last.
Qed.

Lemma last_map_cons {A B} (f : A -> B) a l d d' : last (map f (a :: l)) d' = f (last (a :: l) d).
Proof. revert a; induction l as [|b l IH]; intro a; [reflexivity|].
  change (last (map f (a :: b :: l)) d') with (last (map f (b :: l)) d').
  change (last (a :: b :: l) d) with (last (b :: l) d). apply IH. Qed.

Theorem steps_spaced_all c : steps_ok c ->
  let m := max_nb (cF c) (cPct c) in
  let S := eff_steps (cSteps c) m in
  1 <= S /\ length (steps_of c) = S + 1 /\
  (forall j, j <= S -> nth j (steps_of c) 0 = j * m / S /\
                       S * nth j (steps_of c) 0 <= j * m < S * (nth j (steps_of c) 0 + 1)) /\
  hd 0 (steps_of c) = 0 /\ last (steps_of c) 0 = m /\
  (NoDup (steps_of c) <-> S <= m) /\
  (S <= m -> distinct_steps (steps_of c) = steps_of c) /\
  (m <= S -> distinct_steps (steps_of c) = seq 0 (m + 1)).
Proof.
  intros Hs m S. pose proof (eff_steps_pos c Hs) as HS. fold m in HS. fold S in HS.
  unfold steps_of. fold m. fold S. repeat split.
  - exact HS.
  - apply linspace_length.
  - apply linspace_nth; assumption.
  - rewrite linspace_nth by assumption. apply linspace_floor; exact HS.
  - rewrite linspace_nth by assumption. apply linspace_floor; exact HS.
  - apply linspace_first.
  - apply linspace_last; exact HS.
  - apply linspace_nodup_iff; exact HS.
  - apply linspace_nodup_iff; exact HS.
  - intro; apply distinct_linspace_small; assumption.
  - intro; apply distinct_linspace_big; assumption.
Qed.

(* ================================================================ top-level statements *)
Definition set_mode (md : cmode) (c : cfg) : cfg :=
  {| cF := cF c; cC := cC c; cEC := cEC c; cSteps := cSteps c; cPct := cPct c; cMode := md |}.

Definition spec_rankings (rank : list Qc -> list nat) (c : cfg) (es : list (list Qc)) : list (list nat) :=
  map rank (map (feature_values (cEC c) (cF c)) es).

Section Top.
Variable score : list Qc -> list Qc -> Qc.
Variable rank : list Qc -> list nat.

Theorem causal_curve_correct c bs bm xs ts es :
  cfg_ok c -> bs_ok bs -> sizes_ok c xs (baselines_of bm xs) -> expl_ok c es ->
  detailed_evaluate score rank c bs bm xs ts es
  = map (fun k => (k, curve score (cMode c) (cC c) xs (baselines_of bm xs) (spec_rankings rank c es) ts k))
        (distinct_steps (steps_of c)).
Proof.
  intros Hc Hbs Hsz He. rewrite detailed_correct; [| apply Hc | exact Hbs | exact Hsz].
  rewrite ranking_of_spec by assumption. reflexivity.
Qed.

(* only the ranking matters *)
Theorem same_ranking_same_result c bs bm xs ts es es' :
  ranking_of rank c es = ranking_of rank c es' ->
  detailed_evaluate score rank c bs bm xs ts es = detailed_evaluate score rank c bs bm xs ts es' /\
  evaluate score rank c bs bm xs ts es = evaluate score rank c bs bm xs ts es'.
Proof. intro H. unfold evaluate, detailed_evaluate. rewrite H. split; reflexivity. Qed.

Theorem ranking_only g c bs bm xs ts es :
  rank_ok rank -> strictly_increasing g -> cEC c = None -> Forall (@NoDup Qc) es ->
  detailed_evaluate score rank c bs bm xs ts (map (map g) es) = detailed_evaluate score rank c bs bm xs ts es /\
  evaluate score rank c bs bm xs ts (map (map g) es) = evaluate score rank c bs bm xs ts es.
Proof.
  intros Hr Hg Hec Hnd. apply same_ranking_same_result. unfold ranking_of. rewrite Hec.
  rewrite map_map. apply map_ext_in. intros e He. rewrite Forall_forall in Hnd.
  apply rank_strict_invariant; auto.
Qed.

Lemma spec_rankings_perm c es : rank_ok rank -> expl_ok c es ->
  Forall (fun r => Permutation r (seq 0 (cF c))) (spec_rankings rank c es).
Proof.
  intros Hr He. unfold spec_rankings. rewrite map_map. apply Forall_forall. intros r Hin.
  apply in_map_iff in Hin as [e [<- Hin]]. unfold expl_ok in He. rewrite Forall_forall in He.
  destruct (Hr (feature_values (cEC c) (cF c) e)) as [P _].
  rewrite feature_values_length in P by (apply He; exact Hin). exact P.
Qed.

Lemma map4_proj1 {A B C D E} (f : A -> D -> E) (a : list A) (b : list B) (c : list C) (d : list D) :
  length b = length a -> length c = length a ->
  map4 (fun x _ _ t => f x t) a b c d = map2 f a d.
Proof. revert b c d; induction a as [|x a IH]; intros [|y b] [|z c] [|w d] H1 H2; cbn [length] in *; try lia; try reflexivity.
  cbn [map4 map2]. f_equal. apply IH; lia. Qed.

Lemma map4_proj2 {A B C D E} (f : B -> D -> E) (a : list A) (b : list B) (c : list C) (d : list D) :
  length b = length a -> length c = length a ->
  map4 (fun _ y _ t => f y t) a b c d = map2 f b d.
Proof. revert b c d; induction a as [|x a IH]; intros [|y b] [|z c] [|w d] H1 H2; cbn [length] in *; try lia; try reflexivity.
  cbn [map4 map2]. f_equal. apply IH; lia. Qed.

(* the first entry is (0, mean score of the originals / of the baselines),
   the last entry is (max_nb, .) and, when max_nb = nb_features, the mean score of the baselines / originals *)
Theorem endpoints c bs bm xs ts es :
  cfg_ok c -> bs_ok bs -> sizes_ok c xs (baselines_of bm xs) -> expl_ok c es -> rank_ok rank ->
  length (baselines_of bm xs) = length xs -> length es = length xs ->
  let d := detailed_evaluate score rank c bs bm xs ts es in
  let m := max_nb (cF c) (cPct c) in
  nth 0 d (0, 0%Qc) = (0, qmean (map2 score (start_input (cMode c) xs (baselines_of bm xs)) ts)) /\
  fst (last d (0, 0%Qc)) = m /\
  (m = cF c -> snd (last d (0, 0%Qc)) = qmean (map2 score (end_input (cMode c) xs (baselines_of bm xs)) ts)).
Proof.
  intros Hc Hbs Hsz He Hr Lb Le d m. unfold d. rewrite causal_curve_correct by assumption.
  destruct Hc as [HC [Hs Hec]]. pose proof (eff_steps_pos c Hs) as HS.
  unfold steps_of. fold m. fold m in HS.
  destruct (distinct_steps_shape m _ HS) as [mid [-> Hl]].
  set (rs := spec_rankings rank c es).
  assert (Lr : length rs = length xs) by (unfold rs, spec_rankings; rewrite !map_length; exact Le).
  set (v := fun k => (k, curve score (cMode c) (cC c) xs (baselines_of bm xs) rs ts k)).
  rewrite (last_map_cons v 0 mid 0), Hl. cbn [map nth]. unfold v. cbn [fst snd].
  split; [|split; [reflexivity|]].
  - f_equal. rewrite curve_start. f_equal.
    destruct (cMode c); cbn [start_input]; [apply map4_proj1 | apply map4_proj2]; assumption.
  - intro Em. destruct Hsz as [Hxs Hbl].
    rewrite (curve_end score (cMode c) (cC c) (cF c)); try assumption; [| lia | apply spec_rankings_perm; assumption].
    f_equal. destruct (cMode c); cbn [end_input]; [apply map4_proj2 | apply map4_proj1]; assumption.
Qed.
End Top.

(* ================================================================ duality, top level *)
Lemma nthq_map_opp e k : nthq (map Qcopp e) k = (- nthq e k)%Qc.
Proof. unfold nthq. change 0%Qc with (Qcopp 0%Qc) at 1. apply map_nth. Qed.

Lemma qsum_map_opp {A} (f : A -> Qc) l : qsum (map (fun x => (- f x)%Qc) l) = (- qsum (map f l))%Qc.
Proof. induction l as [|a l IH]; cbn [map qsum]; [ring | rewrite IH; ring]. Qed.

Lemma feature_values_opp ec F e :
  feature_values ec F (map Qcopp e) = map Qcopp (feature_values ec F e).
Proof.
  destruct ec as [c|]; cbn [feature_values]; [|reflexivity]. rewrite map_map. apply map_ext. intro f.
  unfold feature_value. rewrite (map_ext _ (fun j => (- nthq e (f * c + j))%Qc)) by (intro; apply nthq_map_opp).
  rewrite qsum_map_opp. unfold Qcdiv. ring.
Qed.

Definition values_distinct (c : cfg) (es : list (list Qc)) : Prop :=
  Forall (fun e => NoDup (feature_values (cEC c) (cF c) e)) es.

Lemma expl_ok_opp c es : expl_ok c es -> expl_ok c (map (map Qcopp) es).
Proof. unfold expl_ok. intro H. apply Forall_forall. intros e Hin. apply in_map_iff in Hin as [e' [<- Hin]].
  rewrite map_length. rewrite Forall_forall in H. apply H; exact Hin. Qed.

Section Duality.
Variable score : list Qc -> list Qc -> Qc.
Variable rank : list Qc -> list nat.

Lemma spec_rankings_opp c es : rank_ok rank -> values_distinct c es ->
  spec_rankings rank c (map (map Qcopp) es) = map (@rev nat) (spec_rankings rank c es).
Proof.
  intros Hr Hd. unfold spec_rankings. rewrite !map_map. apply map_ext_in. intros e Hin.
  unfold values_distinct in Hd. rewrite Forall_forall in Hd.
  rewrite feature_values_opp. apply rank_opp; [exact Hr | apply Hd; exact Hin].
Qed.

(* Insertion(e) after restoring j features = Deletion(-e) after deleting F - j features, for every j *)
Theorem insertion_deletion_duality c bm xs ts es j :
  cfg_ok c -> sizes_ok c xs (baselines_of bm xs) -> expl_ok c es -> rank_ok rank -> values_distinct c es ->
  curve score Insertion (cC c) xs (baselines_of bm xs) (spec_rankings rank c es) ts j
  = curve score Deletion (cC c) xs (baselines_of bm xs) (spec_rankings rank c (map (map Qcopp) es)) ts (cF c - j).
Proof.
  intros [HC _] [Hxs Hbl] He Hr Hd. rewrite spec_rankings_opp by assumption.
  apply curve_duality; try assumption. apply spec_rankings_perm; assumption.
Qed.

Lemma rev_map_seq {A} (f : nat -> A) n : rev (map f (seq 0 (n + 1))) = map (fun k => f (n - k)) (seq 0 (n + 1)).
Proof.
  induction n as [|n IH]; [reflexivity|].
  replace (S n + 1) with (S (n + 1)) by lia. rewrite seq_S at 1. rewrite map_app, rev_app_distr.
  cbn [plus map rev app]. rewrite IH. cbn [seq map]. f_equal; [try (f_equal; lia)|].
  rewrite <- !seq_shift, !map_map. apply map_ext_in. intros k Hk. apply in_seq in Hk. reflexivity.
Qed.

(* on the step grid, when it visits every count 0..F (max_nb = F and steps = -1 or steps >= F):
   the Insertion curve of e is the Deletion curve of -e read backwards, and the two metrics coincide *)
Theorem duality_on_grid c bs bm xs ts es :
  cfg_ok c -> bs_ok bs -> sizes_ok c xs (baselines_of bm xs) -> expl_ok c es -> rank_ok rank -> values_distinct c es ->
  max_nb (cF c) (cPct c) = cF c -> cF c <= eff_steps (cSteps c) (cF c) ->
  let dI := detailed_evaluate score rank (set_mode Insertion c) bs bm xs ts es in
  let dD := detailed_evaluate score rank (set_mode Deletion c) bs bm xs ts (map (map Qcopp) es) in
  map fst dI = seq 0 (cF c + 1) /\ map fst dD = seq 0 (cF c + 1) /\
  map snd dI = rev (map snd dD) /\
  evaluate score rank (set_mode Insertion c) bs bm xs ts es
  = evaluate score rank (set_mode Deletion c) bs bm xs ts (map (map Qcopp) es).
Proof.
  intros Hc Hbs Hsz He Hr Hd Hm HS dI dD.
  assert (HcI : cfg_ok (set_mode Insertion c)) by exact Hc.
  assert (HcD : cfg_ok (set_mode Deletion c)) by exact Hc.
  assert (EI : dI = map (fun k => (k, curve score Insertion (cC c) xs (baselines_of bm xs) (spec_rankings rank c es) ts k))
                        (seq 0 (cF c + 1))).
  { unfold dI. rewrite causal_curve_correct; try assumption.
    unfold steps_of. cbn [set_mode cF cPct cSteps cMode cC]. rewrite Hm.
    rewrite distinct_linspace_big; [reflexivity | | exact HS].
    destruct Hc as [_ [Hs _]]. apply eff_steps_pos in Hs. rewrite Hm in Hs. exact Hs. }
  assert (ED : dD = map (fun k => (k, curve score Deletion (cC c) xs (baselines_of bm xs)
                                         (spec_rankings rank c (map (map Qcopp) es)) ts k)) (seq 0 (cF c + 1))).
  { unfold dD. rewrite causal_curve_correct; try assumption; [| apply expl_ok_opp; exact He].
    unfold steps_of. cbn [set_mode cF cPct cSteps cMode cC]. rewrite Hm.
    rewrite distinct_linspace_big; [reflexivity | | exact HS].
    destruct Hc as [_ [Hs _]]. apply eff_steps_pos in Hs. rewrite Hm in Hs. exact Hs. }
  assert (Esnd : map snd dI = rev (map snd dD)).
  { rewrite EI, ED, !map_map. cbn [snd]. rewrite rev_map_seq. apply map_ext_in. intros k Hk.
    apply insertion_deletion_duality; assumption. }
  split; [rewrite EI, map_map; cbn [fst]; apply map_id|].
  split; [rewrite ED, map_map; cbn [fst]; apply map_id|].
  split; [exact Esnd|].
  unfold evaluate. fold dI. fold dD. rewrite Esnd. apply auc_rev.
Qed.
End Duality.

(* ######## part 3 ######## *)
(* ================================================================ batch invariance, packaged *)
Theorem causal_batch_invariant (score : list Qc -> list Qc -> Qc) (rank : list Qc -> list nat) c bs bs' bm xs ts es :
  1 <= cC c -> bs_ok bs -> bs_ok bs' -> sizes_ok c xs (baselines_of bm xs) ->
  detailed_evaluate score rank c bs bm xs ts es = detailed_evaluate score rank c bs' bm xs ts es /\
  evaluate score rank c bs bm xs ts es = evaluate score rank c bs' bm xs ts es.
Proof. intros. split; [apply detailed_batch_invariant | apply evaluate_batch_invariant]; assumption. Qed.

(* ================================================================ the concrete argsort meets the contract *)
Definition pair_desc (p1 p2 : nat * Qc) : Prop := (snd p2 <= snd p1)%Qc.

Lemma ins_desc_perm p l : Permutation (ins_desc p l) (p :: l).
Proof. induction l as [|p' l IH]; cbn [ins_desc]; [apply Permutation_refl|].
  destruct (Qcltb (snd p') (snd p)); [apply Permutation_refl|].
  eapply Permutation_trans; [apply perm_skip; exact IH | apply perm_swap]. Qed.

Lemma ins_desc_sorted p l : StronglySorted pair_desc l -> StronglySorted pair_desc (ins_desc p l).
Proof.
  induction l as [|p' l IH]; intro S; cbn [ins_desc]; [repeat constructor|].
  pose proof S as S0. apply StronglySorted_inv in S as [S F]. rewrite Forall_forall in F.
  destruct (Qcltb (snd p') (snd p)) eqn:E.
  - apply Qcltb_lt in E. constructor; [exact S0|]. apply Forall_forall. intros x [<-|Hx].
    + unfold pair_desc. apply Qclt_le_weak. exact E.
    + unfold pair_desc in *. eapply Qcle_trans; [apply F; exact Hx | apply Qclt_le_weak; exact E].
  - assert (L : (snd p <= snd p')%Qc).
    { destruct (Qclt_le_dec (snd p') (snd p)) as [H|H]; [|exact H]. apply Qcltb_lt in H. congruence. }
    constructor; [apply IH; exact S|]. apply Forall_forall. intros x Hx.
    eapply Permutation_in in Hx; [|apply ins_desc_perm]. destruct Hx as [<-|Hx]; [exact L | apply F; exact Hx].
Qed.

Lemma fold_ins_perm l acc : Permutation (fold_left (fun a p => ins_desc p a) l acc) (l ++ acc).
Proof. revert acc; induction l as [|p l IH]; intro acc; cbn [fold_left app]; [apply Permutation_refl|].
  eapply Permutation_trans; [apply IH|]. eapply Permutation_trans; [apply Permutation_app_head, ins_desc_perm|].
  apply Permutation_sym, Permutation_middle. Qed.

Lemma fold_ins_sorted l acc : StronglySorted pair_desc acc ->
  StronglySorted pair_desc (fold_left (fun a p => ins_desc p a) l acc).
Proof. revert acc; induction l as [|p l IH]; intros acc S; cbn [fold_left]; [exact S|].
  apply IH, ins_desc_sorted, S. Qed.

Lemma map_fst_combine {A B} (l1 : list A) (l2 : list B) : length l1 = length l2 -> map fst (combine l1 l2) = l1.
Proof. revert l2; induction l1 as [|a l1 IH]; intros [|b l2] H; cbn [length] in *; try lia; [reflexivity|].
  cbn [combine map fst]. f_equal. apply IH. lia. Qed.

Lemma in_combine_seq_nth e i v : In (i, v) (combine (seq 0 (length e)) e) -> v = nthq e i.
Proof.
  intro H. apply (In_nth _ _ (0, 0%Qc)) in H as [k [Hk E]].
  rewrite combine_length, seq_length, Nat.min_id in Hk.
  rewrite combine_nth in E by (rewrite seq_length; reflexivity).
  rewrite seq_nth in E by exact Hk. cbn [plus] in E. injection E as <- <-. reflexivity.
Qed.

Theorem rank_insertion_ok : rank_ok rank_insertion.
Proof.
  intro e. unfold rank_insertion.
  set (res := fold_left (fun a p => ins_desc p a) (combine (seq 0 (length e)) e) []).
  assert (P : Permutation res (combine (seq 0 (length e)) e)).
  { unfold res. eapply Permutation_trans; [apply fold_ins_perm|]. rewrite app_nil_r. apply Permutation_refl. }
  assert (S : StronglySorted pair_desc res) by (apply fold_ins_sorted; constructor).
  split.
  - rewrite <- (map_fst_combine (seq 0 (length e)) e) at 1 by (rewrite seq_length; reflexivity).
    apply Permutation_map. exact P.
  - assert (Hv : forall p, In p res -> snd p = nthq e (fst p)).
    { intros [i v] Hp. eapply Permutation_in in Hp; [|exact P]. apply in_combine_seq_nth in Hp. exact Hp. }
    clear P. induction S as [|p l S IH F]; cbn [map]; constructor.
    + apply IH. intros; apply Hv; right; assumption.
    + rewrite Forall_forall in *. intros j Hj. apply in_map_iff in Hj as [p' [<- Hp']].
      unfold by_value_desc. rewrite <- (Hv p) by (left; reflexivity). rewrite <- (Hv p') by (right; exact Hp').
      apply F. exact Hp'.
Qed.

(* ================================================================ the k top-ranked features carry the largest sum *)
Open Scope Qc_scope.

Lemma qsum_perm {A} (f : A -> Qc) l l' : Permutation l l' -> qsum (map f l) = qsum (map f l').
Proof. induction 1; cbn [map qsum]; [reflexivity | rewrite IHPermutation; reflexivity | ring | congruence]. Qed.

Lemma qsum_filter_split {A} (f : A -> Qc) (p : A -> bool) l :
  qsum (map f l) = qsum (map f (filter p l)) + qsum (map f (filter (fun x => negb (p x)) l)).
Proof. induction l as [|a l IH]; cbn [map filter qsum]; [ring|].
  destruct (p a); cbn [negb map qsum]; rewrite IH; ring. Qed.

Lemma filter_split_length {A} (p : A -> bool) l :
  (length (filter p l) + length (filter (fun x => negb (p x)) l) = length l)%nat.
Proof. induction l as [|a l IH]; cbn [filter length]; [reflexivity|].
  destruct (p a); cbn [negb length]; lia. Qed.

Lemma qsum_dominated {A} (f : A -> Qc) l1 l2 : length l1 = length l2 ->
  (forall x y, In x l1 -> In y l2 -> f x <= f y) -> qsum (map f l1) <= qsum (map f l2).
Proof.
  revert l2; induction l1 as [|x l1 IH]; intros [|y l2] Hl H; cbn [length] in Hl; try lia; cbn [map qsum].
  - apply Qcle_refl.
  - apply Qcplus_le_compat; [apply H; left; reflexivity|].
    apply IH; [lia|]. intros; apply H; right; assumption.
Qed.

Lemma SS_app_inv {A} (R : A -> A -> Prop) l1 l2 : StronglySorted R (l1 ++ l2) ->
  forall a b, In a l1 -> In b l2 -> R a b.
Proof. induction l1 as [|x l1 IH]; intros S a b Ha Hb; [destruct Ha|]. cbn [app] in S.
  apply StronglySorted_inv in S as [S F]. destruct Ha as [<-|Ha]; [|exact (IH S a b Ha Hb)].
  rewrite Forall_forall in F. apply F. apply in_or_app. right; exact Hb. Qed.

Theorem topk_sum_optimal a r s k : is_ranking a r -> NoDup s -> (forall f, In f s -> (f < length a)%nat) ->
  length s = k -> (k <= length a)%nat ->
  qsum (map (nthq a) s) <= qsum (map (nthq a) (firstn k r)).
Proof.
  intros Hr Hnd Hlt Hlen Hk.
  set (top := firstn k r). set (rest := skipn k r).
  assert (Er : r = top ++ rest) by (symmetry; apply firstn_skipn).
  assert (Lr : length r = length a) by (apply ranking_length; exact Hr).
  assert (Ltop : length top = k) by (unfold top; rewrite firstn_length; lia).
  assert (NDr : NoDup r) by (eapply ranking_nodup; exact Hr).
  assert (NDtop : NoDup top).
  { rewrite Er in NDr. clear -NDr. induction top as [|x t IH]; [constructor|]. cbn [app] in NDr.
    apply NoDup_cons_iff in NDr as [Hx ND]. constructor; [|apply IH; exact ND].
    intro H. apply Hx. apply in_or_app. left; exact H. }
  rewrite (qsum_filter_split (nthq a) (fun f => memb f top) s).
  rewrite (qsum_filter_split (nthq a) (fun f => memb f s) top).
  assert (P : Permutation (filter (fun f => memb f top) s) (filter (fun f => memb f s) top)).
  { apply NoDup_Permutation; [apply NoDup_filter; exact Hnd | apply NoDup_filter; exact NDtop|].
    intro x. rewrite !filter_In, !memb_In. tauto. }
  rewrite (qsum_perm (nthq a) _ _ P). apply Qcplus_le_compat; [apply Qcle_refl|].
  apply qsum_dominated.
  - pose proof (filter_split_length (fun f => memb f top) s).
    pose proof (filter_split_length (fun f => memb f s) top).
    apply Permutation_length in P. lia.
  - intros x y Hx Hy. apply filter_In in Hx as [Hxs Hxt]. apply filter_In in Hy as [Hyt _].
    apply negb_true_iff, memb_false in Hxt.
    assert (Hxr : In x rest).
    { assert (In x r) by (eapply ranking_covers; [exact Hr | apply Hlt; exact Hxs]).
      rewrite Er in H. apply in_app_or in H as [H|H]; [contradiction | exact H]. }
    destruct Hr as [_ S]. rewrite Er in S. exact (SS_app_inv _ _ _ S y x Hyt Hxr).
Qed.
Close Scope Qc_scope.

(* ================================================================ additive models *)
Lemma feat_row_move C F x b A f : 1 <= C -> length x = F * C -> f < F ->
  feat_row C (move C x b A) f = if memb f A then feat_row C b f else feat_row C x f.
Proof.
  intros HC Hx Hf. unfold feat_row.
  transitivity (map (fun j => if memb f A then nthq b (f * C + j) else nthq x (f * C + j)) (seq 0 C));
    [|destruct (memb f A); reflexivity].
  apply map_ext_in. intros j Hj. apply in_seq in Hj. unfold move, nthq at 1.
  rewrite nth_map_seq by (rewrite Hx; nia).
  replace ((f * C + j) / C) with f; [reflexivity|].
  rewrite Nat.div_add_l by lia. rewrite Nat.div_small by lia. lia.
Qed.

Open Scope Qc_scope.
Lemma sum_move_split (u v : nat -> Qc) r k F : Permutation r (seq 0 F) ->
  qsum (map (fun f => if memb f (firstn k r) then u f else v f) (seq 0 F))
  = qsum (map u (firstn k r)) + qsum (map v (skipn k r)).
Proof.
  intro P. rewrite <- (qsum_perm _ _ _ P). rewrite <- (firstn_skipn k r) at 1. rewrite map_app, qsum_app.
  assert (ND : NoDup (firstn k r ++ skipn k r)).
  { rewrite firstn_skipn. apply (Permutation_NoDup (Permutation_sym P)). apply seq_NoDup. }
  f_equal; apply qsum_map_ext; intros f Hf.
  - apply memb_In in Hf. rewrite Hf. reflexivity.
  - replace (memb f (firstn k r)) with false; [reflexivity|]. symmetry. apply memb_false.
    intro H. exact (nodup_app_disj _ _ _ ND H Hf).
Qed.

Lemma qsum_map_sub {A} (f g : A -> Qc) l : qsum (map (fun x => f x - g x) l) = qsum (map f l) - qsum (map g l).
Proof. induction l as [|a l IH]; cbn [map qsum]; [ring | rewrite IH; ring]. Qed.

Lemma additive_move contrib c0 C F x b r k : (1 <= C)%nat -> length x = (F * C)%nat -> Permutation r (seq 0 F) ->
  additive_score contrib c0 C F (move C x b (firstn k r))
  = additive_score contrib c0 C F x
    - qsum (map (fun f => contrib f (feat_row C x f) - contrib f (feat_row C b f)) (firstn k r)).
Proof.
  intros HC Hx P. unfold additive_score.
  rewrite (qsum_map_ext _ (fun f => if memb f (firstn k r) then contrib f (feat_row C b f) else contrib f (feat_row C x f))).
  2:{ intros f Hf. apply in_seq in Hf. rewrite (feat_row_move C F) by (auto; lia). destruct (memb f (firstn k r)); reflexivity. }
  rewrite (sum_move_split _ _ r k F P).
  rewrite <- (qsum_perm (fun f => contrib f (feat_row C x f)) _ _ P).
  rewrite <- (firstn_skipn k r) at 3. rewrite map_app, qsum_app, qsum_map_sub. ring.
Qed.

Theorem additive_optimal (contrib : nat -> list Qc -> Qc) (c0 : Qc) C F x b r r' k :
  (1 <= C)%nat -> length x = (F * C)%nat -> length b = (F * C)%nat ->
  is_ranking (exact_attr contrib C F x b) r -> Permutation r' (seq 0 F) -> (k <= F)%nat ->
  additive_score contrib c0 C F (move C x b (firstn k r)) <= additive_score contrib c0 C F (move C x b (firstn k r')) /\
  additive_score contrib c0 C F (move C b x (firstn k r')) <= additive_score contrib c0 C F (move C b x (firstn k r)).
Proof.
  intros HC Hx Hb Hr P' Hk.
  assert (La : length (exact_attr contrib C F x b) = F) by (unfold exact_attr; rewrite map_length, seq_length; reflexivity).
  assert (P : Permutation r (seq 0 F)) by (destruct Hr as [P _]; rewrite La in P; exact P).
  set (D := fun f => contrib f (feat_row C x f) - contrib f (feat_row C b f)).
  assert (Ea : forall l, (forall f, In f l -> (f < F)%nat) ->
            qsum (map (nthq (exact_attr contrib C F x b)) l) = qsum (map D l)).
  { intros l Hl. apply qsum_map_ext. intros f Hf. unfold exact_attr.
    rewrite (nthq_map _ _ 0%nat) by (rewrite seq_length; apply Hl; exact Hf).
    rewrite seq_nth by (apply Hl; exact Hf). reflexivity. }
  assert (In_lt : forall q, Permutation q (seq 0 F) -> forall f, In f (firstn k q) -> (f < F)%nat).
  { intros q Pq f Hf. assert (In f q) by (rewrite <- (firstn_skipn k q); apply in_or_app; left; exact Hf).
    eapply Permutation_in in H; [|exact Pq]. apply in_seq in H. lia. }
  assert (Key : qsum (map D (firstn k r')) <= qsum (map D (firstn k r))).
  { rewrite <- !Ea by (apply In_lt; assumption).
    apply topk_sum_optimal; [exact Hr | | | | ].
    - assert (ND : NoDup r') by (apply (Permutation_NoDup (Permutation_sym P')); apply seq_NoDup).
      rewrite <- (firstn_skipn k r') in ND. clear -ND. induction (firstn k r') as [|a l IH]; [constructor|].
      cbn [app] in ND. apply NoDup_cons_iff in ND as [Ha ND]. constructor; [|apply IH; exact ND].
      intro H. apply Ha. apply in_or_app. left; exact H.
    - rewrite La. apply In_lt; exact P'.
    - rewrite firstn_length. apply Permutation_length in P'. rewrite seq_length in P'. lia.
    - rewrite La. exact Hk. }
  rewrite !(additive_move contrib c0 C F) by assumption. fold D.
  assert (ED : forall l, qsum (map (fun f => contrib f (feat_row C b f) - contrib f (feat_row C x f)) l) = - qsum (map D l)).
  { intro l. unfold D. rewrite !qsum_map_sub. ring. }
  rewrite !ED. split.
  - apply Qcplus_le_compat; [apply Qcle_refl | apply Qcopp_le_compat; exact Key].
  - unfold Qcminus. rewrite !Qcopp_involutive. apply Qcplus_le_compat; [apply Qcle_refl | exact Key].
Qed.
