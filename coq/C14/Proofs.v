(* C14/Proofs.v — the executable model of CausalFidelity (Deletion / Insertion) equals the documented curve,
   for every batch size, number of samples, shape, steps, max_percentage; and the listed consequences. *)
From Xpl Require Import Base.Tensor C14.Spec.
From Coq Require Import Arith FinFun Lqa.
Close Scope Qc_scope. Open Scope nat_scope.

(* ================================================================ generic list facts *)
Lemma nth_skipn' {A} n (l : list A) i d : nth i (skipn n l) d = nth (n + i) l d.
Proof. revert l; induction n as [|n IH]; intro l; [reflexivity|]. destruct l as [|a l]; cbn [skipn plus nth].
  - destruct i; reflexivity.
  - apply IH. Qed.

Lemma nth_firstn' {A} n (l : list A) i d : i < n -> nth i (firstn n l) d = nth i l d.
Proof. revert l i; induction n as [|n IH]; intros l i H; [lia|]. destruct l as [|a l]; [reflexivity|].
  destruct i; cbn [firstn nth]; [reflexivity | apply IH; lia]. Qed.

Lemma firstn_as_seq {A} n (l : list A) d : n <= length l -> firstn n l = map (fun j => nth j l d) (seq 0 n).
Proof. intro H. rewrite (list_as_seq (firstn n l) d). rewrite firstn_length, Nat.min_l by exact H.
  apply map_ext_in. intros j Hj. apply in_seq in Hj. apply nth_firstn'; lia. Qed.

(* x.reshape(F, C) as index arithmetic *)
Lemma chunks_as_seq {A} (C F : nat) (x : list A) d : 1 <= C -> length x = F * C ->
  chunks C x = map (fun i => map (fun j => nth (i * C + j) x d) (seq 0 C)) (seq 0 F).
Proof.
  intro HC. revert x; induction F as [|F IH]; intros x Hx.
  - destruct x; [reflexivity | cbn [length] in Hx; lia].
  - assert (Hne : x <> []) by (intro E; subst x; cbn [length] in Hx; nia).
    rewrite chunks_cons_step by assumption. cbn [seq map]. f_equal.
    + rewrite (firstn_as_seq C x d) by nia. reflexivity.
    + rewrite IH by (rewrite skipn_length; nia). rewrite <- seq_shift, map_map.
      apply map_ext. intro i. apply map_ext. intro j. rewrite nth_skipn'. f_equal. lia.
Qed.

Lemma concat_map_flat_map {A B} (f : A -> list B) l : concat (map f l) = flat_map f l.
Proof. symmetry; apply flat_map_concat_map. Qed.

Lemma upd_length {A} (l : list A) i v : length (upd l i v) = length l.
Proof. revert i; induction l as [|a l IH]; intros [|i]; cbn [upd length]; auto. Qed.

Lemma upd_nth {A} (l : list A) i v j d : nth j (upd l i v) d = if (j =? i) && (i <? length l) then v else nth j l d.
Proof. revert i j; induction l as [|a l IH]; intros i j.
  - cbn [upd length]. replace (i <? 0) with false by (symmetry; apply Nat.ltb_ge; lia).
    rewrite andb_false_r. reflexivity.
  - destruct i as [|i]; destruct j as [|j]; cbn [upd nth length]; try reflexivity.
    rewrite IH. replace (S j =? S i) with (j =? i) by reflexivity.
    replace (S i <? S (length l)) with (i <? length l) by reflexivity. reflexivity. Qed.

Lemma memb_In i l : memb i l = true <-> In i l.
Proof. unfold memb. rewrite existsb_exists. split.
  - intros [x [Hx E]]. apply Nat.eqb_eq in E. subst; exact Hx.
  - intro H. exists i. split; [exact H | apply Nat.eqb_refl]. Qed.

Lemma memb_false i l : memb i l = false <-> ~ In i l.
Proof. rewrite <- memb_In. destruct (memb i l); split; intro; congruence. Qed.

Lemma map4_ext_in {A B C D E} (f g : A -> B -> C -> D -> E) a b c d :
  (forall x y z w, In x a -> In y b -> f x y z w = g x y z w) -> map4 f a b c d = map4 g a b c d.
Proof. revert b c d; induction a as [|x a IH]; intros [|y b] [|z c] [|w d] H; cbn [map4]; try reflexivity.
  f_equal; [apply H; left; reflexivity | apply IH; intros; apply H; right; assumption]. Qed.

(* ================================================================ flipping rows = moving features *)
Lemma flip_rows_length s e ids : length (flip_rows s e ids) = length s.
Proof. unfold flip_rows. revert s; induction ids as [|id ids IH]; intro s; cbn [fold_left]; [reflexivity|].
  rewrite IH. apply upd_length. Qed.

Lemma flip_rows_nth s e ids i : i < length s ->
  nth i (flip_rows s e ids) [] = if memb i ids then nth i e [] else nth i s [].
Proof.
  unfold flip_rows. revert s; induction ids as [|id ids IH]; intros s Hi; cbn [fold_left]; [reflexivity|].
  rewrite IH by (rewrite upd_length; exact Hi). rewrite upd_nth.
  unfold memb. cbn [existsb]. fold (memb i ids).
  destruct (memb i ids) eqn:Em; [rewrite orb_true_r; reflexivity|]. rewrite orb_false_r.
  destruct (i =? id) eqn:E; cbn [andb]; [|reflexivity].
  apply Nat.eqb_eq in E. subst id.
  replace (i <? length s) with true by (symmetry; apply Nat.ltb_lt; exact Hi). reflexivity.
Qed.

Lemma flip_rows_move C F x b ids : 1 <= C -> length x = F * C -> length b = F * C ->
  concat (flip_rows (rows C x) (rows C b) ids) = move C x b ids.
Proof.
  intros HC Hx Hb. unfold rows.
  assert (Ls : length (chunks C x) = F) by (rewrite (chunks_as_seq C F x 0%Qc) by assumption; rewrite map_length, seq_length; reflexivity).
  rewrite (list_as_seq (flip_rows (chunks C x) (chunks C b) ids) []). rewrite flip_rows_length, Ls.
  rewrite (map_ext_in _ (fun i => map (fun j => if memb i ids then nthq b (i * C + j) else nthq x (i * C + j)) (seq 0 C))).
  2:{ intros i Hi. apply in_seq in Hi. rewrite flip_rows_nth by lia.
      rewrite (chunks_as_seq C F x 0%Qc), (chunks_as_seq C F b 0%Qc) by assumption.
      rewrite !(nth_map_seq _ F i []) by lia. destruct (memb i ids); reflexivity. }
  rewrite concat_map_flat_map.
  rewrite (grid_flat (fun i j => if memb i ids then nthq b (i * C + j) else nthq x (i * C + j)) F C).
  unfold move. rewrite Hx. apply map_ext_in. intros k Hk.
  assert (C <> 0) by lia. pose proof (Nat.div_mod k C H) as E.
  replace (k / C * C + k mod C) with k by lia. reflexivity.
Qed.

(* ================================================================ batched inference is row-wise *)
Section Main.
Variable score : list Qc -> list Qc -> Qc.
Variable rank : list Qc -> list nat.

Lemma batch_inference_rowwise bs xs ts : bs_ok bs -> batch_inference score bs xs ts = map2 score xs ts.
Proof.
  destruct bs as [b|]; cbn [bs_ok batch_inference]; [|reflexivity]. intro Hb.
  rewrite map_chunks by exact Hb. rewrite map2_combine. reflexivity.
Qed.

Lemma step_batch_scores md C F xs bl rs ts k : 1 <= C ->
  Forall (fun x => length x = F * C) xs -> Forall (fun b => length b = F * C) bl ->
  map2 score
    (step_batch C (match md with Deletion => map (rows C) xs | Insertion => map (rows C) bl end)
                  (match md with Deletion => map (rows C) bl | Insertion => map (rows C) xs end) rs k) ts
  = map4 (point score md C k) xs bl rs ts.
Proof.
  intros HC Hxs Hbl. unfold step_batch.
  revert bl rs ts Hbl; induction Hxs as [|x xs Hx Hxs IH]; intros bl rs ts Hbl.
  - destruct md; cbn [map combine map2 map4]; [reflexivity|]. destruct bl; reflexivity.
  - destruct Hbl as [|b bl Hb Hbl]; [destruct md; reflexivity|].
    destruct rs as [|r rs]; [destruct md; reflexivity|].
    destruct ts as [|t ts]; [destruct md; reflexivity|].
    specialize (IH bl rs ts Hbl).
    destruct md; cbn [map combine map2 map4 fst snd point] in *; rewrite IH;
      rewrite (flip_rows_move C F) by assumption; reflexivity.
Qed.

(* ================================================================ the dictionary *)
Lemma dict_set_keys (v : nat -> Qc) ks k :
  dict_set k (v k) (map (fun k => (k, v k)) ks) = map (fun k => (k, v k)) (add_key ks k).
Proof.
  unfold add_key. induction ks as [|a ks IH]; [reflexivity|].
  cbn [map dict_set]. unfold memb in *. cbn [existsb].
  rewrite (Nat.eqb_sym k a). destruct (a =? k) eqn:E; cbn [orb].
  - apply Nat.eqb_eq in E. subst a. reflexivity.
  - rewrite IH. fold (memb k ks). destruct (memb k ks); reflexivity.
Qed.

Lemma dict_fold (v : nat -> Qc) l ks :
  fold_left (fun d k => dict_set k (v k) d) l (map (fun k => (k, v k)) ks)
  = map (fun k => (k, v k)) (fold_left add_key l ks).
Proof. revert ks; induction l as [|k l IH]; intro ks; cbn [fold_left]; [reflexivity|].
  rewrite dict_set_keys. apply IH. Qed.

Lemma fold_left_ext_in {A B} (f g : A -> B -> A) l a : (forall x y, In y l -> f x y = g x y) ->
  fold_left f l a = fold_left g l a.
Proof. revert a; induction l as [|y l IH]; intros a H; cbn [fold_left]; [reflexivity|].
  rewrite H by (left; reflexivity). apply IH. intros; apply H; right; assumption. Qed.

(* ================================================================ curve_correct *)
Definition steps_of (c : cfg) : list nat :=
  let m := max_nb (cF c) (cPct c) in linspace_int m (eff_steps (cSteps c) m).

Theorem detailed_correct c bs bm xs ts es :
  1 <= cC c -> bs_ok bs -> sizes_ok c xs (baselines_of bm xs) ->
  detailed_evaluate score rank c bs bm xs ts es
  = map (fun k => (k, curve score (cMode c) (cC c) xs (baselines_of bm xs) (ranking_of rank c es) ts k))
        (distinct_steps (steps_of c)).
Proof.
  intros HC Hbs [Hxs Hbl]. unfold detailed_evaluate, distinct_steps, steps_of. cbv zeta.
  set (v := fun k => curve score (cMode c) (cC c) xs (baselines_of bm xs) (ranking_of rank c es) ts k).
  rewrite <- (dict_fold v _ []). cbn [map]. apply fold_left_ext_in. intros d k _.
  f_equal. unfold v, curve. f_equal.
  rewrite batch_inference_rowwise by exact Hbs.
  apply (step_batch_scores (cMode c) (cC c) (cF c)); assumption.
Qed.

Corollary detailed_batch_invariant c bs bs' bm xs ts es :
  1 <= cC c -> bs_ok bs -> bs_ok bs' -> sizes_ok c xs (baselines_of bm xs) ->
  detailed_evaluate score rank c bs bm xs ts es = detailed_evaluate score rank c bs' bm xs ts es.
Proof. intros. rewrite !detailed_correct by assumption. reflexivity. Qed.

Corollary evaluate_batch_invariant c bs bs' bm xs ts es :
  1 <= cC c -> bs_ok bs -> bs_ok bs' -> sizes_ok c xs (baselines_of bm xs) ->
  evaluate score rank c bs bm xs ts es = evaluate score rank c bs' bm xs ts es.
Proof. intros. unfold evaluate. rewrite (detailed_batch_invariant c bs bs') by assumption. reflexivity. Qed.

End Main.
