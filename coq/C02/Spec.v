(* C02/Spec.v — the documented behaviour, written independently of the code's broadcasting *)
From Xpl Require Export C02.Model.
From Coq Require Import String.
Open Scope Qc_scope.

(* documented aliases (docs: operator names accepted by every method and metric) *)
Open Scope string_scope.
Definition documented_aliases : list (string * opsem) :=
  [ ("classification", OpPredictions); ("regression", OpPredictions);
    ("semantic segmentation", OpSegmentation);
    ("object detection", OpDetection true true);
    ("object detection box position", OpDetection false false);
    ("object detection box proba", OpDetection true false);
    ("object detection box class", OpDetection false true) ].
Close Scope string_scope.

(* one-hot target of length n on class c *)
Definition onehot (n c : nat) : list Qc := map (fun i => if Nat.eqb i c then 1 else 0) (seq 0 n).

(* the values of [out] on the zone where the (binary) mask is set *)
Definition zone (out t : list Qc) : list Qc :=
  map fst (filter (fun p => negb (Qceqb (snd p) 0)) (combine out t)).

(* overlap of two intervals, area of a box, IoU as a ratio of areas *)
Definition overlap (a1 a2 b1 b2 : Qc) : Qc := Qcmax (Qcmin a2 b2 - Qcmax a1 b1) 0.
Definition area (b : list Qc) : Qc := (nthq b 2 - nthq b 0) * (nthq b 3 - nthq b 1).
Definition inter_area (a b : list Qc) : Qc :=
  overlap (nthq a 0) (nthq a 2) (nthq b 0) (nthq b 2) * overlap (nthq a 1) (nthq a 3) (nthq b 1) (nthq b 3).
Definition wf_box (b : list Qc) : Prop := nthq b 0 <= nthq b 2 /\ nthq b 1 <= nthq b 3.
