(* C02/Proofs.v *)
From Xpl Require Import C02.Spec.
From Coq Require Import String Lqa Arith.
Open Scope Qc_scope.

(* ------------------------------------------------------------------ (a) dispatch *)
Lemma aliases_resolve : forall s o, In (s, o) documented_aliases -> get_operator (SName s) = Some o.
Proof.
  intros s o H. cbn in H.
  repeat (destruct H as [H|H]; [injection H as <- <-; reflexivity|]). destruct H.
Qed.

Lemma unknown_alias_rejected : forall s, (forall o, ~ In (s, o) documented_aliases) -> get_operator (SName s) = None.
Proof.
  intros s H. cbn [get_operator]. unfold from_string.
  repeat match goal with
  | |- context [String.eqb s ?k] =>
      destruct (String.eqb_spec s k) as [E|_];
      [exfalso; subst s; eapply H; cbn; eauto 10 |]
  end. reflexivity.
Qed.

Lemma custom_kept n : (3 <= n)%nat -> get_operator (SCustom n) = Some OpCustom.
Proof. intro H. cbn [get_operator]. destruct (Nat.leb_spec 3 n); [reflexivity | lia]. Qed.

Lemma default_operator k :
  inference_of k SNone = Some (if is_tf_object k then OpPredictions else OpCallablePredictions).
Proof. reflexivity. Qed.

(* with an operator given, inference and gradient use exactly that operator, whatever the model kind *)
Lemma given_operator k o : o <> SNone ->
  inference_of k o = get_operator o /\
  gradient_of k o = match get_operator o with Some g => Some (Some g) | None => None end.
Proof. destruct o; intro H; try congruence; split; reflexivity. Qed.

Lemma whitebox_gradient_iff k o g :
  gradient_of k o = Some (Some g) <->
  (o = SNone /\ is_keras_model k = true /\ g = OpPredictions) \/ (o <> SNone /\ get_operator o = Some g).
Proof.
  destruct o as [|s|m|n]; cbn [gradient_of].
  - destruct (is_keras_model k); split.
    + intros [= <-]. left; auto.
    + intros [[_ [_ ->]]|[H _]]; [reflexivity | congruence].
    + discriminate.
    + intros [[_ [H _]]|[H _]]; congruence.
  - split.
    + destruct (get_operator (SName s)) as [g'|]; [intros [= <-]; right; split; [discriminate | reflexivity] | discriminate].
    + intros [[H _]|[_ ->]]; [discriminate | reflexivity].
  - split.
    + cbn. intros [= <-]. right; split; [discriminate | reflexivity].
    + intros [[H _]|[_ H]]; [discriminate | cbn in *; congruence].
  - split.
    + destruct (get_operator (SCustom n)) as [g'|]; [intros [= <-]; right; split; [discriminate | reflexivity] | discriminate].
    + intros [[H _]|[_ ->]]; [discriminate | reflexivity].
Qed.

(* ------------------------------------------------------------------ (b) operators *)
Lemma predictions_op_onehot_aux out c s :
  qsum (vmul out (map (fun i => if Nat.eqb i c then 1 else 0) (seq s (List.length out))))
  = if (s <=? c)%nat then nthq out (c - s) else 0.
Proof.
  revert s; induction out as [|o out IH]; intro s; cbn [List.length seq map].
  - unfold vmul, nthq. cbn. destruct (c - s)%nat; destruct (s <=? c)%nat; reflexivity.
  - unfold vmul in *. cbn [map2 qsum]. rewrite IH. unfold nthq.
    destruct (Nat.eqb_spec s c) as [->|Hne].
    + rewrite Nat.sub_diag. cbn [nth]. destruct (Nat.leb_spec (S c) c); [lia|].
      destruct (Nat.leb_spec c c); [ring | lia].
    + destruct (Nat.leb_spec (S s) c), (Nat.leb_spec s c); try lia; try ring.
      replace (c - s)%nat with (S (c - S s)) by lia. cbn [nth]. ring.
Qed.

(* a one-hot target selects the class output *)
Lemma predictions_op_onehot out c : predictions_op out (onehot (List.length out) c) = nthq out c.
Proof. unfold predictions_op, onehot. rewrite predictions_op_onehot_aux. cbn. rewrite Nat.sub_0_r. reflexivity. Qed.

Lemma predictions_op_linear out t t' a : List.length t = List.length t' ->
  predictions_op out (vadd (vscale a t) t') = a * predictions_op out t + predictions_op out t'.
Proof.
  unfold predictions_op, vmul, vadd, vscale. revert t t'; induction out as [|o out IH]; intros [|x t] [|y t'] H;
    cbn in *; try lia; try ring. rewrite IH by lia. ring.
Qed.

(* for a binary mask: the mean of the predictions over the zone of interest *)
Lemma segmentation_binary out t : List.length out = List.length t ->
  (forall v, In v t -> v = 0 \/ v = 1) ->
  segmentation_op out t = qmean (zone out t).
Proof.
  intros Hl Hb. unfold segmentation_op, qmean, zone.
  assert (E : qsum (vmul out t) = qsum (map fst (filter (fun p => negb (Qceqb (snd p) 0)) (combine out t)))
              /\ count_nonzero t = List.length (map fst (filter (fun p => negb (Qceqb (snd p) 0)) (combine out t)))).
  { unfold count_nonzero, vmul. revert t Hl Hb; induction out as [|o out IH]; intros [|x t] Hl Hb; cbn in Hl; try lia.
    - split; reflexivity.
    - destruct (IH t) as [E1 E2]; [lia | intros v Hv; apply Hb; right; exact Hv |].
      cbn [map2 qsum combine filter snd]. destruct (Hb x (or_introl eq_refl)) as [->| ->].
      + replace (Qceqb 0 0) with true by (symmetry; apply Qceqb_eq; reflexivity). cbn [negb].
        split; [rewrite E1; ring | exact E2].
      + replace (Qceqb 1 0) with false by (symmetry; destruct (Qceqb 1 0) eqn:K; [apply Qceqb_eq in K; discriminate | reflexivity]).
        cbn [negb map fst qsum List.length]. split; [rewrite E1; ring | rewrite E2; reflexivity]. }
  destruct E as [-> ->]. reflexivity.
Qed.

(* ---- IoU ---- *)
Lemma overlap_bounds a1 a2 b1 b2 : a1 <= a2 -> b1 <= b2 ->
  0 <= overlap a1 a2 b1 b2 /\ overlap a1 a2 b1 b2 <= a2 - a1 /\ overlap a1 a2 b1 b2 <= b2 - b1.
Proof.
  intros Ha Hb. unfold overlap, Qcmax, Qcmin.
  destruct (Qclt_le_dec b2 a2), (Qclt_le_dec a1 b1);
    match goal with |- context [Qclt_le_dec ?u 0] => destruct (Qclt_le_dec u 0) end;
    repeat split; qc2q; lra.
Qed.

Lemma overlap_sym a1 a2 b1 b2 : overlap a1 a2 b1 b2 = overlap b1 b2 a1 a2.
Proof.
  unfold overlap. f_equal. unfold Qcmax, Qcmin.
  destruct (Qclt_le_dec b2 a2), (Qclt_le_dec a2 b2), (Qclt_le_dec a1 b1), (Qclt_le_dec b1 a1);
    qc2q; try lra; apply Qc_is_canon; qc2q_rw; lra.
Qed.

Lemma box_iou_alt eps a b : box_iou eps a b = inter_area a b / (area a + area b - inter_area a b + eps).
Proof. reflexivity. Qed.

Lemma prod_le p q P Q : 0 <= p -> p <= P -> 0 <= q -> q <= Q -> 0 <= p * q /\ p * q <= P * Q.
Proof. intros. split; qc2q; nra. Qed.

Theorem iou_bounds eps a b : 0 < eps -> wf_box a -> wf_box b -> 0 <= box_iou eps a b /\ box_iou eps a b <= 1.
Proof.
  intros He [Ha0 Ha1] [Hb0 Hb1]. rewrite box_iou_alt. unfold inter_area, area.
  destruct (overlap_bounds _ _ _ _ Ha0 Hb0) as [X0 [X1 X2]].
  destruct (overlap_bounds _ _ _ _ Ha1 Hb1) as [Y0 [Y1 Y2]].
  set (ox := overlap (nthq a 0) (nthq a 2) (nthq b 0) (nthq b 2)) in *.
  set (oy := overlap (nthq a 1) (nthq a 3) (nthq b 1) (nthq b 3)) in *.
  destruct (prod_le ox oy _ _ X0 X1 Y0 Y1) as [I0 IA].
  destruct (prod_le ox oy _ _ X0 X2 Y0 Y2) as [_ IB].
  set (I := ox * oy) in *. set (A := (nthq a 2 - nthq a 0) * (nthq a 3 - nthq a 1)) in *.
  set (B := (nthq b 2 - nthq b 0) * (nthq b 3 - nthq b 1)) in *.
  clearbody I A B. clear -He I0 IA IB.
  split; qc2q.
  - apply Qle_shift_div_l; lra.
  - apply Qle_shift_div_r; lra.
Qed.

Theorem iou_symmetric eps a b : box_iou eps a b = box_iou eps b a.
Proof.
  rewrite !box_iou_alt. unfold inter_area.
  rewrite (overlap_sym (nthq a 0)), (overlap_sym (nthq a 1)). f_equal. ring.
Qed.

(* the documented variants: dropping a factor is setting it to 1 *)
Theorem detection_variants eps norm ref pred :
  pair_score eps norm false false ref pred = box_iou eps (obj_box ref) (obj_box pred) /\
  pair_score eps norm true false ref pred = box_iou eps (obj_box ref) (obj_box pred) * obj_proba pred /\
  pair_score eps norm false true ref pred =
    box_iou eps (obj_box ref) (obj_box pred) *
    (qsum (vmul (obj_class ref) (obj_class pred)) / (norm (obj_class pred) * norm (obj_class ref) + eps)) /\
  pair_score eps norm true true ref pred =
    box_iou eps (obj_box ref) (obj_box pred) * obj_proba pred *
    (qsum (vmul (obj_class ref) (obj_class pred)) / (norm (obj_class pred) * norm (obj_class ref) + eps)).
Proof. unfold pair_score. repeat split; ring. Qed.

Theorem detection_is_mean_of_best eps norm p c objs refs : objs <> [] ->
  detection_op eps norm p c objs refs
  = qmean (map (fun ref => qmax_list (map (pair_score eps norm p c ref) objs)) refs).
Proof. destruct objs; [congruence | reflexivity]. Qed.

Lemma fold_max_spec l a : a <= fold_left Qcmax l a /\ (forall x, In x l -> x <= fold_left Qcmax l a)
                          /\ (fold_left Qcmax l a = a \/ In (fold_left Qcmax l a) l).
Proof.
  revert a; induction l as [|y l IH]; intro a; cbn [fold_left].
  - split; [apply Qcle_refl|]. split; [intros x []| left; reflexivity].
  - destruct (IH (Qcmax a y)) as [H1 [H2 H3]].
    assert (La : a <= Qcmax a y) by (unfold Qcmax; destruct (Qclt_le_dec a y) as [K|K]; [apply Qclt_le_weak; exact K | apply Qcle_refl]).
    assert (Ly : y <= Qcmax a y) by (unfold Qcmax; destruct (Qclt_le_dec a y) as [K|K]; [apply Qcle_refl | exact K]).
    split; [|split].
    + eapply Qcle_trans; [exact La | exact H1].
    + intros x [<-|Hx]; [eapply Qcle_trans; [exact Ly | exact H1] | apply H2; exact Hx].
    + destruct H3 as [H3|H3]; [|right; right; exact H3].
      rewrite H3. unfold Qcmax. destruct (Qclt_le_dec a y); [right; left; reflexivity | left; reflexivity].
Qed.

(* qmax_list is the best (largest) pairwise score and is attained *)
Theorem qmax_list_spec l : l <> [] -> In (qmax_list l) l /\ forall x, In x l -> x <= qmax_list l.
Proof.
  destruct l as [|a l]; [congruence|]. intros _. unfold qmax_list.
  destruct (fold_max_spec l a) as [H1 [H2 H3]]. split.
  - destruct H3 as [->|H3]; [left; reflexivity | right; exact H3].
  - intros x [<-|Hx]; [exact H1 | apply H2; exact Hx].
Qed.

(* ------------------------------------------------------------------ (c) output_layer *)
Lemma forward_app a b x : forward (a ++ b) x = forward b (forward a x).
Proof. unfold forward. apply fold_left_app. Qed.

(* the truncated model computes the activation of the chosen layer *)
Theorem truncate_forward n k x : forward n x = forward (skipn k n) (forward (firstn k n) x).
Proof. rewrite <- forward_app, firstn_skipn. reflexivity. Qed.

(* chain rule structure of the reverse pass *)
Theorem net_grad_app a b x t : net_grad (a ++ b) x t = net_grad a x (net_grad b (forward a x) t).
Proof.
  revert x; induction a as [|l a IH]; intro x; cbn [app net_grad]; [reflexivity|].
  rewrite IH. unfold forward. cbn [fold_left]. reflexivity.
Qed.

(* white-box methods built with output_layer = L explain the model truncated at L *)
Theorem output_layer_truncates n r x t :
  saliency_with wb_model n (Some r) x t =
    match truncate n r with Some m => saliency_with wb_model m None x t | None => None end
  /\ gradinput_with wb_model n (Some r) x t =
    match truncate n r with Some m => gradinput_with wb_model m None x t | None => None end.
Proof. unfold saliency_with, gradinput_with, wb_model. destruct (truncate n r); split; reflexivity. Qed.

Theorem output_layer_last n x t :
  saliency_with wb_model n (Some (ByIndex (-1))) x t = saliency_with wb_model n None x t.
Proof.
  unfold saliency_with, wb_model, truncate, kept_layers.
  set (len := Z.of_nat (S (List.length n))).
  assert (Hlen : (len = Z.of_nat (List.length n) + 1)%Z) by (unfold len; lia).
  replace (-1 <? 0)%Z with true by reflexivity.
  destruct (Z.leb_spec 0 (len + -1)); [|lia]. destruct (Z.ltb_spec (len + -1) len); [|lia].
  cbn [andb]. replace (Z.to_nat (len + -1)) with (List.length n) by lia.
  rewrite firstn_all. reflexivity.
Qed.

Theorem kept_layers_in_range n z : (- Z.of_nat (S (List.length n)) <= z < Z.of_nat (S (List.length n)))%Z ->
  exists k, kept_layers n (ByIndex z) = Some k /\ (k <= List.length n)%nat /\
            Z.of_nat k = (if (z <? 0) then Z.of_nat (S (List.length n)) + z else z)%Z.
Proof.
  intro H. unfold kept_layers. set (len := Z.of_nat (S (List.length n))) in *.
  destruct (Z.ltb_spec z 0).
  - destruct (Z.leb_spec 0 (len + z)); [|lia]. destruct (Z.ltb_spec (len + z) len); [|lia].
    exists (Z.to_nat (len + z)). cbn [andb]. repeat split; lia.
  - destruct (Z.leb_spec 0 z); [|lia]. destruct (Z.ltb_spec z len); [|lia].
    exists (Z.to_nat z). cbn [andb]. repeat split; lia.
Qed.

(* the code as found ignored output_layer: a witness net (dense, relu head) on which the explanation with
   output_layer=-2 differs from the explanation of the truncated model *)
Open Scope string_scope.
Definition witness_net : net :=
  [ {| d_name := "logits"; d_W := [[1; 0]; [0; 1]]; d_b := [0; 0]; d_relu := false |};
    {| d_name := "head";   d_W := [[q 2 1; 1]; [1; q 3 1]]; d_b := [0; 0]; d_relu := true |} ].
Close Scope string_scope.

Theorem output_layer_refuted_orig :
  exists n r x t m, truncate n r = Some m /\
    saliency_with wb_model_orig n (Some r) x t <> saliency_with wb_model_orig m None x t.
Proof.
  exists witness_net, (ByIndex (-2)), [1; 1], [1; 0], (firstn 1 witness_net).
  split; [reflexivity|]. vm_compute. discriminate.
Qed.
