(* C02/Model.v — executable model of what "the explained function" is.

   (a) dispatch: commons/operators_operations.py  get_operator / Tasks.from_string /
       get_inference_function / get_gradient_functions  as a finite decision table;
   (b) the task operators of commons/operators.py: predictions_operator, semantic_segmentation_operator,
       object_detection_operator (+ utils_functions/object_detection.py _box_iou, _format_objects);
   (c) attributions/base.py WhiteBoxExplainer.__init__ with output_layer: which Keras model the explainer
       ends up differentiating.  [wb_model] is the current code (after the repair recorded in
       known_findings.json), [wb_model_orig] the code as found (the truncated model was built and dropped).
   No proofs here. *)
From Xpl Require Export Base.Tensor.
From Coq Require Import String.
Close Scope Qc_scope. Open Scope nat_scope.

(* ------------------------------------------------------------------ (a) dispatch *)
Inductive opsem :=            (* the function finally used as g(f, x, y) *)
| OpPredictions               (* sum(model(x) * targets)            predictions_operator *)
| OpSegmentation              (* semantic_segmentation_operator *)
| OpDetection (proba cls : bool)   (* object_detection_operator with the two include_* flags *)
| OpCustom                    (* the user's callable, kept as is *)
| OpCallablePredictions.      (* predictions_one_hot_callable: sum(callable(x) * targets) through NumPy *)

Inductive opspec :=
| SNone
| SName (s : string)
| SMember (o : opsem)         (* a Tasks member: at run time the member IS the operator function *)
| SCustom (nargs : nat).      (* a callable with that many positional parameters *)

Inductive modelkind := KerasModel | TorchWrapped | TfModule | KerasLayer | PlainCallable | PredictProba | TfLite.

Definition is_keras_model (k : modelkind) : bool :=
  match k with KerasModel | TorchWrapped => true | _ => false end.           (* isinstance(model, tf.keras.Model) *)
Definition is_tf_object (k : modelkind) : bool :=
  match k with KerasModel | TorchWrapped | TfModule | KerasLayer => true | _ => false end.

Open Scope string_scope.
(* Tasks.from_string: the assert fails (None) for unknown names *)
Definition from_string (s : string) : option opsem :=
  if String.eqb s "classification" then Some OpPredictions
  else if String.eqb s "regression" then Some OpPredictions
  else if String.eqb s "semantic segmentation" then Some OpSegmentation
  else if String.eqb s "object detection" then Some (OpDetection true true)
  else if String.eqb s "object detection box position" then Some (OpDetection false false)
  else if String.eqb s "object detection box proba" then Some (OpDetection true false)
  else if String.eqb s "object detection box class" then Some (OpDetection false true)
  else None.
Close Scope string_scope.

(* get_operator; None = an exception is raised *)
Definition get_operator (o : opspec) : option opsem :=
  match o with
  | SNone => Some OpPredictions
  | SName s => from_string s
  | SMember m => Some m
  | SCustom n => if 3 <=? n then Some OpCustom else None
  end.

(* get_inference_function *)
Definition inference_of (k : modelkind) (o : opspec) : option opsem :=
  match o with
  | SNone => Some (if is_tf_object k then OpPredictions else OpCallablePredictions)
  | _ => get_operator o
  end.

(* get_gradient_functions: Some (Some g) = gradient of g by autodiff, Some None = no_gradients_available *)
Definition gradient_of (k : modelkind) (o : opspec) : option (option opsem) :=
  match o with
  | SNone => Some (if is_keras_model k then Some OpPredictions else None)
  | _ => match get_operator o with Some g => Some (Some g) | None => None end
  end.

(* BlackBoxExplainer never differentiates *)
Definition blackbox_gradient (k : modelkind) (o : opspec) : option opsem := None.

Open Scope Qc_scope.
(* ------------------------------------------------------------------ (b) task operators *)
(* predictions_operator: reduce_sum(model(x) * targets, axis=-1) *)
Definition predictions_op (out t : list Qc) : Qc := qsum (vmul out t).

(* semantic_segmentation_operator: reduce_sum(model(x) * targets) / reduce_sum(cast(targets != 0)) *)
Definition count_nonzero (t : list Qc) : nat := List.length (filter (fun v => negb (Qceqb v 0)) t).
Definition segmentation_op (out t : list Qc) : Qc := qsum (vmul out t) / qn (count_nonzero t).

(* objects: rows (x1, y1, x2, y2, proba, class_1 .. class_nc);  _format_objects = split [4, 1, nc] *)
Definition obj_box (o : list Qc) : list Qc := firstn 4 o.
Definition obj_proba (o : list Qc) : Qc := nthq o 4.
Definition obj_class (o : list Qc) : list Qc := skipn 5 o.

(* _box_iou *)
Definition box_iou (eps : Qc) (a b : list Qc) : Qc :=
  let left := Qcmax (nthq a 0) (nthq b 0) in
  let bottom := Qcmax (nthq a 1) (nthq b 1) in
  let right := Qcmin (nthq a 2) (nthq b 2) in
  let top := Qcmin (nthq a 3) (nthq b 3) in
  let inter := Qcmax (right - left) 0 * Qcmax (top - bottom) 0 in
  let a_area := (nthq a 2 - nthq a 0) * (nthq a 3 - nthq a 1) in
  let b_area := (nthq b 2 - nthq b 0) * (nthq b 3 - nthq b 1) in
  inter / (a_area + b_area - inter + eps).

Section Detection.
Variable eps : Qc.                       (* _EPSILON as the float32 it becomes *)
Variable norm : list Qc -> Qc.           (* tf.norm: Euclidean norm (library) *)

(* batch_loop for one image: [objs] predicted objects, [refs] the boxes to explain.
   pairwise (ref, pred) scores -> max over predictions -> mean over references *)
Definition pair_score (incl_p incl_c : bool) (ref pred : list Qc) : Qc :=
  let iou := box_iou eps (obj_box ref) (obj_box pred) in
  let p := if incl_p then obj_proba pred else 1 in
  let c := if incl_c
           then qsum (vmul (obj_class ref) (obj_class pred)) / (norm (obj_class pred) * norm (obj_class ref) + eps)
           else 1 in
  iou * p * c.
Definition qmax_list (l : list Qc) : Qc := match l with [] => 0 | x :: r => fold_left Qcmax r x end.
Definition detection_op (incl_p incl_c : bool) (objs refs : list (list Qc)) : Qc :=
  match objs with
  | [] => 0
  | _ => qmean (map (fun ref => qmax_list (map (pair_score incl_p incl_c ref) objs)) refs)
  end.
End Detection.

(* ------------------------------------------------------------------ (c) output_layer *)
(* a functional Keras model = its layers in order (index 0 is the InputLayer, the identity); a layer has a
   name and a function.  F-net layers: Dense with integer/rational kernel, optional fused relu. *)
Record dense := { d_name : string; d_W : list (list Qc) (* one row per output unit *); d_b : list Qc; d_relu : bool }.
Definition relu (x : Qc) : Qc := Qcmax x 0.
Definition dense_pre (l : dense) (x : list Qc) : list Qc := map2 (fun w b => dot w x + b) (d_W l) (d_b l).
Definition dense_fwd (l : dense) (x : list Qc) : list Qc :=
  let z := dense_pre l x in if d_relu l then map relu z else z.
(* model.layers = InputLayer :: dense layers *)
Definition net := list dense.
Definition forward (n : net) (x : list Qc) : list Qc := fold_left (fun a l => dense_fwd l a) n x.

(* reverse mode: gradient of <t, forward n x> with respect to x *)
Definition transpose_mul (W : list (list Qc)) (g : list Qc) (n_in : nat) : list Qc :=
  fold_left vadd (map2 (fun w gi => vscale gi w) W g) (vzero n_in).
Definition dense_bwd (l : dense) (x g : list Qc) : list Qc :=
  let z := dense_pre l x in
  let g' := if d_relu l then map2 (fun zi gi => if Qcltb 0 zi then gi else 0) z g else g in
  transpose_mul (d_W l) g' (List.length x).
Fixpoint net_grad (n : net) (x t : list Qc) : list Qc :=
  match n with
  | [] => t
  | l :: r => dense_bwd l x (net_grad r (dense_fwd l x) t)
  end.

(* find_layer(model, layer): by name (model.get_layer) or by Python index into model.layers (negative
   allowed), model.layers = [InputLayer] ++ dense layers.  Result: number of DENSE layers kept, i.e. the
   truncated model is tf.keras.Model(model.input, that_layer.output). None = exception. *)
Inductive layer_ref := ByIndex (z : Z) | ByName (s : string).
Fixpoint index_of_name (s : string) (n : net) (i : nat) : option nat :=
  match n with [] => None | l :: r => if String.eqb (d_name l) s then Some i else index_of_name s r (S i) end.
Definition kept_layers (n : net) (r : layer_ref) : option nat :=
  match r with
  | ByName s => match index_of_name s n 0 with Some i => Some (S i) | None => None end
  | ByIndex z =>
      let len := Z.of_nat (S (List.length n)) in               (* InputLayer included *)
      let i := if (z <? 0)%Z then (len + z)%Z else z in
      if ((0 <=? i)%Z && (i <? len)%Z)%bool then Some (Z.to_nat i) else None   (* i = 0: the InputLayer itself *)
  end.
Definition truncate (n : net) (r : layer_ref) : option net :=
  match kept_layers n r with Some k => Some (firstn k n) | None => None end.

(* the model a white-box explainer holds (self.model) and hence differentiates *)
Definition wb_model (n : net) (ol : option layer_ref) : option net :=
  match ol with None => Some n | Some r => truncate n r end.
Definition wb_model_orig (n : net) (ol : option layer_ref) : option net :=
  match ol with None => Some n | Some r => match truncate n r with Some _ => Some n | None => None end end.

(* Saliency / GradientInput of the default operator on the explainer's model *)
Definition saliency_with (wb : net -> option layer_ref -> option net) (n : net) (ol : option layer_ref)
    (x t : list Qc) : option (list Qc) :=
  match wb n ol with Some m => Some (map Qcabs (net_grad m x t)) | None => None end.
Definition gradinput_with (wb : net -> option layer_ref -> option net) (n : net) (ol : option layer_ref)
    (x t : list Qc) : option (list Qc) :=
  match wb n ol with Some m => Some (vmul x (net_grad m x t)) | None => None end.
