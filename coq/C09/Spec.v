(* C09/Spec.v — the property's reference definition, no batching, no accumulators:
   map[p] = sum_k score(masked_k) * m_k[p] / (sum_k m_k[p] + epsilon)   over the nb_samples masks applied,
   masked_k = m_k * x + (1 - m_k) * mask_value  (the mask value of a pixel is shared by its channels). *)
From Xpl Require Export C09.Model.
Open Scope Qc_scope.

(* flat entry j of the input belongs to mask position j / c *)
Definition masked (k : kind) (v : Qc) (x m : list Qc) : list Qc :=
  map (fun j => nthq m (j / chan k) * nthq x j + (1 - nthq m (j / chan k)) * v) (seq 0 (length x)).

(* D_p = sum_k m_k[p] *)
Definition mass (ms : list (list Qc)) (p : nat) : Qc := qsum (map (fun m => nthq m p) ms).

Section Spec.
Variable score : list Qc -> list Qc -> Qc.

(* the scores of the masked inputs that were evaluated *)
Definition evaluated (k : kind) (v : Qc) (x t : list Qc) (ms : list (list Qc)) : list Qc :=
  map (fun m => score (masked k v x m) t) ms.

Definition spec_at (k : kind) (v : Qc) (x t : list Qc) (ms : list (list Qc)) (p : nat) : Qc :=
  qsum (map (fun m => score (masked k v x m) t * nthq m p) ms) / (mass ms p + eps).

Definition spec_map (k : kind) (v : Qc) (x t : list Qc) (ms : list (list Qc)) : list Qc :=
  map (spec_at k v x t ms) (seq 0 (npos k)).

Definition spec_rise (k : kind) (v : Qc) (xs ts : list (list Qc)) (mss : list (list (list Qc))) : list (list Qc) :=
  map (fun xtm => spec_map k v (fst (fst xtm)) (snd (fst xtm)) (snd xtm)) (combine (combine xs ts) mss).
End Spec.

(* smallest / largest element of a non-empty list *)
Fixpoint qmin_list (a : Qc) (l : list Qc) : Qc := match l with [] => a | b :: r => Qcmin a (qmin_list b r) end.
Fixpoint qmax_list (a : Qc) (l : list Qc) : Qc := match l with [] => a | b :: r => Qcmax a (qmax_list b r) end.
Definition qmin_of (l : list Qc) : Qc := match l with [] => 0 | a :: r => qmin_list a r end.
Definition qmax_of (l : list Qc) : Qc := match l with [] => 0 | a :: r => qmax_list a r end.

(* well-formed data: every input has the kind's size, every mask has the kind's spatial shape *)
Definition masks_ok (k : kind) (ms : list (list Qc)) : Prop := forall m, In m ms -> length m = npos k.
Definition bs_ok (bs : option nat) : Prop := match bs with Some b => (1 <= b)%nat | None => True end.
