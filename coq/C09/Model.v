(* C09/Model.v — executable transcription of xplique/attributions/rise.py (no proofs here)

   Rise.explain:
     binary_masks = Rise._get_masks(inputs.shape, nb_samples, grid_size, preservation_probability)
     batch_size   = self.batch_size or self.nb_samples
     for single_input, single_target in zip(inputs, targets):
        rise_nominator   = tf.zeros([..single_input.shape[:-1], 1])
        rise_denominator = tf.zeros([..single_input.shape[:-1], 1])
        for batch_masks in batch_tensor(binary_masks, batch_size):
           masked_inputs, masks_upsampled = Rise._apply_masks(single_input, batch_masks, mask_value)
           repeated_targets = repeat_labels(single_target[tf.newaxis, :], len(batch_masks))
           predictions = self.inference_function(self.model, masked_inputs, repeated_targets)
           (expand_dims predictions to the rank of masks_upsampled)
           rise_nominator   += tf.reduce_sum(predictions * masks_upsampled, 0)
           rise_denominator += tf.reduce_sum(masks_upsampled, 0)
        rise_map = rise_nominator / (rise_denominator + Rise.EPSILON)          (EPSILON = 1e-4)
        rise_maps = concat(rise_maps, rise_map[newaxis])
   Rise._apply_masks (last line):
        masked_input = masks * tf.expand_dims(single_input, 0) + (1 - masks) * mask_value
     with masks of shape (b, W) for tabular inputs (W), (b, T, W) for time series (T, W) and
     (b, H, W, 1) for images (H, W, C) (broadcast along the channel axis).

   What is random (uniform draw of the binary grid, random crop of the bilinear upsampling) is library
   behaviour: the UPSAMPLED masks, one list of nb_samples masks per input (a new crop is drawn for every
   input and every batch), are inputs of this model, in the order in which they were applied.
   The model / operator is [score : sample -> target -> Qc], applied row-wise.
   The zero accumulators of shape (.., 1) are broadcast by the first [+=]; the model starts from zeros
   of the shape of the masks (same values). *)
From Xpl Require Export Base.ListX.
From Xpl Require Import Base.Families.
Close Scope Qc_scope. Open Scope nat_scope.

(* input kinds: tabular (W), time series (T, W) — the mask covers every entry —, images (H, W, C) — the
   mask covers the pixels and is shared by the channels *)
Inductive kind :=
| Tab (d : nat)
| TS (t w : nat)
| Img (h w c : nat).

Definition npos (k : kind) : nat := match k with Tab d => d | TS t w => t * w | Img h w _ => h * w end.
Definition chan (k : kind) : nat := match k with Img _ _ c => c | _ => 1 end.
Definition size (k : kind) : nat := npos k * chan k.

(* int(H * (1.0 + 1.0 / h)): size of the bilinear upsampling of an h-grid before the random crop to H *)
Definition upsampled (H h : nat) : nat := H + H / h.

Open Scope Qc_scope.

Definition eps : Qc := q 1 10000.

(* masks * x + (1 - masks) * mask_value, the mask being repeated along the channel axis *)
Definition apply_mask (c : nat) (v : Qc) (x m : list Qc) : list Qc :=
  map2 (fun mi xi => mi * xi + (1 - mi) * v) (rep c m) x.

Section Rise.
Variable score : list Qc -> list Qc -> Qc.

(* one iteration of the loop over mask batches; acc = (rise_nominator, rise_denominator) *)
Definition rise_step (k : kind) (v : Qc) (x t : list Qc) (acc : list Qc * list Qc) (bm : list (list Qc))
  : list Qc * list Qc :=
  let n := npos k in
  let masked := map (apply_mask (chan k) v x) bm in
  let preds := map (fun o => score o t) masked in           (* repeat_labels: the same target *)
  (vadd (fst acc) (vsum n (map2 vscale preds bm)), vadd (snd acc) (vsum n bm)).

Definition rise_one (k : kind) (B : nat) (v : Qc) (x t : list Qc) (ms : list (list Qc)) : list Qc :=
  let n := npos k in
  let acc := fold_left (rise_step k v x t) (chunks B ms) (vzero n, vzero n) in
  map2 (fun a b => a / (b + eps)) (fst acc) (snd acc).

(* nb = nb_samples; mss = for each input, the nb upsampled masks applied to it, in order *)
Definition rise (k : kind) (bs : option nat) (nb : nat) (v : Qc) (xs ts : list (list Qc))
  (mss : list (list (list Qc))) : list (list Qc) :=
  let B := eff_bs bs nb in
  map (fun xtm => rise_one k B v (fst (fst xtm)) (snd (fst xtm)) (snd xtm)) (combine (combine xs ts) mss).
End Rise.

(* the inputs the model is queried on for one input, batch after batch *)
Definition rise_queries_one (k : kind) (B : nat) (v : Qc) (x : list Qc) (ms : list (list Qc)) : list (list Qc) :=
  concat (map (map (apply_mask (chan k) v x)) (chunks B ms)).
Definition rise_queries (k : kind) (bs : option nat) (nb : nat) (v : Qc) (xs : list (list Qc))
  (mss : list (list (list Qc))) : list (list (list Qc)) :=
  map (fun xm => rise_queries_one k (eff_bs bs nb) v (fst xm) (snd xm)) (combine xs mss).

(* ------------------------------------------------------------------------------------------------
   comparison with the implementation (used by harness/c09.py only; nothing is proved about it).
   Per position p the float32 result may differ from the exact one by
     (tolA * sum_k S_k |m_k(p)|  +  tolB * (sum_k S_k + nb)) / (|D_p| + eps),   S_k = mag(masked_k)
   tolA: float32 rounding of products / sums / division; tolB: accuracy of the recovered masks (0 when the
   recovery is exact). *)
Section Check.
Variable score : list Qc -> list Qc -> Qc.
Variable mag : list Qc -> list Qc -> Qc.      (* magnitude bound of the score: |score x t| <= mag x t *)

Definition rise_tols (tolA tolB : Qc) (k : kind) (v : Qc) (x t : list Qc) (ms : list (list Qc)) : list Qc :=
  let n := npos k in
  let ss := map (fun m => mag (apply_mask (chan k) v x m) t) ms in
  let A := vsum n (map2 vscale ss (map (map Qcabs) ms)) in
  let D := vsum n ms in
  let T := qsum ss + qn (length ms) in
  map2 (fun a d => (tolA * a + tolB * T) / (Qcabs d + eps)) A D.

Definition within (tols model impl : list Qc) : bool :=
  Nat.eqb (length model) (length impl) && Nat.eqb (length model) (length tols) &&
  forallb (fun p => Qcleb (Qcabs (fst (fst p) - snd (fst p))) (snd p)) (combine (combine model impl) tols).

Definition rise_close (tolA tolB : Qc) (k : kind) (bs : option nat) (nb : nat) (v : Qc)
  (xs ts : list (list Qc)) (mss : list (list (list Qc))) (impl : list (list Qc)) : bool :=
  let model := rise score k bs nb v xs ts mss in
  let tols := map (fun xtm => rise_tols tolA tolB k v (fst (fst xtm)) (snd (fst xtm)) (snd xtm))
                  (combine (combine xs ts) mss) in
  Nat.eqb (length model) (length xs) && Nat.eqb (length impl) (length xs) &&
  forallb (fun p => within (snd p) (fst (fst p)) (snd (fst p))) (combine (combine model impl) tols).
End Check.

(* recorded queries against the model's queries: |model - recorded| <= tolQ * (1 + |x_j| + |v|) entry-wise,
   same number of queries, same sizes *)
Definition query_close (tolQ v : Qc) (x qm qr : list Qc) : bool :=
  Nat.eqb (length qm) (length qr) && Nat.eqb (length qm) (length x) &&
  forallb (fun p => Qcleb (Qcabs (fst (fst p) - snd (fst p))) (tolQ * (1 + Qcabs (snd p) + Qcabs v)))
          (combine (combine qm qr) x).
Definition queries_close (tolQ : Qc) (k : kind) (bs : option nat) (nb : nat) (v : Qc) (xs : list (list Qc))
  (mss : list (list (list Qc))) (rec : list (list (list Qc))) : bool :=
  let model := rise_queries k bs nb v xs mss in
  Nat.eqb (length model) (length xs) && Nat.eqb (length rec) (length xs) &&
  forallb (fun p => let '(qms, qrs, x) := p in
             Nat.eqb (length qms) nb && Nat.eqb (length qrs) nb &&
             forallb (fun pq => query_close tolQ v x (fst pq) (snd pq)) (combine qms qrs))
          (combine (combine model rec) xs).

(* magnitude of an F-quad score: sum_c |s_c(x) t_c| >= |fquad ks x t| (what float32 rounds relative to) *)
Definition fmag (ks : list qclass) (x t : list Qc) : Qc :=
  qsum (map2 (fun o tc => Qcabs (o * tc)) (fquad_out ks x) t).
