(* C09/Proofs.v — the executable model of Rise.explain equals the reference weighted average for every batch
   size; constant scores; bounds; the queries. *)
From Xpl Require Import Base.Tensor C09.Spec.
From Coq Require Import Arith Lqa.
Close Scope Qc_scope. Open Scope nat_scope.

(* ---------- general list lemmas (candidates for Base; the first three are those of C06/Proofs.v) ---------- *)
Open Scope Qc_scope.
Lemma vadd_fold_shift vs acc z : vadd acc (fold_left vadd vs z) = fold_left vadd vs (vadd acc z).
Proof. revert z; induction vs as [|u vs IH]; intro z; cbn [fold_left]; [reflexivity|].
  rewrite IH, vadd_assoc. reflexivity. Qed.

Lemma fold_batches_vsum {A} (G : A -> list Qc) n (cs : list (list A)) acc : length acc = n ->
  (forall m, In m (concat cs) -> length (G m) = n) ->
  fold_left (fun a c => vadd a (vsum n (map G c))) cs acc = fold_left vadd (map G (concat cs)) acc.
Proof.
  revert acc; induction cs as [|c cs IH]; intros acc Ha HG; cbn [fold_left concat]; [reflexivity|].
  rewrite map_app, fold_left_app.
  assert (E : vadd acc (vsum n (map G c)) = fold_left vadd (map G c) acc).
  { unfold vsum. rewrite vadd_fold_shift, (vadd_zero_r n) by exact Ha. reflexivity. }
  rewrite E. apply IH.
  - apply fold_vadd_length; [exact Ha|]. intros u Hu. apply in_map_iff in Hu as [m [<- Hm]].
    apply HG. cbn [concat]. apply in_or_app. left; exact Hm.
  - intros m Hm. apply HG. cbn [concat]. apply in_or_app. right; exact Hm.
Qed.

(* a fold over pairs whose components evolve independently is the pair of the folds *)
Lemma fold_left_pair {A B C} (f : A -> C -> A) (g : B -> C -> B) l a b :
  fold_left (fun acc c => (f (fst acc) c, g (snd acc) c)) l (a, b) = (fold_left f l a, fold_left g l b).
Proof. revert a b; induction l as [|c l IH]; intros a b; cbn [fold_left fst snd]; [reflexivity | apply IH]. Qed.

Lemma nth_map2 {A B C} (f : A -> B -> C) a b i da db dc : (i < length a)%nat -> (i < length b)%nat ->
  nth i (map2 f a b) dc = f (nth i a da) (nth i b db).
Proof. revert b i; induction a as [|x a IH]; intros [|y b] i Ha Hb; cbn [length] in *; try lia.
  destruct i; cbn [map2 nth]; [reflexivity | apply IH; lia]. Qed.

(* ---------- masking ---------- *)
Lemma apply_mask_masked k v x m : length x = size k -> length m = npos k ->
  apply_mask (chan k) v x m = masked k v x m.
Proof.
  intros Hx Hm. unfold apply_mask, masked.
  rewrite (rep_flat m (chan k) 0), Hm. fold (size k). rewrite <- Hx.
  rewrite (list_as_seq x 0) at 2. rewrite map2_seq. apply map_ext. intro j. reflexivity.
Qed.

(* ---------- accumulation over the mask batches ---------- *)
Lemma fold_left_ext {A B} (f g : A -> B -> A) l a : (forall x y, f x y = g x y) ->
  fold_left f l a = fold_left g l a.
Proof. intro H. revert a; induction l as [|y l IH]; intro a; cbn [fold_left]; [reflexivity|].
  rewrite H. apply IH. Qed.

Section Main.
Variable score : list Qc -> list Qc -> Qc.

(* what one mask adds to the numerator *)
Definition contrib (k : kind) (v : Qc) (x t m : list Qc) : list Qc :=
  vscale (score (apply_mask (chan k) v x m) t) m.

Lemma rise_fold k B v x t ms : (1 <= B)%nat -> masks_ok k ms ->
  fold_left (rise_step score k v x t) (chunks B ms) (vzero (npos k), vzero (npos k))
  = (vsum (npos k) (map (contrib k v x t) ms), vsum (npos k) ms).
Proof.
  intros HB Hms. set (n := npos k).
  rewrite (fold_left_ext _
             (fun acc c => (vadd (fst acc) (vsum n (map (contrib k v x t) c)),
                            vadd (snd acc) (vsum n (map (fun m => m) c))))).
  2:{ intros acc bm. unfold rise_step. cbv zeta. fold n.
      rewrite map_map, map2_map_l, map2_same, map_id. reflexivity. }
  rewrite (fold_left_pair (fun a c => vadd a (vsum n (map (contrib k v x t) c)))
                          (fun b c => vadd b (vsum n (map (fun m => m) c)))).
  rewrite !(fold_batches_vsum _ n); rewrite ?concat_chunks by exact HB; try apply repeat_length.
  - rewrite map_id. reflexivity.
  - intros m Hm. apply Hms; exact Hm.
  - intros m Hm. unfold contrib, vscale. rewrite map_length. apply Hms; exact Hm.
Qed.

(* the per-input loop over mask batches computes the reference map, whatever the batch size *)
Lemma rise_one_correct k B v x t ms : (1 <= B)%nat -> length x = size k -> masks_ok k ms ->
  rise_one score k B v x t ms = spec_map score k v x t ms.
Proof.
  intros HB Hx Hms. unfold rise_one. cbv zeta. rewrite rise_fold by assumption. cbn [fst snd].
  set (n := npos k).
  assert (HL1 : forall u, In u (map (contrib k v x t) ms) -> length u = n).
  { intros u Hu. apply in_map_iff in Hu as [m [<- Hm]]. unfold contrib, vscale. rewrite map_length. auto. }
  assert (L1 : length (vsum n (map (contrib k v x t) ms)) = n).
  { unfold vsum. apply fold_vadd_length; [apply repeat_length | exact HL1]. }
  assert (L2 : length (vsum n ms) = n).
  { unfold vsum. apply fold_vadd_length; [apply repeat_length | exact Hms]. }
  apply nthq_ext.
  - rewrite map2_length, L1, L2. unfold spec_map. rewrite map_length, seq_length. fold n. lia.
  - intros p Hp. rewrite map2_length, L1, L2, Nat.min_id in Hp.
    unfold nthq at 1. rewrite (nth_map2 _ _ _ _ 0 0) by lia.
    fold (nthq (vsum n (map (contrib k v x t) ms)) p). fold (nthq (vsum n ms) p).
    rewrite !(nthq_vsum n) by assumption.
    unfold spec_map. rewrite (nthq_map _ _ 0%nat) by (rewrite seq_length; exact Hp).
    rewrite seq_nth by exact Hp. cbn [plus]. unfold spec_at, mass. f_equal.
    rewrite map_map. apply qsum_map_ext. intros m Hm. unfold contrib.
    rewrite apply_mask_masked by auto. unfold vscale.
    destruct (Nat.lt_ge_cases p (length m)) as [Hlt|Hge].
    + rewrite (nthq_map _ _ 0) by exact Hlt. reflexivity.
    + rewrite (Hms m Hm) in Hge. fold n in Hge. lia.
Qed.

Theorem rise_correct k bs nb v xs ts mss : bs_ok bs -> (1 <= nb)%nat ->
  (forall x, In x xs -> length x = size k) -> (forall ms, In ms mss -> masks_ok k ms) ->
  rise score k bs nb v xs ts mss = spec_rise score k v xs ts mss.
Proof.
  intros Hbs Hnb Hxs Hmss. unfold rise, spec_rise. cbv zeta.
  assert (HB : (1 <= eff_bs bs nb)%nat) by (destruct bs; cbn in *; lia).
  apply map_ext_in. intros [[x t] ms] Hin. cbn [fst snd].
  apply rise_one_correct; [exact HB | |].
  - apply Hxs. apply in_combine_l in Hin. apply in_combine_l in Hin. exact Hin.
  - apply Hmss. apply in_combine_r in Hin. exact Hin.
Qed.

(* batch_size only bounds memory *)
Corollary rise_batch_invariant k bs bs' nb v xs ts mss : bs_ok bs -> bs_ok bs' -> (1 <= nb)%nat ->
  (forall x, In x xs -> length x = size k) -> (forall ms, In ms mss -> masks_ok k ms) ->
  rise score k bs nb v xs ts mss = rise score k bs' nb v xs ts mss.
Proof. intros. rewrite !rise_correct by assumption. reflexivity. Qed.

Lemma rise_length k bs nb v xs ts mss : length xs = length ts -> length xs = length mss ->
  length (rise score k bs nb v xs ts mss) = length xs.
Proof. intros H1 H2. unfold rise. cbv zeta. rewrite map_length, !combine_length. lia. Qed.

Lemma spec_map_length k v x t ms : length (spec_map score k v x t ms) = npos k.
Proof. unfold spec_map. rewrite map_length, seq_length. reflexivity. Qed.
End Main.

(* ---------- order lemmas (candidates for Base/Qcx.v) ---------- *)
Lemma eps_pos : 0 < eps.
Proof. reflexivity. Qed.

Lemma Qcinv_nonneg d : 0 <= d -> 0 <= / d.
Proof. intro H. qc2q. apply Qinv_le_0_compat. exact H. Qed.

Lemma Qcdiv_le_compat a b d : a <= b -> 0 <= d -> a / d <= b / d.
Proof. intros Hab Hd. unfold Qcdiv. apply Qcmult_le_compat_r; [exact Hab | apply Qcinv_nonneg; exact Hd]. Qed.

Lemma qsum_nonneg {A} (w : A -> Qc) l : (forall a, In a l -> 0 <= w a) -> 0 <= qsum (map w l).
Proof.
  induction l as [|a l IH]; intro H; cbn [map qsum]; [apply Qcle_refl|].
  assert (H1 : 0 <= w a) by (apply H; left; reflexivity).
  assert (H2 : 0 <= qsum (map w l)) by (apply IH; intros b Hb; apply H; right; exact Hb).
  qc2q. lra.
Qed.

(* a weighted sum with non-negative weights lies between lo * (sum of weights) and hi * (sum of weights) *)
Lemma wsum_bounds {A} (f w : A -> Qc) l lo hi :
  (forall a, In a l -> lo <= f a /\ f a <= hi) -> (forall a, In a l -> 0 <= w a) ->
  lo * qsum (map w l) <= qsum (map (fun a => f a * w a) l) /\
  qsum (map (fun a => f a * w a) l) <= hi * qsum (map w l).
Proof.
  induction l as [|a l IH]; intros Hf Hw; cbn [map qsum].
  - split; qc2q; lra.
  - destruct (Hf a (or_introl eq_refl)) as [Hlo Hhi].
    pose proof (Hw a (or_introl eq_refl)) as Hwa.
    destruct IH as [I1 I2];
      [intros b Hb; apply Hf; right; exact Hb | intros b Hb; apply Hw; right; exact Hb |].
    split; qc2q; nra.
Qed.

Lemma Qcmin_le_l x y : Qcmin x y <= x.
Proof. unfold Qcmin. destruct (Qclt_le_dec y x) as [H|H]; [apply Qclt_le_weak; exact H | apply Qcle_refl]. Qed.
Lemma Qcmin_le_r x y : Qcmin x y <= y.
Proof. unfold Qcmin. destruct (Qclt_le_dec y x) as [H|H]; [apply Qcle_refl | exact H]. Qed.
Lemma Qcmin_cases x y : Qcmin x y = x \/ Qcmin x y = y.
Proof. unfold Qcmin. destruct (Qclt_le_dec y x); auto. Qed.
Lemma Qcmax_ge_l x y : x <= Qcmax x y.
Proof. unfold Qcmax. destruct (Qclt_le_dec x y) as [H|H]; [apply Qclt_le_weak; exact H | apply Qcle_refl]. Qed.
Lemma Qcmax_ge_r x y : y <= Qcmax x y.
Proof. unfold Qcmax. destruct (Qclt_le_dec x y) as [H|H]; [apply Qcle_refl | exact H]. Qed.
Lemma Qcmax_cases x y : Qcmax x y = x \/ Qcmax x y = y.
Proof. unfold Qcmax. destruct (Qclt_le_dec x y); auto. Qed.

Lemma qmin_list_le a l b : In b (a :: l) -> qmin_list a l <= b.
Proof.
  revert a; induction l as [|c l IH]; intros a Hb; cbn [qmin_list].
  - destruct Hb as [<-|[]]. apply Qcle_refl.
  - destruct Hb as [<-|Hb]; [apply Qcmin_le_l|].
    eapply Qcle_trans; [apply Qcmin_le_r | apply IH; exact Hb].
Qed.
Lemma qmin_list_in a l : In (qmin_list a l) (a :: l).
Proof.
  revert a; induction l as [|c l IH]; intro a; cbn [qmin_list]; [left; reflexivity|].
  destruct (Qcmin_cases a (qmin_list c l)) as [->| ->]; [left; reflexivity | right; apply IH].
Qed.
Lemma qmax_list_ge a l b : In b (a :: l) -> b <= qmax_list a l.
Proof.
  revert a; induction l as [|c l IH]; intros a Hb; cbn [qmax_list].
  - destruct Hb as [<-|[]]. apply Qcle_refl.
  - destruct Hb as [<-|Hb]; [apply Qcmax_ge_l|].
    eapply Qcle_trans; [apply IH; exact Hb | apply Qcmax_ge_r].
Qed.
Lemma qmax_list_in a l : In (qmax_list a l) (a :: l).
Proof.
  revert a; induction l as [|c l IH]; intro a; cbn [qmax_list]; [left; reflexivity|].
  destruct (Qcmax_cases a (qmax_list c l)) as [->| ->]; [left; reflexivity | right; apply IH].
Qed.

Lemma qmin_of_le l b : In b l -> qmin_of l <= b.
Proof. destruct l as [|a l]; [intros []|]. apply qmin_list_le. Qed.
Lemma qmax_of_ge l b : In b l -> b <= qmax_of l.
Proof. destruct l as [|a l]; [intros []|]. apply qmax_list_ge. Qed.
Lemma qmin_of_in l : l <> [] -> In (qmin_of l) l.
Proof. destruct l as [|a l]; [congruence|]. intros _. apply qmin_list_in. Qed.
Lemma qmax_of_in l : l <> [] -> In (qmax_of l) l.
Proof. destruct l as [|a l]; [congruence|]. intros _. apply qmax_list_in. Qed.

(* ---------- consequences ---------- *)
Section Consequences.
Variable score : list Qc -> list Qc -> Qc.

(* a constant score c gives c * D / (D + eps) at every position *)
Lemma spec_const k v x t ms c p : (forall o, score o t = c) ->
  spec_at score k v x t ms p = c * mass ms p / (mass ms p + eps).
Proof.
  intro H. unfold spec_at. f_equal. unfold mass. rewrite <- qsum_map_scale.
  apply qsum_map_ext. intros m _. rewrite H. reflexivity.
Qed.

Theorem rise_const k B v x t ms c : (1 <= B)%nat -> length x = size k -> masks_ok k ms ->
  (forall o, score o t = c) ->
  rise_one score k B v x t ms = map (fun p => c * mass ms p / (mass ms p + eps)) (seq 0 (npos k)).
Proof.
  intros HB Hx Hms Hc. rewrite rise_one_correct by assumption. unfold spec_map.
  apply map_ext. intro p. apply spec_const. exact Hc.
Qed.

(* up to epsilon the constant is returned: c - map = c * eps / (D + eps) *)
Lemma const_gap c D : 0 <= D -> c - c * D / (D + eps) = c * eps / (D + eps).
Proof.
  intro HD. assert (D + eps <> 0).
  { intro E. pose proof eps_pos as He. qc2q. lra. }
  field. exact H.
Qed.

(* the map lies between the smallest and the largest evaluated score, times D / (D + eps) *)
Lemma spec_bounds k v x t ms p lo hi :
  (forall m, In m ms -> 0 <= nthq m p) ->
  (forall s, In s (evaluated score k v x t ms) -> lo <= s /\ s <= hi) ->
  lo * mass ms p / (mass ms p + eps) <= spec_at score k v x t ms p /\
  spec_at score k v x t ms p <= hi * mass ms p / (mass ms p + eps).
Proof.
  intros Hm Hs. unfold spec_at, mass.
  assert (HD : 0 <= qsum (map (fun m => nthq m p) ms)) by (apply qsum_nonneg; exact Hm).
  assert (HDe : 0 <= qsum (map (fun m => nthq m p) ms) + eps).
  { pose proof eps_pos as He. qc2q. lra. }
  destruct (wsum_bounds (fun m => score (masked k v x m) t) (fun m => nthq m p) ms lo hi) as [B1 B2].
  - intros m Hin. apply Hs. unfold evaluated. apply in_map_iff. exists m. split; [reflexivity | exact Hin].
  - exact Hm.
  - split; apply Qcdiv_le_compat; assumption.
Qed.

Theorem rise_bounds_gen k B v x t ms p lo hi : (1 <= B)%nat -> length x = size k -> masks_ok k ms ->
  (p < npos k)%nat -> (forall m, In m ms -> 0 <= nthq m p) ->
  (forall s, In s (evaluated score k v x t ms) -> lo <= s /\ s <= hi) ->
  lo * mass ms p / (mass ms p + eps) <= nthq (rise_one score k B v x t ms) p /\
  nthq (rise_one score k B v x t ms) p <= hi * mass ms p / (mass ms p + eps).
Proof.
  intros HB Hx Hms Hp Hm Hs. rewrite rise_one_correct by assumption. unfold spec_map.
  rewrite (nthq_map _ _ 0%nat) by (rewrite seq_length; exact Hp).
  rewrite seq_nth by exact Hp. cbn [plus]. apply spec_bounds; assumption.
Qed.

Theorem rise_bounds k B v x t ms p : (1 <= B)%nat -> length x = size k -> masks_ok k ms ->
  (p < npos k)%nat -> (forall m, In m ms -> 0 <= nthq m p) ->
  qmin_of (evaluated score k v x t ms) * mass ms p / (mass ms p + eps) <= nthq (rise_one score k B v x t ms) p /\
  nthq (rise_one score k B v x t ms) p <= qmax_of (evaluated score k v x t ms) * mass ms p / (mass ms p + eps).
Proof.
  intros HB Hx Hms Hp Hm. apply rise_bounds_gen; try assumption.
  intros s Hs. split; [apply qmin_of_le | apply qmax_of_ge]; exact Hs.
Qed.

(* the bounds are attained by evaluated scores: min and max belong to the list (nb >= 1) *)
Lemma evaluated_min_max_in k v x t ms : ms <> [] ->
  In (qmin_of (evaluated score k v x t ms)) (evaluated score k v x t ms) /\
  In (qmax_of (evaluated score k v x t ms)) (evaluated score k v x t ms).
Proof.
  intro H. assert (evaluated score k v x t ms <> []).
  { unfold evaluated. destruct ms; [congruence | discriminate]. }
  split; [apply qmin_of_in | apply qmax_of_in]; assumption.
Qed.
End Consequences.

(* ---------- the queries ---------- *)
Lemma rise_queries_one_correct k B v x ms : (1 <= B)%nat -> length x = size k -> masks_ok k ms ->
  rise_queries_one k B v x ms = map (masked k v x) ms.
Proof.
  intros HB Hx Hms. unfold rise_queries_one. rewrite map_chunks by exact HB.
  apply map_ext_in. intros m Hm. apply apply_mask_masked; auto.
Qed.

Theorem rise_queries_correct k bs nb v xs mss : bs_ok bs -> (1 <= nb)%nat ->
  (forall x, In x xs -> length x = size k) -> (forall ms, In ms mss -> masks_ok k ms) ->
  rise_queries k bs nb v xs mss = map (fun xm => map (masked k v (fst xm)) (snd xm)) (combine xs mss).
Proof.
  intros Hbs Hnb Hxs Hmss. unfold rise_queries.
  assert (HB : (1 <= eff_bs bs nb)%nat) by (destruct bs; cbn in *; lia).
  apply map_ext_in. intros [x ms] Hin. cbn [fst snd]. apply rise_queries_one_correct; [exact HB | |].
  - apply Hxs. apply in_combine_l in Hin. exact Hin.
  - apply Hmss. apply in_combine_r in Hin. exact Hin.
Qed.

(* exactly one query per mask *)
Lemma rise_queries_count k B v x ms : (1 <= B)%nat -> length x = size k -> masks_ok k ms ->
  length (rise_queries_one k B v x ms) = length ms.
Proof. intros. rewrite rise_queries_one_correct by assumption. apply map_length. Qed.

(* each query is m*x + (1-m)*v entry-wise, entry j reading the mask at position j / c: all the channels of a
   pixel share one mask value; the query has the input's size *)
Lemma masked_nth k v x m j : (j < length x)%nat ->
  nthq (masked k v x m) j = nthq m (j / chan k) * nthq x j + (1 - nthq m (j / chan k)) * v.
Proof.
  intro Hj. unfold masked. rewrite (nthq_map _ _ 0%nat) by (rewrite seq_length; exact Hj).
  rewrite seq_nth by exact Hj. reflexivity.
Qed.
Lemma masked_length k v x m : length (masked k v x m) = length x.
Proof. unfold masked. rewrite map_length, seq_length. reflexivity. Qed.

(* ---------- the crop exists ---------- *)
Close Scope Qc_scope. Open Scope nat_scope.
Lemma upsampled_size H h : 1 <= h ->
  H <= upsampled H h /\ (h <= H -> H + 1 <= upsampled H h) /\ upsampled H h <= 2 * H.
Proof.
  intro Hh. unfold upsampled. repeat split; [lia | |].
  - intro Hle. assert (0 < H / h) by (apply Nat.div_str_pos; lia). lia.
  - assert (H / h <= H) by (apply Nat.div_le_upper_bound; nia). lia.
Qed.

(* ---------- statements in the property's own words (used by Props/C09.v) ---------- *)
Open Scope Qc_scope.
Theorem rise_correct_explicit (score : list Qc -> list Qc -> Qc) k bs nb v xs ts mss :
  bs_ok bs -> (1 <= nb)%nat ->
  (forall x, In x xs -> length x = size k) -> (forall ms, In ms mss -> masks_ok k ms) ->
  rise score k bs nb v xs ts mss
  = map (fun xtm => let '(x, t, ms) := xtm in
           map (fun p => qsum (map (fun m => score (masked k v x m) t * nthq m p) ms)
                         / (qsum (map (fun m => nthq m p) ms) + eps)) (seq 0 (npos k)))
        (combine (combine xs ts) mss).
Proof.
  intros. rewrite rise_correct by assumption. unfold spec_rise. apply map_ext. intros [[x t] ms]. reflexivity.
Qed.

Theorem min_max_evaluated (score : list Qc -> list Qc -> Qc) k v x t ms : ms <> [] ->
  let ev := evaluated score k v x t ms in
  In (qmin_of ev) ev /\ In (qmax_of ev) ev /\ (forall s, In s ev -> qmin_of ev <= s /\ s <= qmax_of ev).
Proof.
  intros H ev. destruct (evaluated_min_max_in score k v x t ms H) as [H1 H2].
  repeat split; [exact H1 | exact H2 | apply qmin_of_le; assumption | apply qmax_of_ge; assumption].
Qed.
