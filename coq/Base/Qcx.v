(* Qcx.v — canonical rationals: literals, sums, order goals sent to lra/nra on Q *)
From Coq Require Export QArith Qcanon List Lia ZArith Bool.
From Coq Require Import Lqa.
Export ListNotations.
Open Scope Qc_scope.

(* exact literal used by the harness: q n d = n/d *)
Definition q (n : Z) (d : positive) : Qc := Q2Qc (n # d).
Definition qz (n : Z) : Qc := Q2Qc (n # 1).
Definition qn (n : nat) : Qc := Q2Qc (Z.of_nat n # 1).
Definition two : Qc := Q2Qc 2.
Definition half : Qc := q 1 2.

Definition b2q (b : bool) : Qc := if b then 1 else 0.

Definition Qcabs (x : Qc) : Qc := if Qclt_le_dec x 0 then - x else x.
Definition Qcmax (x y : Qc) : Qc := if Qclt_le_dec x y then y else x.
Definition Qcmin (x y : Qc) : Qc := if Qclt_le_dec y x then y else x.
Definition Qcleb (x y : Qc) : bool := if Qclt_le_dec y x then false else true.
Definition Qcltb (x y : Qc) : bool := if Qclt_le_dec x y then true else false.
Definition Qceqb (x y : Qc) : bool := if Qc_eq_dec x y then true else false.

Lemma Qceqb_eq x y : Qceqb x y = true <-> x = y.
Proof. unfold Qceqb; destruct (Qc_eq_dec x y); split; congruence. Qed.
Lemma Qcleb_le x y : Qcleb x y = true <-> x <= y.
Proof. unfold Qcleb; destruct (Qclt_le_dec y x) as [H|H]; split; intro K; auto; try discriminate.
  exfalso; eapply Qclt_not_le; eauto. Qed.
Lemma Qcltb_lt x y : Qcltb x y = true <-> x < y.
Proof. unfold Qcltb; destruct (Qclt_le_dec x y) as [H|H]; split; intro K; auto; try discriminate.
  exfalso; eapply Qclt_not_le; eauto. Qed.

Fixpoint qsum (l : list Qc) : Qc := match l with [] => 0 | x :: r => x + qsum r end.

Lemma qsum_app a b : qsum (a ++ b) = qsum a + qsum b.
Proof. induction a as [|x a IH]; simpl; [ring | rewrite IH; ring]. Qed.
Lemma qsum_map_scale {A} (f : A -> Qc) c l : qsum (map (fun x => c * f x) l) = c * qsum (map f l).
Proof. induction l as [|x l IH]; simpl; [ring | rewrite IH; ring]. Qed.
Lemma qsum_map_add {A} (f g : A -> Qc) l :
  qsum (map (fun x => f x + g x) l) = qsum (map f l) + qsum (map g l).
Proof. induction l as [|x l IH]; simpl; [ring | rewrite IH; ring]. Qed.
Lemma qsum_map_ext {A} (f g : A -> Qc) l : (forall x, In x l -> f x = g x) ->
  qsum (map f l) = qsum (map g l).
Proof. intro H; f_equal; apply map_ext_in; exact H. Qed.
Lemma qsum_zero {A} (l : list A) : qsum (map (fun _ => 0) l) = 0.
Proof. induction l as [|x l IH]; simpl; [reflexivity | rewrite IH; ring]. Qed.
Lemma qsum_concat ll : qsum (concat ll) = qsum (map qsum ll).
Proof. induction ll as [|l ll IH]; simpl; [reflexivity | rewrite qsum_app, IH; reflexivity]. Qed.

(* ---- order goals: Qc -> Q, then lra / nra ---- *)
Lemma Qc_le_iff (x y : Qc) : x <= y <-> (x <= y)%Q.  Proof. reflexivity. Qed.
Lemma Qc_lt_iff (x y : Qc) : x < y <-> (x < y)%Q.  Proof. reflexivity. Qed.
Lemma Qc_eq_iff (x y : Qc) : x = y <-> (x == y)%Q.
Proof. split; [intros ->; reflexivity | apply Qc_is_canon]. Qed.

Lemma Qc_plus_q (x y : Qc) : (this (x + y) == this x + this y)%Q.
Proof. unfold Qcplus, Q2Qc; cbn [this]; apply Qred_correct. Qed.
Lemma Qc_mult_q (x y : Qc) : (this (x * y) == this x * this y)%Q.
Proof. unfold Qcmult, Q2Qc; cbn [this]; apply Qred_correct. Qed.
Lemma Qc_opp_q (x : Qc) : (this (- x) == - this x)%Q.
Proof. unfold Qcopp, Q2Qc; cbn [this]; apply Qred_correct. Qed.
Lemma Qc_minus_q (x y : Qc) : (this (x - y) == this x - this y)%Q.
Proof. unfold Qcminus; rewrite Qc_plus_q, Qc_opp_q; reflexivity. Qed.
Lemma Qc_inv_q (x : Qc) : (this (/ x) == / this x)%Q.
Proof. unfold Qcinv, Q2Qc; cbn [this]; apply Qred_correct. Qed.
Lemma Qc_div_q (x y : Qc) : (this (x / y) == this x / this y)%Q.
Proof. unfold Qcdiv; rewrite Qc_mult_q, Qc_inv_q; reflexivity. Qed.
Lemma Qc_Q2Qc_q (x : Q) : (this (Q2Qc x) == x)%Q.
Proof. unfold Q2Qc; cbn [this]; apply Qred_correct. Qed.

(* [qc2q]: rewrite every Qc operation in hypotheses and goal into Q operations on [this _] *)
Ltac qc2q_rw_in H :=
  repeat (first [ rewrite Qc_plus_q in H | rewrite Qc_minus_q in H | rewrite Qc_mult_q in H
                | rewrite Qc_opp_q in H | rewrite Qc_div_q in H | rewrite Qc_inv_q in H
                | rewrite Qc_Q2Qc_q in H ]).
Ltac qc2q_rw :=
  repeat (first [ rewrite Qc_plus_q | rewrite Qc_minus_q | rewrite Qc_mult_q
                | rewrite Qc_opp_q | rewrite Qc_div_q | rewrite Qc_inv_q
                | rewrite Qc_Q2Qc_q ]).
Ltac qc2q_hyps :=
  repeat match goal with
  | H : @eq Qc ?x ?y |- _ => apply (proj1 (Qc_eq_iff x y)) in H; qc2q_rw_in H
  | H : Qcle ?x ?y |- _ => change (Qle (this x) (this y)) in H; qc2q_rw_in H
  | H : Qclt ?x ?y |- _ => change (Qlt (this x) (this y)) in H; qc2q_rw_in H
  | H : ~ @eq Qc ?x ?y |- _ => rewrite (Qc_eq_iff x y) in H; qc2q_rw_in H
  end.
Ltac qc2q_goal :=
  try match goal with
  | |- @eq Qc ?x ?y => apply (proj2 (Qc_eq_iff x y))
  | |- Qcle ?x ?y => change (Qle (this x) (this y))
  | |- Qclt ?x ?y => change (Qlt (this x) (this y))
  | |- ~ @eq Qc ?x ?y => rewrite (Qc_eq_iff x y)
  end; qc2q_rw.
Ltac qc2q := qc2q_hyps; qc2q_goal.

Lemma Qcabs_nonneg x : 0 <= Qcabs x.
Proof. unfold Qcabs; destruct (Qclt_le_dec x 0) as [H|H]; [|exact H].
  apply Qclt_le_weak in H. rewrite <- (Qcopp_involutive 0). apply Qcopp_le_compat. exact H. Qed.
