(* Families.v — executable score families mirrored by NumPy / TF / torch models in the harness *)
From Xpl Require Export Base.ListX.
Open Scope Qc_scope.

(* verdict helper for generated case files: indices of the cases that are false *)
Fixpoint failing_from (i : nat) (l : list bool) : list nat :=
  match l with [] => [] | b :: r => if b then failing_from (S i) r else i :: failing_from (S i) r end.
Definition failing := failing_from 0.

Fixpoint list_eqb {A} (eqb : A -> A -> bool) (a b : list A) : bool :=
  match a, b with
  | [], [] => true
  | x :: a', y :: b' => eqb x y && list_eqb eqb a' b'
  | _, _ => false
  end.
Definition qlist_eqb := list_eqb Qceqb.
Definition qlist2_eqb := list_eqb qlist_eqb.

Lemma list_eqb_eq {A} (eqb : A -> A -> bool) (H : forall x y, eqb x y = true <-> x = y) a b :
  list_eqb eqb a b = true <-> a = b.
Proof. revert b; induction a as [|x a IH]; intros [|y b]; simpl; split; intro K; try discriminate; auto.
  - apply andb_true_iff in K as [K1 K2]. apply H in K1. apply IH in K2. congruence.
  - injection K as -> ->. apply andb_true_iff; split; [apply H | apply IH]; reflexivity. Qed.

(* |a - b| <= tol * scale *)
Definition qclose (tol scale a b : Qc) : bool := Qcleb (Qcabs (a - b)) (tol * scale).
Definition qlist_close (tol : Qc) (scale : Qc) (a b : list Qc) : bool :=
  Nat.eqb (length a) (length b) && forallb (fun p => qclose tol scale (fst p) (snd p)) (combine a b).

(* dump helper: numerators / denominators *)
Definition qdump (x : Qc) : Z * positive := (Qnum (this x), Qden (this x)).

(* F-quad: per class c, s_c(x) = b + <W,x> + <V, x*x> + sum_{(i,j,k)} k x_i x_j ;
   the explained score is sum_c t_c s_c(x)  (predictions operator, real-valued targets) *)
Record qclass := { qb : Qc; qW : list Qc; qV : list Qc; qX : list (nat * nat * Qc) }.
Definition cross_term (x : list Qc) (e : nat * nat * Qc) : Qc :=
  let '(i, j, k) := e in k * nthq x i * nthq x j.
Definition class_score (k : qclass) (x : list Qc) : Qc :=
  qb k + dot (qW k) x + dot (qV k) (vmul x x) + qsum (map (cross_term x) (qX k)).
Definition fquad_out (ks : list qclass) (x : list Qc) : list Qc := map (fun k => class_score k x) ks.
Definition fquad (ks : list qclass) (x t : list Qc) : Qc := dot (fquad_out ks x) t.

(* closed-form gradient of fquad with respect to x (proved to be the derivative in C01/Proofs.v) *)
Definition cross_grad (x : list Qc) (i : nat) (e : nat * nat * Qc) : Qc :=
  let '(a, b, k) := e in
  (if Nat.eqb a i then k * nthq x b else 0) + (if Nat.eqb b i then k * nthq x a else 0).
Definition class_grad (k : qclass) (x : list Qc) : list Qc :=
  map (fun i => nthq (qW k) i + two * nthq (qV k) i * nthq x i + qsum (map (cross_grad x i) (qX k)))
      (seq 0 (length x)).
Definition fquad_grad (ks : list qclass) (x t : list Qc) : list Qc :=
  fold_left vadd (map2 (fun k tc => vscale tc (class_grad k x)) ks t) (vzero (length x)).
