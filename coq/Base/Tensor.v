(* Tensor.v — row-major index arithmetic: grids as flat lists, repetition along the last axis *)
From Xpl Require Export Base.ListX.
From Coq Require Import Arith.
Close Scope Qc_scope. Open Scope nat_scope.

Lemma seq_shift_map s n : seq s n = map (fun j => s + j) (seq 0 n).
Proof. revert s; induction n as [|n IH]; intro s; cbn [seq map]; [reflexivity|].
  f_equal; [lia|]. rewrite (IH (S s)), (IH 1). rewrite map_map. apply map_ext; intro; lia. Qed.

(* a row-major (h, w) grid enumerated row by row is the flat enumeration with (pos / w, pos mod w) *)
Lemma grid_flat {A} (f : nat -> nat -> A) h w :
  flat_map (fun i => map (f i) (seq 0 w)) (seq 0 h)
  = map (fun pos => f (pos / w) (pos mod w)) (seq 0 (h * w)).
Proof.
  induction h as [|h IH]; [reflexivity|].
  rewrite seq_S, flat_map_app, IH. cbn [flat_map plus]. rewrite app_nil_r.
  replace (S h * w) with (h * w + w) by lia. rewrite seq_app, map_app. f_equal.
  cbn [plus]. rewrite (seq_shift_map (h * w) w), map_map. apply map_ext_in.
  intros j Hj. apply in_seq in Hj. assert (w <> 0) by lia.
  rewrite (Nat.add_comm (h * w) j), Nat.div_add, Nat.mod_add by assumption.
  rewrite Nat.div_small, Nat.mod_small by lia. reflexivity.
Qed.

Lemma list_as_seq {A} (l : list A) d : l = map (fun i => nth i l d) (seq 0 (length l)).
Proof. induction l as [|x l IH]; [reflexivity|]. cbn [length seq map nth]. f_equal.
  rewrite <- seq_shift, map_map. exact IH. Qed.

Lemma repeat_as_seq {A} (x : A) c : repeat x c = map (fun _ => x) (seq 0 c).
Proof. induction c as [|c IH]; [reflexivity|]. cbn [repeat seq map]. f_equal.
  rewrite <- seq_shift, map_map. exact IH. Qed.

(* tf.repeat(m, c, axis=-1) on flat data: flat index k reads position k / c *)
Lemma rep_flat {A} (m : list A) c d :
  rep c m = map (fun k => nth (k / c) m d) (seq 0 (length m * c)).
Proof.
  unfold rep. rewrite (list_as_seq m d) at 1. rewrite flat_map_concat_map, map_map.
  rewrite <- flat_map_concat_map.
  rewrite (flat_map_ext _ (fun i => map (fun _ => nth i m d) (seq 0 c)))
    by (intro; apply repeat_as_seq).
  apply (grid_flat (fun i _ => nth i m d)).
Qed.

Lemma map2_seq {A B C} (f : A -> B -> C) (g : nat -> A) (k : nat -> B) n :
  map2 f (map g (seq 0 n)) (map k (seq 0 n)) = map (fun i => f (g i) (k i)) (seq 0 n).
Proof. rewrite map2_map_l, map2_map_r, map2_same. reflexivity. Qed.

Lemma nth_map_seq {A} (f : nat -> A) n i d : i < n -> nth i (map f (seq 0 n)) d = f i.
Proof. intro H. rewrite (nth_indep _ d (f 0)) by (rewrite map_length, seq_length; exact H).
  rewrite map_nth with (d := 0). rewrite seq_nth by exact H. reflexivity. Qed.
