(* ListX.v — batching (chunks), repetition, element-wise vector operations on lists *)
From Xpl Require Export Base.Qcx.
From Coq Require Import Arith.
Close Scope Qc_scope.
Open Scope nat_scope.

Section Chunks.
Context {A : Type}.

(* dataset.batch(b) / batch_tensor: consecutive slices of at most b elements *)
Fixpoint chunks_fuel (fuel b : nat) (l : list A) : list (list A) :=
  match fuel with
  | O => []
  | S f => match l with
           | [] => []
           | _ => firstn b l :: chunks_fuel f b (skipn b l)
           end
  end.
Definition chunks (b : nat) (l : list A) : list (list A) := chunks_fuel (length l) b l.

Lemma concat_chunks_fuel fuel b l : 1 <= b -> length l <= fuel ->
  concat (chunks_fuel fuel b l) = l.
Proof.
  revert l; induction fuel as [|f IH]; intros l Hb Hl.
  - destruct l; [reflexivity | cbn [length] in Hl; lia].
  - destruct l as [|x l]; [reflexivity|].
    cbn [chunks_fuel concat]. rewrite IH; [apply firstn_skipn | exact Hb |].
    rewrite skipn_length. cbn [length] in *. lia.
Qed.

Lemma concat_chunks b l : 1 <= b -> concat (chunks b l) = l.
Proof. intro Hb; apply concat_chunks_fuel; [exact Hb | lia]. Qed.

Lemma chunks_fuel_enough fuel fuel' b l : 1 <= b -> length l <= fuel -> length l <= fuel' ->
  chunks_fuel fuel b l = chunks_fuel fuel' b l.
Proof.
  revert fuel' l; induction fuel as [|f IH]; intros fuel' l Hb H1 H2.
  - destruct l; [destruct fuel'; reflexivity | cbn [length] in H1; lia].
  - destruct l as [|x l]; [destruct fuel'; reflexivity|].
    destruct fuel' as [|f']; [cbn [length] in H2; lia|].
    cbn [chunks_fuel]. f_equal. apply IH; [exact Hb | |]; rewrite skipn_length; cbn [length] in *; lia.
Qed.

Lemma chunks_nil b : chunks b [] = [].
Proof. reflexivity. Qed.

Lemma chunks_cons_step b l : 1 <= b -> l <> [] -> chunks b l = firstn b l :: chunks b (skipn b l).
Proof.
  intros Hb Hl. unfold chunks. destruct l as [|x l]; [congruence|].
  cbn [length chunks_fuel]. f_equal. apply chunks_fuel_enough; [exact Hb | |lia].
  rewrite skipn_length. cbn [length]; lia.
Qed.

(* induction principle following the batches *)
Lemma chunks_ind (P : list A -> Prop) b : 1 <= b ->
  P [] -> (forall l, l <> [] -> P (skipn b l) -> P l) -> forall l, P l.
Proof.
  intros Hb H0 Hs l. remember (length l) as n eqn:Hn. revert l Hn.
  induction n as [n IH] using lt_wf_ind. intros l Hn.
  destruct l as [|x l]; [exact H0|]. apply Hs; [congruence|].
  eapply IH; [|reflexivity]. rewrite skipn_length. subst n. cbn [length]; lia.
Qed.

Lemma chunks_all_small b l c : 1 <= b -> In c (chunks b l) -> length c <= b /\ c <> [].
Proof.
  intros Hb. revert c. pattern l. apply (chunks_ind _ b Hb); clear l.
  - intros c [].
  - intros l Hl IH c Hc. rewrite chunks_cons_step in Hc by assumption.
    destruct Hc as [<-|Hc]; [|auto]. split; [rewrite firstn_length; lia|].
    destruct l; [congruence|]. destruct b; [lia|]. discriminate.
Qed.

Lemma chunks_whole b l : length l <= b -> l <> [] -> chunks b l = [l].
Proof.
  intros Hb Hl. assert (1 <= b) by (destruct l; [congruence | cbn [length] in Hb; lia]).
  rewrite chunks_cons_step by assumption. rewrite firstn_all2 by exact Hb.
  rewrite skipn_all2 by exact Hb. reflexivity.
Qed.
End Chunks.

(* a row-wise function evaluated batch by batch gives the same list as evaluated at once *)
Lemma map_chunks {A B} (f : A -> B) b l : 1 <= b ->
  concat (map (map f) (chunks b l)) = map f l.
Proof.
  intro Hb. rewrite <- concat_map. rewrite concat_chunks by exact Hb. reflexivity.
Qed.

(* the same for ANY batch function that is row-wise on every batch it is given *)
Lemma batched_rowwise {A B} (F : list A -> list B) (f : A -> B) b l : 1 <= b ->
  (forall c, F c = map f c) -> concat (map F (chunks b l)) = map f l.
Proof.
  intros Hb HF. rewrite (map_ext F (map f) HF). apply map_chunks; exact Hb.
Qed.

Lemma chunks_batch_invariant {A B} (f : A -> B) b b' l : 1 <= b -> 1 <= b' ->
  concat (map (map f) (chunks b l)) = concat (map (map f) (chunks b' l)).
Proof. intros; rewrite !map_chunks by assumption; reflexivity. Qed.

(* Python: batch_size or len(x) *)
Definition eff_bs (bs : option nat) (n : nat) : nat := match bs with Some b => b | None => n end.

(* tf.repeat(l, n, axis=0): each element n times, consecutively *)
Definition rep {A} (n : nat) (l : list A) : list A := flat_map (fun x => repeat x n) l.
(* tf.tile(l, n): the whole list n times *)
Definition tile {A} (n : nat) (l : list A) : list A := concat (repeat l n).

Lemma rep_length {A} n (l : list A) : length (rep n l) = (length l * n)%nat.
Proof. unfold rep. induction l as [|x l IH]; simpl; [reflexivity|].
  rewrite app_length, repeat_length, IH. lia. Qed.

(* element-wise operations *)
Fixpoint map2 {A B C} (f : A -> B -> C) (a : list A) (b : list B) : list C :=
  match a, b with x :: a', y :: b' => f x y :: map2 f a' b' | _, _ => [] end.

Lemma map2_length {A B C} (f : A -> B -> C) a b : length (map2 f a b) = Nat.min (length a) (length b).
Proof. revert b; induction a as [|x a IH]; intros [|y b]; simpl; auto. Qed.

Lemma map2_combine {A B C} (f : A -> B -> C) a b : map2 f a b = map (fun p => f (fst p) (snd p)) (combine a b).
Proof. revert b; induction a as [|x a IH]; intros [|y b]; simpl; auto. f_equal; apply IH. Qed.

Lemma map2_map_l {A A' B C} (f : A' -> B -> C) (g : A -> A') a b :
  map2 f (map g a) b = map2 (fun x y => f (g x) y) a b.
Proof. revert b; induction a as [|x a IH]; intros [|y b]; simpl; auto. f_equal; apply IH. Qed.
Lemma map2_map_r {A B B' C} (f : A -> B' -> C) (g : B -> B') a b :
  map2 f a (map g b) = map2 (fun x y => f x (g y)) a b.
Proof. revert b; induction a as [|x a IH]; intros [|y b]; simpl; auto. f_equal; apply IH. Qed.
Lemma map_map2 {A B C D} (g : C -> D) (f : A -> B -> C) a b :
  map g (map2 f a b) = map2 (fun x y => g (f x y)) a b.
Proof. revert b; induction a as [|x a IH]; intros [|y b]; simpl; auto. f_equal; apply IH. Qed.
Lemma map2_ext {A B C} (f g : A -> B -> C) a b : (forall x y, f x y = g x y) -> map2 f a b = map2 g a b.
Proof. intro H; revert b; induction a as [|x a IH]; intros [|y b]; simpl; auto. rewrite H, IH; reflexivity. Qed.
Lemma map2_same {A C} (f : A -> A -> C) a : map2 f a a = map (fun x => f x x) a.
Proof. induction a as [|x a IH]; simpl; auto. f_equal; exact IH. Qed.

Open Scope Qc_scope.

Definition vadd (a b : list Qc) : list Qc := map2 Qcplus a b.
Definition vsub (a b : list Qc) : list Qc := map2 Qcminus a b.
Definition vmul (a b : list Qc) : list Qc := map2 Qcmult a b.
Definition vscale (c : Qc) (a : list Qc) : list Qc := map (Qcmult c) a.
Definition vzero (n : nat) : list Qc := repeat 0 n.
Definition dot (a b : list Qc) : Qc := qsum (vmul a b).
(* sum of a list of vectors of length n, starting from zeros — accumulators of the code *)
Definition vsum (n : nat) (vs : list (list Qc)) : list Qc := fold_left vadd vs (vzero n).

Lemma vadd_length a b : length (vadd a b) = Nat.min (length a) (length b).
Proof. apply map2_length. Qed.

Lemma vadd_zero_l n a : length a = n -> vadd (vzero n) a = a.
Proof. intros <-. induction a as [|x a IH]; [reflexivity|]. unfold vadd, vzero in *.
  cbn [length repeat map2]. rewrite IH. f_equal. ring. Qed.
Lemma vadd_zero_r n a : length a = n -> vadd a (vzero n) = a.
Proof. intros <-. induction a as [|x a IH]; [reflexivity|]. unfold vadd, vzero in *.
  cbn [length repeat map2]. rewrite IH. f_equal. ring. Qed.
Lemma vadd_comm a b : vadd a b = vadd b a.
Proof. unfold vadd. revert b; induction a as [|x a IH]; intros [|y b]; simpl; auto. f_equal; [ring | apply IH]. Qed.
Lemma vadd_assoc a b c : vadd (vadd a b) c = vadd a (vadd b c).
Proof. unfold vadd. revert b c; induction a as [|x a IH]; intros [|y b] [|z c]; simpl; auto.
  f_equal; [ring | apply IH]. Qed.

(* nth-based reading of vector sums: pointwise statements *)
Definition nthq (l : list Qc) (i : nat) : Qc := nth i l 0.

Lemma nthq_vadd a b i : length a = length b -> nthq (vadd a b) i = nthq a i + nthq b i.
Proof. unfold nthq, vadd. revert b i; induction a as [|x a IH]; intros [|y b] i H; simpl in *; try lia.
  - destruct i; ring.
  - destruct i; [reflexivity | apply IH; lia]. Qed.
Lemma nthq_vzero n i : nthq (vzero n) i = 0.
Proof. unfold nthq, vzero. revert i; induction n; intros [|i]; simpl; auto. Qed.
Lemma nthq_map {A} (f : A -> Qc) l d i : (i < length l)%nat -> nthq (map f l) i = f (nth i l d).
Proof. unfold nthq. revert i; induction l as [|x l IH]; intros [|i] H; simpl in *; try lia; auto.
  apply IH; lia. Qed.

Lemma fold_vadd_length n vs acc : length acc = n -> (forall v, In v vs -> length v = n) ->
  length (fold_left vadd vs acc) = n.
Proof. revert acc; induction vs as [|v vs IH]; intros acc Ha Hv; simpl; [exact Ha|].
  apply IH; [rewrite vadd_length, Ha, (Hv v) by (left; reflexivity); lia | intros; apply Hv; right; assumption]. Qed.

Lemma nthq_fold_vadd n vs acc i : length acc = n -> (forall v, In v vs -> length v = n) ->
  nthq (fold_left vadd vs acc) i = nthq acc i + qsum (map (fun v => nthq v i) vs).
Proof. revert acc; induction vs as [|v vs IH]; intros acc Ha Hv; simpl; [ring|].
  rewrite IH; [| rewrite vadd_length, Ha, (Hv v) by (left; reflexivity); lia | intros; apply Hv; right; assumption].
  rewrite nthq_vadd by (rewrite Ha, (Hv v) by (left; reflexivity); reflexivity). ring. Qed.

Lemma nthq_vsum n vs i : (forall v, In v vs -> length v = n) ->
  nthq (vsum n vs) i = qsum (map (fun v => nthq v i) vs).
Proof. intro H. unfold vsum. rewrite (nthq_fold_vadd n) by (auto; apply repeat_length).
  rewrite nthq_vzero. ring. Qed.

(* two lists of the same length with the same nthq are equal *)
Lemma nthq_ext a b : length a = length b -> (forall i, (i < length a)%nat -> nthq a i = nthq b i) -> a = b.
Proof. unfold nthq. revert b; induction a as [|x a IH]; intros [|y b] Hl H; simpl in *; try lia; auto.
  f_equal; [apply (H 0%nat); lia | apply IH; [lia | intros i Hi; apply (H (S i)); lia]]. Qed.

(* mean *)
Definition qmean (l : list Qc) : Qc := qsum l / qn (length l).
