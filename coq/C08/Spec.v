(* C08/Spec.v — the property's own words: replicated designs, the published total-order estimators as formulas
   over the output vectors f(A), f(C_i) (no slicing of a stacked output vector, no loops), the HSIC score of one
   dimension, the attribution map as "estimator of the scores of the perturbed inputs". *)
From Xpl Require Export C08.Model.
Open Scope Qc_scope.

(* ------------------------------------------------------------------ designs *)
(* entry (r, j) of a matrix given as a list of rows *)
Definition entry (M : list (list Qc)) (r j : nat) : Qc := nthq (nth r M []) j.

(* a matrix with n rows of d columns *)
Definition is_matrix (n d : nat) (M : list (list Qc)) : Prop :=
  length M = n /\ forall r, In r M -> length r = d.

(* "a copy of A whose column i comes from B" *)
Definition replicated_entry (A B : list (list Qc)) (i r j : nat) : Qc :=
  if Nat.eqb j i then entry B r j else entry A r j.

Definition in_unit (x : Qc) : Prop := 0 <= x /\ x <= 1.
Definition is_binary (x : Qc) : Prop := x = 0 \/ x = 1.

(* ------------------------------------------------------------------ published total-order estimators
   ya = f(A), yc = f(C_i) = f(A with column i from B); N = length ya *)
Definition mean (y : list Qc) : Qc := qsum y / qn (length y).
(* unbiased sample variance of f(A) *)
Definition Vhat (ya : list Qc) : Qc :=
  qsum (map (fun v => (v - mean ya) * (v - mean ya)) ya) / (qn (length ya) - 1).
(* population variance *)
Definition Vpop (y : list Qc) : Qc := qsum (map (fun v => (v - mean y) * (v - mean y)) y) / qn (length y).
Definition mean_prod (ya yc : list Qc) : Qc := qsum (map2 Qcmult ya yc) / qn (length ya).

(* Jansen (1999):  ST_i = (1/(2N)) sum_j (f(A)_j - f(C_i)_j)^2 / V *)
Definition jansen_spec (ya yc : list Qc) : Qc :=
  (qsum (map2 (fun a c => (a - c) * (a - c)) ya yc) / (two * qn (length ya))) / Vhat ya.

(* Homma & Saltelli (1996):  ST_i = (V - (1/N sum_j f(A)_j f(C_i)_j - f0^2)) / V,  every moment a 1/N average *)
Definition homma_spec (ya yc : list Qc) : Qc :=
  (Vpop ya - (mean_prod ya yc - mean ya * mean ya)) / Vpop ya.

(* Saltelli (2008):  ST_i = 1 - (1/N sum_j f(A)_j f(C_i)_j - f0^2) / V,  every moment a 1/N average *)
Definition saltelli_spec (ya yc : list Qc) : Qc :=
  1 - (mean_prod ya yc - mean ya * mean ya) / Vpop ya.

(* the same two with the unbiased variance (what the code computed BEFORE its fix) *)
Definition homma_orig_spec (ya yc : list Qc) : Qc :=
  (Vhat ya - (mean_prod ya yc - mean ya * mean ya)) / Vhat ya.
Definition saltelli_orig_spec (ya yc : list Qc) : Qc :=
  1 - (mean_prod ya yc - mean ya * mean ya) / Vhat ya.

(* Janon et al. (2014), with the normalisation the code used BEFORE its fix for the second moment: 1/(N-1) *)
Definition janon_mean (ya yc : list Qc) : Qc := qsum (map2 (fun a c => (a + c) / two) ya yc) / qn (length ya).
Definition janon_orig_spec (ya yc : list Qc) : Qc :=
  1 - (mean_prod ya yc - janon_mean ya yc * janon_mean ya yc)
      / (qsum (map2 (fun a c => (a * a + c * c) / two) ya yc) / (qn (length ya) - 1)
         - janon_mean ya yc * janon_mean ya yc).
(* Janon et al. (2014) as published: every empirical moment is a 1/N average *)
Definition janon_published (ya yc : list Qc) : Qc :=
  1 - (mean_prod ya yc - janon_mean ya yc * janon_mean ya yc)
      / (qsum (map2 (fun a c => (a * a + c * c) / two) ya yc) / qn (length ya)
         - janon_mean ya yc * janon_mean ya yc).

(* Glen & Isaacs (2012), correlation form:  ST_i = 1 - rho(f(A), f(C_i)),
   rho = [1/N sum_j (f(A)_j - mA)(f(C_i)_j - mC)] / sqrt(VA VC),  VA, VC population variances (Pearson) *)
Definition glen_spec (sqrt : Qc -> Qc) (ya yc : list Qc) : Qc :=
  1 - (qsum (map2 (fun a c => (a - mean ya) * (c - mean yc)) ya yc) / qn (length ya))
      / sqrt (Vpop ya * Vpop yc).
(* with the covariance normalised by 1/(N-1) (what the code computed BEFORE its fix) *)
Definition glen_orig_spec (sqrt : Qc -> Qc) (ya yc : list Qc) : Qc :=
  1 - (qsum (map2 (fun a c => (a - mean ya) * (c - mean yc)) ya yc) / (qn (length ya) - 1))
      / sqrt (Vpop ya * Vpop yc).

(* what a square root is *)
Definition is_sqrt (sqrt : Qc -> Qc) (v : Qc) : Prop := 0 <= sqrt v /\ sqrt v * sqrt v = v.

(* ------------------------------------------------------------------ HSIC score of one dimension
   x: the n design values of the dimension; K = 1 + k(x_a, x_b); L: Gram matrix of the outputs;
   score = trace((H K H) (H L H)) / n with H = I - 1/n *)
Definition hsic_one (gramf : list Qc -> mat) (L : mat) (n : nat) (x : list Qc) : Qc :=
  let H := centering n in
  trace_prod n (matmul n (matmul n H (gram gramf x)) H) (matmul n (matmul n H L) H) / qn n.

(* ------------------------------------------------------------------ attribution map = estimator of the scores of
   the perturbed inputs, in the order of the explainer's masks *)
(* a forward batch size the API accepts: None (all masks at once) or at least 1 *)
Definition bs_valid (bs : option nat) : Prop := match bs with Some b => (1 <= b)%nat | None => True end.

Definition perturbed_scores (score : list Qc -> list Qc -> Qc) (p : perturbation) (g H W C : nat)
  (masks : list (list Qc)) (x t : list Qc) : list Qc :=
  map (fun m => score (perturb p g H W C x m) t) masks.
