(* C08/Aux.v — HSIC with the binary (Dirac) input kernel on a binary column is the quadratic form (2/n) u^T L u of the
   output Gram matrix, u the centred column; hence non-negative when L is positive semi-definite.
   Finite sums over index functions (sumn), double centring entry by entry, bridge from lists of rows. *)
From Xpl Require Import Base.Tensor C08.Spec C08.Proofs.
From Coq Require Import Arith Lqa.
Open Scope Qc_scope.

(* ================= part 6: HSIC with the binary kernel is a quadratic form of L ================= *)
Definition sumn (n : nat) (f : nat -> Qc) : Qc := qsum (map f (seq 0 n)).

Lemma sumn_ext n f g : (forall i, (i < n)%nat -> f i = g i) -> sumn n f = sumn n g.
Proof. intro H. unfold sumn. apply qsum_map_ext. intros i Hi. apply in_seq in Hi. apply H. lia. Qed.
Lemma sumn_S n f : sumn (S n) f = sumn n f + f n.
Proof. unfold sumn. rewrite seq_S, map_app, qsum_app. cbn [map qsum plus]. ring. Qed.
Lemma sumn_add n f g : sumn n (fun i => f i + g i) = sumn n f + sumn n g.
Proof. unfold sumn. apply qsum_map_add. Qed.
Lemma sumn_scale n c f : sumn n (fun i => c * f i) = c * sumn n f.
Proof. unfold sumn. apply qsum_map_scale. Qed.
Lemma sumn_scale_r n c f : sumn n (fun i => f i * c) = sumn n f * c.
Proof. rewrite (sumn_ext n _ (fun i => c * f i)) by (intros; ring). rewrite sumn_scale. ring. Qed.
Lemma sumn_const n c : sumn n (fun _ => c) = qn n * c.
Proof. induction n as [|n IH]; [unfold sumn; cbn; replace (qn 0) with 0 by (apply Qc_is_canon; reflexivity); ring|].
  rewrite sumn_S, IH, qn_S. ring. Qed.
Lemma sumn_sub n f g : sumn n (fun i => f i - g i) = sumn n f - sumn n g.
Proof. rewrite (sumn_ext n _ (fun i => f i + (- (1)) * g i)) by (intros; ring).
  rewrite sumn_add, sumn_scale. ring. Qed.
Lemma sumn_zero n : sumn n (fun _ => 0) = 0.
Proof. rewrite sumn_const. ring. Qed.
Lemma sumn_exchange n m (f : nat -> nat -> Qc) :
  sumn n (fun i => sumn m (fun j => f i j)) = sumn m (fun j => sumn n (fun i => f i j)).
Proof.
  induction n as [|n IH].
  - unfold sumn at 1. cbn [seq map qsum]. symmetry. rewrite (sumn_ext m _ (fun _ => 0)) by (intros; reflexivity).
    apply sumn_zero.
  - rewrite sumn_S, IH. rewrite <- sumn_add. apply sumn_ext. intros j _. rewrite sumn_S. reflexivity.
Qed.
Lemma sumn_delta_l n j f : (j < n)%nat -> sumn n (fun k => delta j k * f k) = f j.
Proof.
  induction n as [|n IH]; intro H; [lia|]. rewrite sumn_S. unfold delta at 2.
  destruct (Nat.eqb_spec j n) as [->|Hne].
  - rewrite (sumn_ext n _ (fun _ => 0)).
    + rewrite sumn_zero. ring.
    + intros i Hi. unfold delta. destruct (Nat.eqb_spec n i); [lia | ring].
  - rewrite IH by lia. ring.
Qed.
Lemma sumn_delta_r n k f : (k < n)%nat -> sumn n (fun m => f m * delta m k) = f k.
Proof.
  intro H. rewrite (sumn_ext n _ (fun m => delta k m * f m)).
  - apply sumn_delta_l. exact H.
  - intros i _. unfold delta. rewrite (Nat.eqb_sym i k). ring.
Qed.

(* matrices as functions *)
Definition Hf (n : nat) (j k : nat) : Qc := delta j k - 1 / qn n.
Definition mm (n : nat) (P Q : nat -> nat -> Qc) (j k : nat) : Qc := sumn n (fun m => P j m * Q m k).
Definition tr (n : nat) (P Q : nat -> nat -> Qc) : Qc := sumn n (fun j => sumn n (fun l => P j l * Q l j)).

Lemma mm_ext n P P' Q Q' j k :
  (forall m, (m < n)%nat -> P j m = P' j m) -> (forall m, (m < n)%nat -> Q m k = Q' m k) ->
  mm n P Q j k = mm n P' Q' j k.
Proof. intros HP HQ. unfold mm. apply sumn_ext. intros m Hm. rewrite HP, HQ by exact Hm. reflexivity. Qed.

Lemma HP_formula n P j k : (j < n)%nat ->
  mm n (Hf n) P j k = P j k - (1 / qn n) * sumn n (fun m => P m k).
Proof.
  intro Hj. unfold mm, Hf.
  rewrite (sumn_ext n _ (fun m => delta j m * P m k - (1 / qn n) * P m k)) by (intros; ring).
  rewrite sumn_sub, sumn_delta_l, sumn_scale by exact Hj. reflexivity.
Qed.
Lemma PH_formula n P j k : (k < n)%nat ->
  mm n P (Hf n) j k = P j k - (1 / qn n) * sumn n (fun m => P j m).
Proof.
  intro Hk. unfold mm, Hf.
  rewrite (sumn_ext n _ (fun m => P j m * delta m k - (1 / qn n) * P j m)) by (intros; ring).
  rewrite sumn_sub, sumn_delta_r, sumn_scale by exact Hk. reflexivity.
Qed.

(* double centring, entry by entry *)
Lemma centre_formula n P j k : (j < n)%nat -> (k < n)%nat ->
  mm n (mm n (Hf n) P) (Hf n) j k
  = P j k - (1 / qn n) * sumn n (fun m => P m k) - (1 / qn n) * sumn n (fun m => P j m)
    + (1 / qn n) * (1 / qn n) * sumn n (fun a => sumn n (fun b => P a b)).
Proof.
  intros Hj Hk. rewrite PH_formula by exact Hk. rewrite HP_formula by exact Hj.
  rewrite (sumn_ext n (fun m => mm n (Hf n) P j m) (fun m => P j m - (1 / qn n) * sumn n (fun a => P a m)))
    by (intros; apply HP_formula; exact Hj).
  rewrite sumn_sub, sumn_scale. rewrite (sumn_exchange n n (fun a b => P a b)). assert (E : sumn n (P j) = sumn n (fun m => P j m)) by reflexivity. rewrite E. ring.
Qed.

Section BinaryHSIC.
Variable n : nat.
Hypothesis Hn : (1 <= n)%nat.
Variable x : nat -> Qc.
Hypothesis Hbin : forall j, (j < n)%nat -> x j * x j = x j.
Variable L : nat -> nat -> Qc.

Let N := qn n.
Let i := 1 / N.
Let s := fun j => x j - half.
Let S := sumn n s.
Let u := fun j => s j - i * S.
Let K := fun j l => 1 + k_binary (x j) (x l).

Lemma iN : i * N = 1.
Proof. unfold i, N. field. apply qn_neq0. exact Hn. Qed.
Lemma two_half : two * half = 1.
Proof. apply Qc_is_canon. reflexivity. Qed.

Lemma two_11 : two = 1 + 1.
Proof. apply Qc_is_canon. reflexivity. Qed.

Lemma K_rank_one j l : (j < n)%nat -> (l < n)%nat -> K j l = 1 + two * s j * s l.
Proof.
  intros Hj Hl. unfold K, k_binary, sq, s. pose proof (Hbin j Hj) as Bj. pose proof (Hbin l Hl) as Bl.
  pose proof two_half as TH. rewrite two_11 in *.
  assert (HH : half * half + half * half = half) by (transitivity (((1 + 1) * half) * half); [ring | rewrite TH; ring]).
  transitivity (1 + half - x j * x j - x l * x l + (1 + 1) * x j * x l); [ring|].
  rewrite Bj, Bl.
  transitivity (1 + (1 + 1) * x j * x l - ((1 + 1) * half) * x j - ((1 + 1) * half) * x l + (half * half + half * half));
    [rewrite TH, HH; ring | ring].
Qed.

Lemma sum_u : sumn n u = 0.
Proof.
  unfold u. rewrite sumn_sub, sumn_const. fold S. fold N. transitivity (S - (i * N) * S); [ring | rewrite iN; ring].
Qed.

(* H K H = 2 u u^T *)
Lemma Kc_formula j l : (j < n)%nat -> (l < n)%nat ->
  mm n (mm n (Hf n) K) (Hf n) j l = two * u j * u l.
Proof.
  intros Hj Hl. rewrite centre_formula by assumption. fold N. fold i.
  rewrite (sumn_ext n (fun m => K m l) (fun m => 1 + (two * s l) * s m))
    by (intros m Hm; rewrite K_rank_one by assumption; ring).
  rewrite (sumn_ext n (fun m => K j m) (fun m => 1 + (two * s j) * s m))
    by (intros m Hm; rewrite K_rank_one by assumption; ring).
  rewrite (sumn_ext n (fun a => sumn n (fun b => K a b)) (fun a => N + (two * S) * s a)).
  2:{ intros a Ha. rewrite (sumn_ext n (fun b => K a b) (fun b => 1 + (two * s a) * s b))
        by (intros b Hb; rewrite K_rank_one by assumption; ring).
      rewrite sumn_add, sumn_const, sumn_scale. fold S. fold N. ring. }
  rewrite !sumn_add, !sumn_const, !sumn_scale. fold S. fold N.
  rewrite K_rank_one by assumption. unfold u. pose proof iN as E.
  transitivity ((1 - i * N - i * N + (i * N) * (i * N)) + two * (s j - i * S) * (s l - i * S)); [ring | rewrite E; ring].
Qed.

Definition qform (m : nat) (M : nat -> nat -> Qc) (v : nat -> Qc) : Qc :=
  sumn m (fun a => sumn m (fun b => v a * M a b * v b)).

(* trace((H K H)(H L H)) = 2 u^T L u *)
Lemma tr_formula :
  tr n (mm n (mm n (Hf n) K) (Hf n)) (mm n (mm n (Hf n) L) (Hf n)) = two * qform n L u.
Proof.
  unfold tr, qform. pose proof sum_u as SU.
  set (CL := fun j => sumn n (fun m => L m j)). set (RL := fun l => sumn n (fun m => L l m)).
  set (G := sumn n (fun a => sumn n (fun b => L a b))).
  set (T := sumn n (fun l => u l * RL l)).
  rewrite (sumn_ext n _ (fun j => two * (u j * sumn n (fun l => u l * L l j)) - (two * i * T) * u j)).
  - rewrite sumn_sub, !sumn_scale, SU.
    rewrite (sumn_ext n (fun j => u j * sumn n (fun l => u l * L l j))
                        (fun j => sumn n (fun l => u l * L l j * u j)))
      by (intros j _; rewrite <- sumn_scale; apply sumn_ext; intros; ring).
    rewrite (sumn_exchange n n (fun j l => u l * L l j * u j)). ring.
  - intros j Hj.
    rewrite (sumn_ext n _ (fun l => (two * u j) * (u l * L l j) - (two * u j * i * CL j) * u l
                                    - (two * u j * i) * (u l * RL l) + (two * u j * i * i * G) * u l)).
    + rewrite sumn_add, !sumn_sub, !sumn_scale, SU. fold T. ring.
    + intros l Hl. rewrite Kc_formula by assumption. rewrite centre_formula by assumption.
      fold N. fold i. fold (CL j). fold (RL l). fold G. ring.
Qed.
End BinaryHSIC.

(* ---------- from lists of rows to functions ---------- *)
Lemma sumn_nthq l : sumn (length l) (nthq l) = qsum l.
Proof. unfold sumn. rewrite (list_as_seq l 0) at 3. reflexivity. Qed.

Lemma dot_sumn a b n : length a = n -> length b = n -> dot a b = sumn n (fun m => nthq a m * nthq b m).
Proof.
  intros Ha Hb. unfold dot, vmul, sumn. f_equal.
  rewrite (list_as_seq a 0) at 1. rewrite (list_as_seq b 0) at 1. rewrite Ha, Hb. apply map2_seq.
Qed.

Lemma nth_map_default {T U} (F : T -> U) l j d d' : (j < length l)%nat -> nth j (map F l) d' = F (nth j l d).
Proof. intro H. rewrite (nth_indep _ d' (F d)) by (rewrite map_length; exact H). apply map_nth. Qed.

Lemma entry_matmul n P Q j k :
  (j < length P)%nat -> length (nth j P []) = n -> length Q = n -> (k < n)%nat ->
  entry (matmul n P Q) j k = mm n (entry P) (entry Q) j k.
Proof.
  intros Hj Hrow HQ Hk. unfold entry at 1, matmul. rewrite (nth_map_default _ P j []) by exact Hj.
  unfold nthq at 1. rewrite nth_map_seq by exact Hk.
  rewrite (dot_sumn _ _ n) by (auto; unfold col; rewrite map_length; exact HQ).
  unfold mm. apply sumn_ext. intros m Hm. unfold entry, col. rewrite (nthq_map _ Q []) by lia. reflexivity.
Qed.

Lemma matmul_matrix n P Q : length P = n -> is_matrix n n (matmul n P Q).
Proof.
  intro HP. unfold matmul. split; [rewrite map_length; exact HP|].
  intros r Hr. apply in_map_iff in Hr. destruct Hr as [rp [<- _]]. rewrite map_length, seq_length. reflexivity.
Qed.

Lemma centering_matrix n : is_matrix n n (centering n).
Proof.
  unfold centering. split; [rewrite map_length, seq_length; reflexivity|].
  intros r Hr. apply in_map_iff in Hr. destruct Hr as [j [<- _]]. rewrite map_length, seq_length. reflexivity.
Qed.

Lemma entry_centering n j k : (j < n)%nat -> (k < n)%nat -> entry (centering n) j k = Hf n j k.
Proof.
  intros Hj Hk. unfold entry, centering. rewrite nth_map_seq by exact Hj. unfold nthq.
  rewrite nth_map_seq by exact Hk. reflexivity.
Qed.

Lemma gram_matrix kern x : is_matrix (length x) (length x) (gram (gram_of kern) x).
Proof.
  unfold gram, gram_of. split; [rewrite !map_length; reflexivity|].
  intros r Hr. apply in_map_iff in Hr. destruct Hr as [r0 [<- Hr0]]. apply in_map_iff in Hr0.
  destruct Hr0 as [xa [<- _]]. rewrite !map_length. reflexivity.
Qed.

Lemma entry_gram kern x j l : (j < length x)%nat -> (l < length x)%nat ->
  entry (gram (gram_of kern) x) j l = 1 + kern (nthq x j) (nthq x l).
Proof.
  intros Hj Hl. unfold entry, gram, gram_of. rewrite map_map.
  rewrite (nth_map_default _ x j 0) by exact Hj. rewrite map_map.
  rewrite (nthq_map _ x 0) by exact Hl. reflexivity.
Qed.

Lemma row_length n M j : is_matrix n n M -> (j < n)%nat -> length (nth j M []) = n.
Proof. intros [Hl Hr] Hj. apply Hr. apply nth_In. lia. Qed.

(* double centring of a list matrix, entry by entry, is the double centring of its entry function *)
Lemma entry_centred n M j k : is_matrix n n M -> (j < n)%nat -> (k < n)%nat ->
  entry (matmul n (matmul n (centering n) M) (centering n)) j k = mm n (mm n (Hf n) (entry M)) (Hf n) j k.
Proof.
  intros HM Hj Hk. pose proof (centering_matrix n) as HC. pose proof HM as [HMl _]. pose proof HC as [HCl _].
  pose proof (matmul_matrix n (centering n) M HCl) as HHM. pose proof HHM as [HHMl _].
  rewrite entry_matmul by (try lia; try (apply row_length; assumption)).
  apply mm_ext.
  - intros m Hm. rewrite entry_matmul by (try lia; try (apply row_length; assumption)).
    apply mm_ext; [intros p Hp; apply entry_centering; assumption | reflexivity].
  - intros m Hm. apply entry_centering; assumption.
Qed.

Lemma tr_ext n P P' Q Q' :
  (forall j l, (j < n)%nat -> (l < n)%nat -> P j l = P' j l) ->
  (forall j l, (j < n)%nat -> (l < n)%nat -> Q j l = Q' j l) -> tr n P Q = tr n P' Q'.
Proof.
  intros HP HQ. unfold tr. apply sumn_ext. intros j Hj. apply sumn_ext. intros l Hl.
  rewrite HP, HQ by assumption. reflexivity.
Qed.

Lemma qform_ext n M v v' : (forall j, (j < n)%nat -> v j = v' j) -> qform n M v = qform n M v'.
Proof. intro H. unfold qform. apply sumn_ext. intros a Ha. apply sumn_ext. intros b Hb.
  rewrite !H by assumption. reflexivity. Qed.

Lemma Qc_mult_nonneg a b : 0 <= a -> 0 <= b -> 0 <= a * b.
Proof. intros Ha Hb. replace 0 with (0 * b) by ring. apply Qcmult_le_compat_r; assumption. Qed.

(* HSIC score of a binary column with the binary (Dirac) kernel: (2/n) u^T L u, u the centred column *)
Lemma hsic_binary_quadratic_form n x L :
  (1 <= n)%nat -> length x = n -> (forall v, In v x -> is_binary v) -> is_matrix n n L ->
  hsic_one (gram_of k_binary) L n x
  = (two / qn n) * qform n (entry L) (fun j => nthq x j - mean x).
Proof.
  intros Hn Hx Hbin HL. unfold hsic_one.
  change (trace_prod n ?A ?B) with (tr n (entry A) (entry B)).
  pose proof (gram_matrix k_binary x) as HK. rewrite Hx in HK.
  rewrite (tr_ext n _ (mm n (mm n (Hf n) (fun j l => 1 + k_binary (nthq x j) (nthq x l))) (Hf n))
                    _ (mm n (mm n (Hf n) (entry L)) (Hf n))).
  - rewrite (tr_formula n Hn (nthq x)).
    + rewrite (qform_ext n (entry L) _ (fun j => nthq x j - mean x)); [unfold Qcdiv; ring|].
      intros j _. rewrite sumn_sub, sumn_const. rewrite <- Hx at 2. rewrite sumn_nthq. unfold mean. rewrite Hx.
      field. apply qn_neq0. exact Hn.
    + intros j Hj. destruct (Hbin (nthq x j)) as [->| ->]; [unfold nthq; apply nth_In; lia | ring | ring].
  - intros j l Hj Hl. rewrite entry_centred by assumption.
    apply mm_ext; [|reflexivity]. intros m Hm. apply mm_ext; [reflexivity|].
    intros p Hp. apply entry_gram; lia.
  - intros j l Hj Hl. apply entry_centred; assumption.
Qed.

Definition psd (n : nat) (L : mat) : Prop := forall v : nat -> Qc, 0 <= qform n (entry L) v.

Lemma hsic_binary_nonneg n x L :
  (1 <= n)%nat -> length x = n -> (forall v, In v x -> is_binary v) -> is_matrix n n L -> psd n L ->
  0 <= hsic_one (gram_of k_binary) L n x.
Proof.
  intros Hn Hx Hbin HL Hpsd. rewrite (hsic_binary_quadratic_form n x L) by assumption.
  apply Qc_mult_nonneg; [|apply Hpsd]. apply Qc_div_nonneg; [apply two_nonneg | apply qn_nonneg].
Qed.

(* every cell of the HSIC map of a binary design is non-negative when L is positive semi-definite *)
Lemma hsic_map_binary_nonneg ebs g design L n v :
  (1 <= ebs)%nat -> (1 <= n)%nat -> is_matrix n (g * g) design ->
  (forall r, In r design -> forall w, In w r -> is_binary w) -> is_matrix n n L -> psd n L ->
  In v (hsic_map (gram_of k_binary) ebs g design L n) -> 0 <= v.
Proof.
  intros He Hn [Hdl Hdr] Hbin HL Hpsd Hv. rewrite hsic_map_per_cell in Hv by exact He.
  apply in_map_iff in Hv. destruct Hv as [p [<- Hp]]. apply in_seq in Hp.
  apply hsic_binary_nonneg; try assumption.
  - unfold col. rewrite map_length. exact Hdl.
  - intros w Hw. unfold col in Hw. apply in_map_iff in Hw. destruct Hw as [r [<- Hr]].
    apply (Hbin r Hr). unfold nthq. apply nth_In. rewrite (Hdr r Hr). lia.
Qed.
