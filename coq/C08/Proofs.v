(* C08/Proofs.v — replicated designs, Sobol total-order estimators, HSIC estimator, explain loop:
   the executable model (C08/Model.v) equals the reference definitions (C08/Spec.v) for all sizes and batch sizes,
   plus the algebraic consequences listed by property C08. *)
From Xpl Require Import Base.Tensor C08.Spec.
From Coq Require Import Arith Lqa.
Close Scope Qc_scope. Open Scope nat_scope.

(* ---------- slicing ---------- *)
Lemma slice_app_skip {T} (p l : list T) lo hi :
  slice (length p + lo) (length p + hi) (p ++ l) = slice lo hi l.
Proof.
  unfold slice. replace (length p + hi - (length p + lo)) with (hi - lo) by lia.
  f_equal. rewrite skipn_app. rewrite skipn_all2 by lia.
  replace (length p + lo - length p) with lo by lia. reflexivity.
Qed.

Lemma slice_prefix {T} (p l : list T) : slice 0 (length p) (p ++ l) = p.
Proof. unfold slice. rewrite Nat.sub_0_r. cbn [skipn]. rewrite firstn_app, Nat.sub_diag, firstn_all.
  cbn [firstn]. apply app_nil_r. Qed.

Lemma slice_concat_block {T} n (bl : list (list T)) i :
  (forall b, In b bl -> length b = n) -> i < length bl ->
  slice (n * i) (n * (i + 1)) (concat bl) = nth i bl [].
Proof.
  revert i; induction bl as [|b bl IH]; intros i Hn Hi; [cbn [length] in Hi; lia|].
  assert (Hb : length b = n) by (apply Hn; left; reflexivity).
  cbn [concat]. destruct i as [|i].
  - rewrite Nat.mul_0_r. replace (n * (0 + 1)) with (length b) by lia. rewrite slice_prefix. reflexivity.
  - replace (n * S i) with (length b + n * i) by lia.
    replace (n * (S i + 1)) with (length b + n * (i + 1)) by lia.
    rewrite slice_app_skip. cbn [nth]. apply IH; [intros; apply Hn; right; assumption | cbn [length] in Hi; lia].
Qed.

(* the outputs stacked A ++ B ++ C_0 ++ ... ++ C_{d-1} are split back into their blocks *)
Lemma split_abc_blocks {T} (ya yb : list T) (ycs : list (list T)) n d :
  length ya = n -> length yb = n -> length ycs = d -> (forall c, In c ycs -> length c = n) ->
  split_abc (ya ++ yb ++ concat ycs) n d = (ya, yb, ycs).
Proof.
  intros Ha Hb Hd Hc. unfold split_abc. f_equal; [f_equal|].
  - rewrite <- Ha. apply slice_prefix.
  - replace n with (length ya + 0) at 1 by lia. replace (n * 2) with (length ya + length yb) by lia.
    rewrite slice_app_skip. apply slice_prefix.
  - etransitivity; [| symmetry; apply (list_as_seq ycs [])]. rewrite Hd. apply map_ext_in. intros i Hi. apply in_seq in Hi.
    rewrite app_assoc. replace (n * 2) with (length (ya ++ yb)) by (rewrite app_length; lia).
    rewrite slice_app_skip. apply slice_concat_block; [exact Hc | lia].
Qed.

(* ---------- replicated designs ---------- *)
Lemma set_nth_length {T} i (v : T) l : length (set_nth i v l) = length l.
Proof. revert i; induction l as [|x l IH]; intros [|i]; cbn [set_nth length]; auto. Qed.

Lemma nthq_set_nth i v l j : i < length l -> nthq (set_nth i v l) j = if Nat.eqb j i then v else nthq l j.
Proof.
  unfold nthq. revert i j; induction l as [|x l IH]; intros i j Hi; [cbn [length] in Hi; lia|].
  destruct i as [|i]; destruct j as [|j]; cbn [set_nth nth Nat.eqb]; try reflexivity.
  apply IH. cbn [length] in Hi; lia.
Qed.

Lemma c_block_length i A B : length A = length B -> length (c_block i A B) = length A.
Proof. intro H. unfold c_block. rewrite map2_length, <- H. apply Nat.min_id. Qed.

Lemma nth_map2 {X Y Z} (f : X -> Y -> Z) a b r dx dy dz : r < length a -> r < length b ->
  nth r (map2 f a b) dz = f (nth r a dx) (nth r b dy).
Proof. revert b r; induction a as [|x a IH]; intros [|y b] r Ha Hb; cbn [length] in *; try lia.
  destruct r; cbn [map2 nth]; [reflexivity | apply IH; lia]. Qed.

Lemma c_block_entry n d A B i r j : is_matrix n d A -> is_matrix n d B -> i < d -> r < n ->
  entry (c_block i A B) r j = replicated_entry A B i r j.
Proof.
  intros [HA HAr] [HB HBr] Hi Hr. unfold entry, c_block, replicated_entry.
  rewrite (nth_map2 _ A B r [] [] []) by lia.
  rewrite nthq_set_nth; [unfold entry; destruct (Nat.eqb_spec j i); [subst; reflexivity | reflexivity]|]. rewrite (HAr (nth r A [])); [exact Hi | apply nth_In; lia].
Qed.

Lemma c_block_matrix n d A B i : is_matrix n d A -> is_matrix n d B -> is_matrix n d (c_block i A B).
Proof.
  intros [HA HAr] [HB HBr]. split; [rewrite c_block_length; lia|].
  intros r Hr. unfold c_block in Hr. rewrite map2_combine in Hr. apply in_map_iff in Hr.
  destruct Hr as [[ra rb] [<- Hin]]. cbn [fst snd]. rewrite set_nth_length. apply HAr.
  eapply in_combine_l; exact Hin.
Qed.

Lemma build_as_concat d A B : build_replicated_design d A B = concat (map (fun i => c_block i A B) (seq 0 d)).
Proof. unfold build_replicated_design. apply flat_map_concat_map. Qed.

(* design = A ++ B ++ C_0 ++ ... ++ C_{d-1}; block C_i occupies rows 2n + i n ... 2n + (i+1) n - 1 *)
Lemma nth_concat_block {T} n (bl : list (list T)) i r dflt :
  (forall b, In b bl -> length b = n) -> i < length bl -> r < n ->
  nth (i * n + r) (concat bl) dflt = nth r (nth i bl []) dflt.
Proof.
  revert i; induction bl as [|b bl IH]; intros i Hn Hi Hr; [cbn [length] in Hi; lia|].
  assert (Hb : length b = n) by (apply Hn; left; reflexivity).
  cbn [concat]. destruct i as [|i].
  - cbn [Nat.mul Nat.add nth]. apply app_nth1. lia.
  - rewrite app_nth2 by (rewrite Hb; nia). rewrite Hb. replace (S i * n + r - n) with (i * n + r) by nia.
    cbn [nth]. apply IH; [intros; apply Hn; right; assumption | cbn [length] in Hi; lia | exact Hr].
Qed.

Lemma concat_blocks_length {T} n (bl : list (list T)) :
  (forall b, In b bl -> length b = n) -> length (concat bl) = n * length bl.
Proof. induction bl as [|b bl IH]; intro H; cbn [concat length]; [lia|].
  rewrite app_length, IH by (intros; apply H; right; assumption).
  rewrite (H b) by (left; reflexivity). lia. Qed.

Lemma design_structure n d A B : is_matrix n d A -> is_matrix n d B ->
  let D := replicated_design d A B in
  is_matrix (n * (d + 2)) d D /\
  (forall r, r < n -> nth r D [] = nth r A []) /\
  (forall r, r < n -> nth (n + r) D [] = nth r B []) /\
  (forall i r j, i < d -> r < n -> entry D (2 * n + i * n + r) j = replicated_entry A B i r j).
Proof.
  intros HA HB D. pose proof HA as [HAl HAr]. pose proof HB as [HBl HBr].
  set (bl := map (fun i => c_block i A B) (seq 0 d)).
  assert (Hblk : forall b, In b bl -> length b = n).
  { intros b Hb. apply in_map_iff in Hb. destruct Hb as [i [<- _]]. rewrite c_block_length; lia. }
  assert (Hbl : length bl = d) by (unfold bl; rewrite map_length, seq_length; reflexivity).
  assert (HD : D = A ++ B ++ concat bl) by (unfold D, replicated_design; rewrite build_as_concat; reflexivity).
  repeat split.
  - rewrite HD, !app_length, (concat_blocks_length n) by exact Hblk. lia.
  - intros r Hr. rewrite HD in Hr. apply in_app_or in Hr. destruct Hr as [Hr|Hr]; [auto|].
    apply in_app_or in Hr. destruct Hr as [Hr|Hr]; [auto|].
    apply in_concat in Hr. destruct Hr as [b [Hb Hr]]. apply in_map_iff in Hb. destruct Hb as [i [<- _]].
    destruct (c_block_matrix n d A B i HA HB) as [_ K]. auto.
  - intros r Hr. rewrite HD. apply app_nth1. lia.
  - intros r Hr. rewrite HD. rewrite app_nth2 by lia. rewrite HAl. replace (n + r - n) with r by lia.
    apply app_nth1. lia.
  - intros i r j Hi Hr. unfold entry at 1. rewrite HD. rewrite app_nth2 by nia. rewrite app_nth2 by nia.
    rewrite HAl, HBl. replace (2 * n + i * n + r - n - n) with (i * n + r) by nia.
    rewrite (nth_concat_block n) by (auto; lia). unfold bl. rewrite nth_map_seq by exact Hi.
    apply (c_block_entry n d); assumption.
Qed.

(* the split of the outputs of the design recovers (f A, f B, [f C_i]_i) for every f *)
Lemma split_abc_design {T} (f : list Qc -> T) n d A B : is_matrix n d A -> is_matrix n d B ->
  split_abc (map f (replicated_design d A B)) n d
  = (map f A, map f B, map (fun i => map f (c_block i A B)) (seq 0 d)).
Proof.
  intros [HAl HAr] [HBl HBr]. unfold replicated_design. rewrite build_as_concat, !map_app, concat_map, map_map.
  apply split_abc_blocks; rewrite ?map_length, ?seq_length; auto.
  intros c Hc. apply in_map_iff in Hc. destruct Hc as [i [<- _]]. rewrite map_length, c_block_length; lia.
Qed.

(* the four replicated samplers: n x 2d draw -> A = left half, B = right half *)
Lemma sampler_halves n d AB : is_matrix n (2 * d) AB ->
  is_matrix n d (map (firstn d) AB) /\ is_matrix n d (map (skipn d) AB).
Proof.
  intros [Hl Hr]. split; (split; [rewrite map_length; exact Hl|]); intros r Hin; apply in_map_iff in Hin;
    destruct Hin as [r0 [<- Hin]]; [rewrite firstn_length | rewrite skipn_length]; rewrite (Hr r0 Hin); lia.
Qed.
(* ================= part 2: estimators ================= *)
Open Scope Qc_scope.

Lemma map_nth_seq {T U} (F : list T -> U) (l : list (list T)) :
  map (fun i => F (nth i l [])) (seq 0 (length l)) = map F l.
Proof. rewrite (list_as_seq l []) at 2. rewrite map_map. reflexivity. Qed.

Lemma qdiv_mult_r x y z : x / (y * z) = x / y / z.
Proof. unfold Qcdiv. rewrite Qcinv_mult_distr. ring. Qed.
Lemma qinv_mul_l x y : (1 / x) * y = y / x.
Proof. unfold Qcdiv. ring. Qed.

Lemma qsum_map_div {T} (f : T -> Qc) c l : qsum (map (fun x => f x / c) l) = qsum (map f l) / c.
Proof. induction l as [|x l IH]; cbn [map qsum]; [unfold Qcdiv; ring | rewrite IH; unfold Qcdiv; ring]. Qed.

Lemma qsum_map2_scale (f : Qc -> Qc -> Qc) k a b :
  qsum (map2 (fun x y => k * f x y) a b) = k * qsum (map2 f a b).
Proof. rewrite !map2_combine. apply (qsum_map_scale (fun p => f (fst p) (snd p))). Qed.
Lemma qsum_map2_div (f : Qc -> Qc -> Qc) k a b :
  qsum (map2 (fun x y => f x y / k) a b) = qsum (map2 f a b) / k.
Proof. rewrite !map2_combine. apply (qsum_map_div (fun p => f (fst p) (snd p))). Qed.

Lemma var_unbiased_Vhat a : var_unbiased a = Vhat a.
Proof. reflexivity. Qed.
Lemma var_pop_Vpop a : var_pop a = Vpop a.
Proof. reflexivity. Qed.
Lemma np_mean_mean a : np_mean a = mean a.
Proof. reflexivity. Qed.
Lemma np_var_Vpop a : np_var a = Vpop a.
Proof. unfold np_var, Vpop, np_mean. rewrite map_length. reflexivity. Qed.

Section Formulas.
Variables (ya yb : list Qc) (ycs : list (list Qc)) (n d : nat).
Hypothesis Ha : length ya = n.
Hypothesis Hb : length yb = n.
Hypothesis Hd : length ycs = d.
Hypothesis Hc : forall c, In c ycs -> length c = n.

Let outputs := ya ++ yb ++ concat ycs.

Lemma jansen_formula : jansen outputs n d = map (jansen_spec ya) ycs.
Proof.
  unfold jansen, outputs. rewrite (split_abc_blocks ya yb ycs n d Ha Hb Hd Hc).
  rewrite <- Hd, <- (map_nth_seq (jansen_spec ya) ycs). apply map_ext. intro i.
  unfold jansen_spec. rewrite var_unbiased_Vhat, Ha, qdiv_mult_r. f_equal. f_equal.
  unfold vsub. rewrite map_map2. reflexivity.
Qed.

Lemma homma_formula : homma outputs n d = map (homma_spec ya) ycs.
Proof.
  unfold homma, outputs. rewrite (split_abc_blocks ya yb ycs n d Ha Hb Hd Hc).
  rewrite <- Hd, <- (map_nth_seq (homma_spec ya) ycs). apply map_ext. intro i.
  unfold homma_spec, mean_prod. rewrite var_pop_Vpop, np_mean_mean, Ha, qinv_mul_l.
  unfold vmul, sq, Qcdiv. ring.
Qed.

Lemma homma_orig_formula : homma_orig outputs n d = map (homma_orig_spec ya) ycs.
Proof.
  unfold homma_orig, outputs. rewrite (split_abc_blocks ya yb ycs n d Ha Hb Hd Hc).
  rewrite <- Hd, <- (map_nth_seq (homma_orig_spec ya) ycs). apply map_ext. intro i.
  unfold homma_orig_spec, mean_prod. rewrite var_unbiased_Vhat, np_mean_mean, Ha, qinv_mul_l.
  unfold vmul, sq, Qcdiv. ring.
Qed.

Lemma saltelli_formula : saltelli outputs n d = map (saltelli_spec ya) ycs.
Proof.
  unfold saltelli, outputs. rewrite (split_abc_blocks ya yb ycs n d Ha Hb Hd Hc).
  rewrite <- Hd, <- (map_nth_seq (saltelli_spec ya) ycs). apply map_ext. intro i.
  unfold saltelli_spec, mean_prod. rewrite var_pop_Vpop, np_mean_mean, Ha, qinv_mul_l.
  unfold vmul, sq. reflexivity.
Qed.

Lemma saltelli_orig_formula : saltelli_orig outputs n d = map (saltelli_orig_spec ya) ycs.
Proof.
  unfold saltelli_orig, outputs. rewrite (split_abc_blocks ya yb ycs n d Ha Hb Hd Hc).
  rewrite <- Hd, <- (map_nth_seq (saltelli_orig_spec ya) ycs). apply map_ext. intro i.
  unfold saltelli_orig_spec, mean_prod. rewrite var_unbiased_Vhat, np_mean_mean, Ha, qinv_mul_l.
  unfold vmul, sq. reflexivity.
Qed.

Lemma janon_mean_model yc : (1 / qn n) * qsum (vadd ya yc) / two = janon_mean ya yc.
Proof.
  unfold janon_mean. rewrite Ha, (qsum_map2_div Qcplus). unfold vadd, Qcdiv. ring.
Qed.

Lemma janon_formula : janon outputs n d = map (janon_published ya) ycs.
Proof.
  unfold janon, outputs. rewrite (split_abc_blocks ya yb ycs n d Ha Hb Hd Hc).
  rewrite <- Hd. rewrite <- (map_nth_seq (janon_published ya) ycs). apply map_ext_in. intros i Hi.
  apply in_seq in Hi. unfold nthq. rewrite !nth_map_seq by lia.
  rewrite janon_mean_model. unfold janon_published, mean_prod. rewrite Ha, !qinv_mul_l.
  unfold vadd. rewrite map2_map_l, map2_map_r.
  rewrite (qsum_map2_div (fun a c => a * a + c * c)). unfold sq, vmul.
  f_equal. f_equal. f_equal. unfold Qcdiv. ring.
Qed.

(* the code before its fix *)
Lemma janon_orig_formula : janon_orig outputs n d = map (janon_orig_spec ya) ycs.
Proof.
  unfold janon_orig, outputs. rewrite (split_abc_blocks ya yb ycs n d Ha Hb Hd Hc).
  rewrite <- Hd. rewrite <- (map_nth_seq (janon_orig_spec ya) ycs). apply map_ext_in. intros i Hi.
  apply in_seq in Hi. unfold nthq. rewrite !nth_map_seq by lia.
  rewrite janon_mean_model. unfold janon_orig_spec, mean_prod. rewrite Ha, !qinv_mul_l.
  unfold vadd. rewrite map2_map_l, map2_map_r.
  rewrite (qsum_map2_div (fun a c => a * a + c * c)). unfold sq, vmul.
  f_equal. f_equal. f_equal. unfold Qcdiv. ring.
Qed.

Lemma glen_formula sqrt : glen sqrt outputs n d = map (glen_spec sqrt ya) ycs.
Proof.
  unfold glen, outputs. rewrite (split_abc_blocks ya yb ycs n d Ha Hb Hd Hc).
  rewrite <- Hd. rewrite <- (map_nth_seq (glen_spec sqrt ya) ycs). apply map_ext_in. intros i Hi.
  apply in_seq in Hi. rewrite !(nthq_map _ ycs []) by lia.
  unfold glen_spec. rewrite !np_var_Vpop, !np_mean_mean, Ha. f_equal. f_equal.
  unfold vmul. rewrite map2_map_l, map2_map_r. exact (qinv_mul_l _ _).
Qed.

Lemma glen_orig_formula sqrt : glen_orig sqrt outputs n d = map (glen_orig_spec sqrt ya) ycs.
Proof.
  unfold glen_orig, outputs. rewrite (split_abc_blocks ya yb ycs n d Ha Hb Hd Hc).
  rewrite <- Hd. rewrite <- (map_nth_seq (glen_orig_spec sqrt ya) ycs). apply map_ext_in. intros i Hi.
  apply in_seq in Hi. rewrite !(nthq_map _ ycs []) by lia.
  unfold glen_orig_spec. rewrite !np_var_Vpop, !np_mean_mean, Ha. f_equal. f_equal.
  unfold vmul. rewrite map2_map_l, map2_map_r. exact (qinv_mul_l _ _).
Qed.

Lemma glen_radicands_formula : glen_radicands outputs n d = map (fun yc => Vpop ya * Vpop yc) ycs.
Proof.
  unfold glen_radicands, outputs. rewrite (split_abc_blocks ya yb ycs n d Ha Hb Hd Hc).
  rewrite <- Hd. rewrite <- (map_nth_seq (fun yc => Vpop ya * Vpop yc) ycs). apply map_ext. intro i.
  rewrite !np_var_Vpop. reflexivity.
Qed.
End Formulas.

Lemma homma_eq_saltelli ya yc : Vpop ya <> 0 -> homma_spec ya yc = saltelli_spec ya yc.
Proof. intro H. unfold homma_spec, saltelli_spec. field. exact H. Qed.
(* ================= part 3: properties of the Jansen estimator ================= *)
Lemma Qc_div_nonneg a b : 0 <= a -> 0 <= b -> 0 <= a / b.
Proof.
  intros Ha Hb. qc2q. unfold Qdiv. apply Qmult_le_0_compat; [exact Ha | apply Qinv_le_0_compat; exact Hb].
Qed.

Lemma Qc_sq_nonneg x : 0 <= x * x.
Proof. qc2q. generalize (this x); intro y. nra. Qed.

Lemma qsum_nonneg l : (forall x, In x l -> 0 <= x) -> 0 <= qsum l.
Proof.
  induction l as [|x l IH]; intro H; cbn [qsum]; [apply Qcle_refl|].
  replace 0 with (0 + 0) by ring. apply Qcplus_le_compat; [apply H; left; reflexivity|].
  apply IH. intros; apply H; right; assumption.
Qed.

Lemma qn_nonneg n : 0 <= qn n.
Proof. unfold qn. qc2q. unfold Qle. cbn. lia. Qed.

Lemma qn_S n : qn (S n) = qn n + 1.
Proof. unfold qn. apply Qc_is_canon. qc2q. unfold Qeq. cbn [Qnum Qden Qplus]. lia. Qed.

Lemma qn_pos n : (1 <= n)%nat -> 0 < qn n.
Proof. intro H. unfold qn. qc2q. unfold Qlt. cbn. lia. Qed.

Lemma qn_neq0 n : (1 <= n)%nat -> qn n <> 0.
Proof. intros H E. pose proof (qn_pos n H) as P. rewrite E in P. exact (Qclt_not_eq _ _ P eq_refl). Qed.

Lemma two_nonneg : 0 <= two.
Proof. unfold two. qc2q. lra. Qed.

(* non-negative whenever the variance estimate is (it is a sum of squares over positive quantities) *)
Lemma jansen_nonneg ya yc : 0 <= Vhat ya -> 0 <= jansen_spec ya yc.
Proof.
  intro HV. unfold jansen_spec. apply Qc_div_nonneg; [|exact HV].
  apply Qc_div_nonneg.
  - apply qsum_nonneg. intros x Hx. rewrite map2_combine in Hx. apply in_map_iff in Hx.
    destruct Hx as [p [<- _]]. apply Qc_sq_nonneg.
  - replace 0 with (two * 0) by ring. rewrite !(Qcmult_comm two). apply Qcmult_le_compat_r; [apply qn_nonneg | apply two_nonneg].
Qed.

(* the variance estimate itself is non-negative as soon as there are two design points *)
Lemma Vhat_nonneg ya : (2 <= length ya)%nat -> 0 <= Vhat ya.
Proof.
  intro H. unfold Vhat. apply Qc_div_nonneg.
  - apply qsum_nonneg. intros x Hx. apply in_map_iff in Hx. destruct Hx as [v [<- _]]. apply Qc_sq_nonneg.
  - destruct (length ya) as [|[|m]]; try lia. rewrite qn_S. replace (qn (S m) + 1 - 1) with (qn (S m)) by ring.
    apply qn_nonneg.
Qed.

(* exactly zero for a dimension the outputs do not depend on *)
Lemma jansen_zero_inert ya : jansen_spec ya ya = 0.
Proof.
  unfold jansen_spec. rewrite map2_same.
  rewrite (qsum_map_ext _ (fun _ => 0)) by (intros; ring). rewrite qsum_zero. unfold Qcdiv. ring.
Qed.

(* invariant under affine rescaling of the outputs *)
Lemma qsum_affine a b l : qsum (map (fun y => a * y + b) l) = a * qsum l + qn (length l) * b.
Proof.
  induction l as [|x l IH]; cbn [map qsum length].
  - replace (qn 0) with 0 by (apply Qc_is_canon; reflexivity). ring.
  - rewrite IH, qn_S. ring.
Qed.

Lemma mean_affine a b l : l <> [] -> mean (map (fun y => a * y + b) l) = a * mean l + b.
Proof.
  intro Hl. unfold mean. rewrite map_length, qsum_affine.
  assert (qn (length l) <> 0) by (apply qn_neq0; destruct l; [congruence | cbn [length]; lia]).
  field. assumption.
Qed.

Lemma Vhat_affine a b l : l <> [] -> Vhat (map (fun y => a * y + b) l) = a * a * Vhat l.
Proof.
  intro Hl. unfold Vhat. rewrite (mean_affine a b l Hl), map_length, map_map.
  rewrite (qsum_map_ext _ (fun v => (a * a) * ((v - mean l) * (v - mean l)))) by (intros; ring).
  rewrite qsum_map_scale. unfold Qcdiv. ring.
Qed.

Lemma jansen_affine a b ya yc : a <> 0 -> ya <> [] ->
  jansen_spec (map (fun y => a * y + b) ya) (map (fun y => a * y + b) yc) = jansen_spec ya yc.
Proof.
  intros Ha Hl. unfold jansen_spec. rewrite (Vhat_affine a b ya Hl), map_length.
  rewrite map2_map_l, map2_map_r.
  rewrite (map2_ext _ (fun x c => (a * a) * ((x - c) * (x - c)))) by (intros; ring).
  rewrite (qsum_map2_scale (fun x c => (x - c) * (x - c))).
  assert (Haa : a * a <> 0) by (intro E; apply Qcmult_integral in E; tauto).
  unfold Qcdiv. rewrite !Qcinv_mult_distr.
  transitivity ((a * a * / (a * a)) *
    (qsum (map2 (fun x c => (x - c) * (x - c)) ya yc) * (/ two * / qn (length ya)) * / Vhat ya)).
  - rewrite Qcinv_mult_distr. ring.
  - rewrite Qcmult_inv_r by exact Haa. ring.
Qed.

(* the same three facts for the executable model on stacked outputs *)
Lemma jansen_model_nonneg ya yb ycs n d v :
  length ya = n -> length yb = n -> length ycs = d -> (forall c, In c ycs -> length c = n) ->
  0 < Vhat ya -> In v (jansen (ya ++ yb ++ concat ycs) n d) -> 0 <= v.
Proof.
  intros Ha Hb Hd Hc HV Hin. rewrite (jansen_formula ya yb ycs n d Ha Hb Hd Hc) in Hin.
  apply in_map_iff in Hin. destruct Hin as [yc [<- _]]. apply jansen_nonneg. apply Qclt_le_weak. exact HV.
Qed.

Lemma jansen_model_zero_inert ya yb ycs n d i :
  length ya = n -> length yb = n -> length ycs = d -> (forall c, In c ycs -> length c = n) ->
  (i < d)%nat -> nth i ycs [] = ya -> nthq (jansen (ya ++ yb ++ concat ycs) n d) i = 0.
Proof.
  intros Ha Hb Hd Hc Hi E. rewrite (jansen_formula ya yb ycs n d Ha Hb Hd Hc).
  rewrite (nthq_map _ ycs []) by lia. rewrite E. apply jansen_zero_inert.
Qed.

Lemma affine_stack a b (ya yb : list Qc) ycs :
  map (fun y => a * y + b) (ya ++ yb ++ concat ycs)
  = map (fun y => a * y + b) ya ++ map (fun y => a * y + b) yb ++ concat (map (map (fun y => a * y + b)) ycs).
Proof. rewrite !map_app, concat_map. reflexivity. Qed.

Lemma jansen_model_affine a b ya yb ycs n d :
  length ya = n -> length yb = n -> length ycs = d -> (forall c, In c ycs -> length c = n) ->
  a <> 0 -> (1 <= n)%nat ->
  jansen (map (fun y => a * y + b) (ya ++ yb ++ concat ycs)) n d = jansen (ya ++ yb ++ concat ycs) n d.
Proof.
  intros Ha Hb Hd Hc Hne Hn. rewrite affine_stack.
  rewrite (jansen_formula _ _ _ n d) by (rewrite ?map_length; auto;
    intros c Hin; apply in_map_iff in Hin; destruct Hin as [c0 [<- Hin]]; rewrite map_length; auto).
  rewrite (jansen_formula ya yb ycs n d Ha Hb Hd Hc), map_map. apply map_ext. intro yc.
  apply jansen_affine; [exact Hne | destruct ya; [cbn [length] in Ha; lia | congruence]].
Qed.
(* ================= part 4: make_binary, the explain loop, HSIC ================= *)
Lemma qz0 : qz 0 = 0. Proof. apply Qc_is_canon. reflexivity. Qed.
Lemma qz1 : qz 1 = 1. Proof. apply Qc_is_canon. reflexivity. Qed.

Lemma binary_round_range x : in_unit x -> is_binary (round_half_even x).
Proof.
  intros [H0 H1]. unfold round_half_even, is_binary.
  assert (Hf : qfloor x = 0%Z \/ qfloor x = 1%Z).
  { unfold qfloor. pose proof (Qfloor_le (this x)) as L. pose proof (Qlt_floor (this x)) as U.
    change (0 <= this x)%Q in H0. change (this x <= 1)%Q in H1.
    assert (A1 : (inject_Z (Qfloor (this x)) <= inject_Z 1)%Q) by (eapply Qle_trans; eauto).
    assert (A2 : (inject_Z 0 < inject_Z (Qfloor (this x) + 1))%Q) by (eapply Qle_lt_trans; eauto).
    rewrite <- Zle_Qle in A1. rewrite <- Zlt_Qlt in A2. lia. }
  destruct Hf as [Hf|Hf]; rewrite Hf.
  - cbn [Z.add Z.even]. rewrite qz0, qz1.
    destruct (Qcltb (x - 0) half); [left; reflexivity|].
    destruct (Qcltb half (x - 0)); [right; reflexivity | left; reflexivity].
  - assert (Hx : x = 1).
    { apply Qcle_antisym; [exact H1|]. unfold qfloor in Hf. pose proof (Qfloor_le (this x)) as L.
      rewrite Hf in L. exact L. }
    subst x. right. replace (Qcltb (1 - qz 1) half) with true by (vm_compute; reflexivity). apply qz1.
Qed.

Lemma make_binary_range pts :
  (forall r, In r pts -> forall v, In v r -> in_unit v) ->
  forall r, In r (make_binary pts) -> forall v, In v r -> is_binary v.
Proof.
  intros H r Hr v Hv. unfold make_binary in Hr. apply in_map_iff in Hr. destruct Hr as [r0 [<- Hr0]].
  apply in_map_iff in Hv. destruct Hv as [v0 [<- Hv0]]. apply binary_round_range. eapply H; eauto.
Qed.

(* ---------- the explain loop ---------- *)
Lemma fold_app_outputs {T U} (f : T -> U) (cs : list (list T)) acc :
  fold_left (fun outputs bm => outputs ++ map f bm) cs acc = acc ++ concat (map (map f) cs).
Proof. revert acc; induction cs as [|c cs IH]; intro acc; cbn [fold_left map concat]; [symmetry; apply app_nil_r|].
  rewrite IH, app_assoc. reflexivity. Qed.

Lemma gsa_outputs_correct score p g H W C bs masks x t : bs_valid bs ->
  gsa_outputs score p g H W C bs masks x t = perturbed_scores score p g H W C masks x t.
Proof.
  intro Hb. unfold gsa_outputs, perturbed_scores. rewrite fold_app_outputs. cbn [app].
  destruct masks as [|m masks]; [reflexivity|].
  apply map_chunks. destruct bs as [b|]; cbn [eff_bs length bs_valid] in *; lia.
Qed.

Lemma gsa_explain_correct score est pf g H W C bs masks xs ts : bs_valid bs ->
  gsa_explain score est pf g H W C bs masks xs ts
  = map2 (fun x t => est (perturbed_scores score (pf x) g H W C masks x t)) xs ts.
Proof.
  intro Hb. unfold gsa_explain, gsa_explain_one. apply map2_ext. intros x t.
  rewrite gsa_outputs_correct by exact Hb. reflexivity.
Qed.

(* Sobol: the map (before the resize) of every input is, cell by cell, the Jansen formula of the scores of the
   input perturbed by the rows of A and of C_i, for every forward batch size *)
Lemma sobol_map_is_estimator score pf g H W C bs n A B xs ts :
  bs_valid bs -> is_matrix n (g * g) A -> is_matrix n (g * g) B ->
  sobol_explain score jansen pf g H W C bs n (replicated_design (g * g) A B) xs ts
  = map2 (fun x t => let s := fun m => score (perturb (pf x) g H W C x m) t in
                     map (fun i => jansen_spec (map s A) (map s (c_block i A B))) (seq 0 (g * g))) xs ts.
Proof.
  intros Hb HA HB. unfold sobol_explain. rewrite gsa_explain_correct by exact Hb.
  apply map2_ext. intros x t. cbv zeta. unfold perturbed_scores.
  set (s := fun m => score (perturb (pf x) g H W C x m) t).
  pose proof HA as [HAl _]. pose proof HB as [HBl _].
  unfold replicated_design. rewrite build_as_concat, !map_app, concat_map, map_map.
  rewrite (jansen_formula (map s A) (map s B) _ n (g * g)%nat); rewrite ?map_length, ?seq_length; auto.
  - rewrite map_map. reflexivity.
  - intros c Hc. apply in_map_iff in Hc. destruct Hc as [i [<- _]]. rewrite map_length, c_block_length; lia.
Qed.

(* the same statement for any of the estimators [est] given its formula [spec] *)
Lemma sobol_map_is_estimator_gen (est : list Qc -> nat -> nat -> list Qc) (spec : list Qc -> list Qc -> Qc) :
  (forall ya yb ycs n d, length ya = n -> length yb = n -> length ycs = d ->
      (forall c, In c ycs -> length c = n) -> est (ya ++ yb ++ concat ycs) n d = map (spec ya) ycs) ->
  forall score pf g H W C bs n A B xs ts,
  bs_valid bs -> is_matrix n (g * g) A -> is_matrix n (g * g) B ->
  sobol_explain score est pf g H W C bs n (replicated_design (g * g) A B) xs ts
  = map2 (fun x t => let s := fun m => score (perturb (pf x) g H W C x m) t in
                     map (fun i => spec (map s A) (map s (c_block i A B))) (seq 0 (g * g))) xs ts.
Proof.
  intros Hest score pf g H W C bs n A B xs ts Hb HA HB. unfold sobol_explain.
  rewrite gsa_explain_correct by exact Hb.
  apply map2_ext. intros x t. cbv zeta. unfold perturbed_scores.
  set (s := fun m => score (perturb (pf x) g H W C x m) t).
  pose proof HA as [HAl _]. pose proof HB as [HBl _].
  unfold replicated_design. rewrite build_as_concat, !map_app, concat_map, map_map.
  rewrite (Hest (map s A) (map s B) _ n (g * g)%nat); rewrite ?map_length, ?seq_length; auto.
  - rewrite map_map. reflexivity.
  - intros c Hc. apply in_map_iff in Hc. destruct Hc as [i [<- _]]. rewrite map_length, c_block_length; lia.
Qed.

(* a grid cell the score does not depend on (the outputs on C_i equal the outputs on A) gets exactly 0 *)
Lemma sobol_cell_zero_inert score pf g H W C bs n A B x t i :
  bs_valid bs -> is_matrix n (g * g) A -> is_matrix n (g * g) B -> (i < g * g)%nat ->
  (forall ra rc, In (ra, rc) (combine A (c_block i A B)) ->
      score (perturb (pf x) g H W C x rc) t = score (perturb (pf x) g H W C x ra) t) ->
  nthq (nth 0 (sobol_explain score jansen pf g H W C bs n (replicated_design (g * g) A B) [x] [t]) []) i = 0.
Proof.
  intros Hb HA HB Hi Hs. rewrite sobol_map_is_estimator by assumption. cbn [map2 nth]. cbv zeta.
  unfold nthq. rewrite nth_map_seq by exact Hi.
  set (s := fun m => score (perturb (pf x) g H W C x m) t).
  assert (E : map s (c_block i A B) = map s A).
  { pose proof HA as [HAl _]. pose proof HB as [HBl _].
    assert (Hlen : length (c_block i A B) = length A) by (apply c_block_length; lia).
    revert Hlen Hs. generalize (c_block i A B) as Cb. clear. intros Cb. revert Cb.
    induction A as [|ra A IH]; intros [|rc Cb] Hlen Hs; cbn [length] in Hlen; try lia; [reflexivity|].
    cbn [map]. f_equal; [apply Hs; left; reflexivity|]. apply IH; [lia|]. intros a c Hin. apply Hs. right. exact Hin. }
  rewrite E. apply jansen_zero_inert.
Qed.

(* ---------- HSIC ---------- *)
Lemma hsic_batch_map gramf L n xs : hsic_batch gramf L n xs = map (hsic_one gramf L n) xs.
Proof. reflexivity. Qed.

(* every dimension gets the score of ITS column, whatever the estimator batch size *)
Lemma hsic_per_dimension gramf ebs dims L n : (1 <= ebs)%nat ->
  hsic_estimator gramf ebs dims L n = map (hsic_one gramf L n) dims.
Proof.
  intro Hb. unfold hsic_estimator. destruct dims as [|x dims]; [reflexivity|].
  rewrite (map_ext _ _ (hsic_batch_map gramf L n)). apply map_chunks.
  cbn [length]. destruct (ebs <? S (length dims))%nat; lia.
Qed.

Lemma hsic_batch_invariant gramf ebs ebs' dims L n : (1 <= ebs)%nat -> (1 <= ebs')%nat ->
  hsic_estimator gramf ebs dims L n = hsic_estimator gramf ebs' dims L n.
Proof. intros. rewrite !hsic_per_dimension by assumption. reflexivity. Qed.

Close Scope Qc_scope. Open Scope nat_scope.
Definition swap_idx (g p : nat) : nat := (p mod g) * g + p / g.

Lemma swap_idx_lt g p : p < g * g -> swap_idx g p < g * g.
Proof.
  intro H. assert (g <> 0) by (intro; subst; lia). unfold swap_idx.
  pose proof (Nat.mod_upper_bound p g ltac:(assumption)).
  assert (p / g < g) by (apply Nat.div_lt_upper_bound; [assumption | lia]). nia.
Qed.

Lemma swap_idx_invol g p : p < g * g -> swap_idx g (swap_idx g p) = p.
Proof.
  intro H. assert (Hg : g <> 0) by (intro; subst; lia). unfold swap_idx.
  assert (Ha : p / g < g) by (apply Nat.div_lt_upper_bound; [assumption | lia]).
  set (a := p / g) in *. set (b := p mod g).
  assert (E1 : (b * g + a) mod g = a).
  { rewrite Nat.add_comm, Nat.mod_add by exact Hg. apply Nat.mod_small. exact Ha. }
  assert (E2 : (b * g + a) / g = b).
  { rewrite Nat.div_add_l by exact Hg. rewrite (Nat.div_small a g Ha). lia. }
  rewrite E1, E2. unfold a, b. rewrite (Nat.div_mod p g Hg) at 3. lia.
Qed.

(* cell p of the HSIC map (before the resize) is the HSIC score of column p of the design *)
Lemma hsic_map_per_cell gramf ebs g design L n : 1 <= ebs ->
  hsic_map gramf ebs g design L n = map (fun p => hsic_one gramf L n (col p design)) (seq 0 (g * g)).
Proof.
  intro Hb. unfold hsic_map, hsic_post. rewrite hsic_per_dimension by exact Hb.
  unfold hsic_dims. rewrite map_map. apply map_ext_in. intros p Hp. apply in_seq in Hp.
  fold (swap_idx g p). unfold nthq. rewrite nth_map_seq by (apply swap_idx_lt; lia).
  fold (swap_idx g (swap_idx g p)). rewrite swap_idx_invol by lia. reflexivity.
Qed.

(* hence the scores permute with the grid cells *)
Lemma hsic_permute gramf ebs g design design' L n (pi : nat -> nat) p : 1 <= ebs ->
  p < g * g -> pi p < g * g -> col p design' = col (pi p) design ->
  nthq (hsic_map gramf ebs g design' L n) p = nthq (hsic_map gramf ebs g design L n) (pi p).
Proof.
  intros Hb Hp Hpi E. rewrite !hsic_map_per_cell by exact Hb. unfold nthq.
  rewrite !nth_map_seq by assumption. rewrite E. reflexivity.
Qed.

Lemma hsic_explain_correct score gramf Lof pf g H W C bs ebs n masks xs ts : bs_valid bs -> 1 <= ebs ->
  hsic_explain score gramf Lof pf g H W C bs ebs n masks xs ts
  = map2 (fun x t => let o := perturbed_scores score (pf x) g H W C masks x t in
                     map (fun p => hsic_one gramf (Lof o) n (col p masks)) (seq 0 (g * g))) xs ts.
Proof.
  intros Hb He. unfold hsic_explain. rewrite gsa_explain_correct by exact Hb.
  apply map2_ext. intros x t. cbv zeta. apply hsic_map_per_cell. exact He.
Qed.

(* ================= part 5: value ranges of the designs; Janon's normalisation ================= *)
Lemma in_set_nth {T} i (w : T) l v : In v (set_nth i w l) -> v = w \/ In v l.
Proof.
  revert i; induction l as [|x l IH]; intros [|i] H; cbn [set_nth] in H; try contradiction.
  - destruct H as [<-|H]; [left; reflexivity | right; right; exact H].
  - destruct H as [<-|H]; [right; left; reflexivity|]. destruct (IH i H); [left | right; right]; assumption.
Qed.

(* every value of the replicated design is a value of A or of B: ranges ([0,1]) carry over *)
Lemma design_range (P : Qc -> Prop) n d A B : is_matrix n d A -> is_matrix n d B ->
  (forall r, In r A -> forall v, In v r -> P v) -> (forall r, In r B -> forall v, In v r -> P v) ->
  forall r, In r (replicated_design d A B) -> forall v, In v r -> P v.
Proof.
  intros [HAl HAr] [HBl HBr] PA PB r Hr v Hv. unfold replicated_design in Hr.
  apply in_app_or in Hr. destruct Hr as [Hr|Hr]; [eapply PA; eauto|].
  apply in_app_or in Hr. destruct Hr as [Hr|Hr]; [eapply PB; eauto|].
  unfold build_replicated_design in Hr. apply in_flat_map in Hr. destruct Hr as [i [Hi Hr]].
  apply in_seq in Hi. unfold c_block in Hr. rewrite map2_combine in Hr. apply in_map_iff in Hr.
  destruct Hr as [[ra rb] [<- Hin]]. cbn [fst snd] in Hv.
  pose proof (in_combine_l _ _ _ _ Hin) as Hra. pose proof (in_combine_r _ _ _ _ Hin) as Hrb.
  apply in_set_nth in Hv. destruct Hv as [->|Hv]; [|eapply PA; eauto].
  apply (PB rb Hrb). unfold nthq. apply nth_In. rewrite (HBr rb Hrb). lia.
Qed.

Open Scope Qc_scope.
(* the Janon estimator as the code had it BEFORE the fix is NOT the published one: it normalised the second moment
   by 1/(N-1) *)
Lemma janon_orig_not_published :
  exists ya yc, length ya = length yc /\ (2 <= length ya)%nat /\ janon_orig_spec ya yc <> janon_published ya yc.
Proof.
  exists [0; 1; two], [1; 0; two]. repeat split; [cbn; lia|].
  intro E. apply (f_equal (fun x => Qnum (this x))) in E. vm_compute in E. discriminate.
Qed.

(* the same at the level of the executable transcriptions: old code <> current code on a stacked output vector *)
Lemma janon_orig_differs :
  exists outputs n d, length outputs = (n * (d + 2))%nat /\ janon_orig outputs n d <> janon outputs n d.
Proof.
  exists ([0; 1; two] ++ [0; 0; 0] ++ [1; 0; two]), 3%nat, 1%nat. split; [reflexivity|].
  intro E. apply (f_equal (map (fun x => Qnum (this x)))) in E. vm_compute in E. discriminate.
Qed.

(* ================= part 7: Homma, Saltelli, Janon, Glen give exactly 0 on an inert dimension ================= *)
Lemma qsum_centred_sq m l :
  qsum (map (fun v => (v - m) * (v - m)) l)
  = qsum (map (fun v => v * v) l) - m * qsum l - m * qsum l + qn (length l) * (m * m).
Proof.
  induction l as [|x l IH]; cbn [map qsum length].
  - replace (qn 0) with 0 by (apply Qc_is_canon; reflexivity). ring.
  - rewrite IH, qn_S. ring.
Qed.

Lemma Vpop_nonzero_length y : Vpop y <> 0 -> (1 <= length y)%nat.
Proof.
  intro H. destruct y as [|v y]; [|cbn [length]; lia]. exfalso. apply H. unfold Vpop. cbn [map qsum].
  unfold Qcdiv. ring.
Qed.

(* the empirical covariance of f(A) with itself is its population variance *)
Lemma self_cov_Vpop ya : Vpop ya <> 0 -> mean_prod ya ya - mean ya * mean ya = Vpop ya.
Proof.
  intro HV. pose proof (qn_neq0 _ (Vpop_nonzero_length ya HV)) as HN.
  unfold mean_prod, Vpop. rewrite map2_same, qsum_centred_sq. unfold mean. field. exact HN.
Qed.

Lemma homma_zero_inert ya : Vpop ya <> 0 -> homma_spec ya ya = 0.
Proof. intro HV. unfold homma_spec. rewrite self_cov_Vpop by exact HV. unfold Qcdiv. ring. Qed.

Lemma saltelli_zero_inert ya : Vpop ya <> 0 -> saltelli_spec ya ya = 0.
Proof. intro HV. unfold saltelli_spec. rewrite self_cov_Vpop by exact HV. field. exact HV. Qed.

Lemma two_is_11 : two = 1 + 1.
Proof. apply Qc_is_canon. reflexivity. Qed.
Lemma two_neq0 : two <> 0.
Proof. intro E. apply (f_equal (fun x => Qnum (this x))) in E. vm_compute in E. discriminate. Qed.

Lemma add_self_half a : (a + a) / two = a.
Proof.
  unfold Qcdiv. transitivity (a * ((1 + 1) * / two)); [ring|].
  rewrite <- two_is_11, Qcmult_inv_r by apply two_neq0. ring.
Qed.

Lemma janon_zero_inert ya : Vpop ya <> 0 -> janon_published ya ya = 0.
Proof.
  intro HV. pose proof (qn_neq0 _ (Vpop_nonzero_length ya HV)) as HN.
  assert (Em : janon_mean ya ya = mean ya).
  { unfold janon_mean, mean. f_equal. rewrite map2_same.
    f_equal. rewrite <- (map_id ya) at 2. apply map_ext. intro a. apply add_self_half. }
  assert (Es : qsum (map2 (fun a c => (a * a + c * c) / two) ya ya) / qn (length ya) - mean ya * mean ya = Vpop ya).
  { rewrite <- (self_cov_Vpop ya HV). unfold mean_prod. f_equal. f_equal. rewrite !map2_same.
    f_equal. apply map_ext. intro a. apply add_self_half. }
  unfold janon_published. rewrite Em, Es, (self_cov_Vpop ya HV). field. exact HV.
Qed.

(* Glen: needs what a square root does on a square *)
Lemma glen_zero_inert (sqrt : Qc -> Qc) ya :
  Vpop ya <> 0 -> sqrt (Vpop ya * Vpop ya) = Vpop ya -> glen_spec sqrt ya ya = 0.
Proof.
  intros HV Hs. unfold glen_spec. rewrite Hs. rewrite map2_same. fold (Vpop ya). field. exact HV.
Qed.

(* the same on the executable models *)
Section ZeroInert.
Variables (ya yb : list Qc) (ycs : list (list Qc)) (n d i : nat).
Hypothesis Ha : length ya = n.
Hypothesis Hb : length yb = n.
Hypothesis Hd : length ycs = d.
Hypothesis Hc : forall c, In c ycs -> length c = n.
Hypothesis Hi : (i < d)%nat.
Hypothesis Hinert : nth i ycs [] = ya.
Hypothesis HV : 0 < Vpop ya.

Let HV0 : Vpop ya <> 0.
Proof. intro E. rewrite E in HV. exact (Qclt_not_eq _ _ HV eq_refl). Qed.

Lemma homma_model_zero_inert : nthq (homma (ya ++ yb ++ concat ycs) n d) i = 0.
Proof. rewrite (homma_formula ya yb ycs n d Ha Hb Hd Hc), (nthq_map _ ycs []) by lia.
  rewrite Hinert. apply homma_zero_inert. exact HV0. Qed.
Lemma saltelli_model_zero_inert : nthq (saltelli (ya ++ yb ++ concat ycs) n d) i = 0.
Proof. rewrite (saltelli_formula ya yb ycs n d Ha Hb Hd Hc), (nthq_map _ ycs []) by lia.
  rewrite Hinert. apply saltelli_zero_inert. exact HV0. Qed.
Lemma janon_model_zero_inert : nthq (janon (ya ++ yb ++ concat ycs) n d) i = 0.
Proof. rewrite (janon_formula ya yb ycs n d Ha Hb Hd Hc), (nthq_map _ ycs []) by lia.
  rewrite Hinert. apply janon_zero_inert. exact HV0. Qed.
Lemma glen_model_zero_inert (sqrt : Qc -> Qc) :
  (forall v, 0 <= v -> sqrt (v * v) = v) -> nthq (glen sqrt (ya ++ yb ++ concat ycs) n d) i = 0.
Proof. intro Hs. rewrite (glen_formula ya yb ycs n d Ha Hb Hd Hc), (nthq_map _ ycs []) by lia.
  rewrite Hinert. apply glen_zero_inert; [exact HV0 | apply Hs; apply Qclt_le_weak; exact HV]. Qed.
End ZeroInert.

(* records of the defects fixed in /repo: with the old normalisations an inert dimension did not get 0.
   Witness f(A) = f(C_0) = [0; 1] (n = 2): Homma and Saltelli gave 1/2 = 1/n, Glen gave -1 = -1/(n-1). *)
Lemma homma_zero_inert_refuted_orig :
  exists ya yb, length ya = 2%nat /\ length yb = 2%nat /\ 0 < Vhat ya /\
    nthq (homma_orig (ya ++ yb ++ concat [ya]) 2 1) 0 = half.
Proof. exists [0; 1], [0; 0]. repeat split; try reflexivity; apply Qc_is_canon; vm_compute; reflexivity. Qed.

Lemma saltelli_zero_inert_refuted_orig :
  exists ya yb, length ya = 2%nat /\ length yb = 2%nat /\ 0 < Vhat ya /\
    nthq (saltelli_orig (ya ++ yb ++ concat [ya]) 2 1) 0 = half.
Proof. exists [0; 1], [0; 0]. repeat split; try reflexivity; apply Qc_is_canon; vm_compute; reflexivity. Qed.

Lemma glen_zero_inert_refuted_orig :
  exists (sqrt : Qc -> Qc) ya yb, length ya = 2%nat /\ length yb = 2%nat /\ 0 < Vpop ya /\
    is_sqrt sqrt (Vpop ya * Vpop ya) /\ sqrt (Vpop ya * Vpop ya) = Vpop ya /\
    nthq (glen_orig sqrt (ya ++ yb ++ concat [ya]) 2 1) 0 = - (1).
Proof.
  exists (sqrt_table [(q 1 16, q 1 4)]), [0; 1], [0; 0].
  repeat split; try reflexivity; try (apply Qc_is_canon; vm_compute; reflexivity).
  vm_compute. discriminate.
Qed.

