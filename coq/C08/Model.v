(* C08/Model.v — executable transcription of xplique/attributions/global_sensitivity_analysis (no proofs here)

   replicated_designs.py
     build_replicated_design(A, B):
        C = np.array([A.copy() for _ in range(A.shape[-1])])
        for i in range(len(C)):  C[i, :, i] = B[:, i]
        return C.reshape((-1, A.shape[-1]))
     *RS.__call__(dimension, nb_design):
        AB = <library draw>(dimension*2, nb_design)            (n rows, 2d columns; an INPUT of the model)
        A, B = AB[:, :dimension], AB[:, dimension:]
        return np.concatenate([A, B, build_replicated_design(A, B)], 0)
   samplers.py
     Sampler.__call__: points = <library draw>(dimension, nb_design); if self.binary: points = np.round(points)
   sobol_estimators.py
     split_abc(outputs, n, d): a = outputs[:n]; b = outputs[n:n*2];
                               c = [outputs[n*2 + n*i : n*2 + n*(i+1)] for i in range(d)]
     Jansen:   mu_a = mean(a); var = sum([(v - mu_a)**2 for v in a]) / (len(a) - 1)
               [sum((a - c[i])**2) / (2 * n * var)]
     Homma:    mu_a = mean(a); var = sum([(v - mu_a)**2 for v in a]) / len(a)
               [(var - (1/n) * sum(a * c[i]) + mu_a**2) / var]
     Janon:    mu_ac[i] = (1/n) * sum(a + c[i]) / 2
               var[i]   = (1/n) * sum(a**2 + c[i]**2) / 2 - mu_ac[i]**2
               [1 - ((1/n) * sum(a * c[i]) - mu_ac[i]**2) / var[i]]
               (before the fix "Janon estimator normalises the second moment by 1/N as published" the code had
                var[i] = (1/(n - 1)) * sum(...) / 2 - mu_ac[i]**2: kept below as [janon_orig], record of the defect)
     Glen:     mu_a = mean(a); mu_c[i] = mean(c[i]); var_a = np.var(a); var_c[i] = np.var(c[i])   (population)
               [1 - (1/n * sum((a - mu_a) * (c[i] - mu_c[i])) / (var_a * var_c[i])**0.5)]
     Saltelli: mu_a = mean(a); var = sum([(v - mu_a)**2 for v in a]) / len(a)
               [1 - ((1/n) * sum(a * c[i]) - mu_a**2) / var]
     (before the fixes "Homma and Saltelli estimators use the same 1/N normalisation for the variance as for the other
      moments" and "Glen estimator normalises the covariance like the variances" Homma / Saltelli divided the
      variance by len(a) - 1 and Glen the covariance by n - 1: kept below as [homma_orig], [saltelli_orig],
      [glen_orig], records of the defect: an inert dimension got 1/n, resp. -1/(n-1), instead of 0)
     post_process: float32 cast, reshape(masks.shape[1:])         (row-major: identity on flat data)
   kernels.py
     rbf(X, Y, width) = exp(-(X - Y)**2 / (2 * width**2));  binary(X, Y) = 0.5 - (X - Y)**2
     sobolev(X, Y) = ((|X-Y|**2 - |X-Y| + 1/6) / 2) + (|X| - 0.5) * (|Y| - 0.5)
   hsic_estimators.py
     estimator(masks, L, nb_dim, n):
        X = tf.transpose(masks); X1 = reshape(X, (nb_dim, 1, n, 1)); X2 = transpose(X1, [0,1,3,2])
        batch_size = self.batch_size if nb_dim > self.batch_size else nb_dim
        scores = []
        for x1, x2 in batch_tensor((X1, X2), batch_size):
            K  = reduce_prod(1 + input_kernel(x1, x2), axis=1)             (axis 1 has size 1)
            H  = eye(n) - ones((n, n)) / n
            Kc = (H @ K_i) @ H   for every i of the batch;  Lc = (H @ L) @ H
            score = reduce_sum(Kc * transpose(Lc), axis=[1, 2]) / n
            scores = concat([scores, score])
     __call__(masks, outputs, n): Y = reshape(float32(outputs), (n, 1)); L = output_kernel(Y, Y^T) with
        width = np.percentile(Y, 50);  post_process(score) = transpose(score.reshape(g, g, 1), (1, 0, 2))
   gsa_attribution_method.py
     __init__: self.masks = sampler(grid_size**2, nb_design).reshape((-1, g, g, 1))
     explain: batch_size = self.batch_size or len(self.masks)
              for (inp, target):  perturbator = perturbation_function(inp); outputs = []
                for batch_masks in batch_tensor(self.masks, batch_size):
                    up = tf.image.resize(batch_masks, (H, W), "nearest"); px = perturbator(up)
                    outputs ++= inference_function(model, px, repeat_labels(target, len(batch_masks)))
                heatmap = estimator(self.masks, outputs, nb_design);  then bicubic resize (library: not modelled)
   perturbations.py
     inpainting: x * m + (1 - m) * 0;  blurring: x * m + (1 - m) * cv2.blur(x);  amplitude: x * (m - 0.5) * sigma

   Library calls that are arguments here: the QMC / LHS draws, sqrt (Glen), exp (rbf kernel: the model returns the
   argument of exp and receives the Gram matrix), np.percentile (the width is an argument), cv2.blur (x0 is an
   argument), the user model (score), the final bicubic tf.image.resize (the model stops before it). *)
From Xpl Require Export Base.ListX.
From Coq Require Export Qround.
Close Scope Qc_scope. Open Scope nat_scope.

(* ------------------------------------------------------------------ replicated designs *)
Fixpoint set_nth {T} (i : nat) (v : T) (l : list T) : list T :=
  match l, i with
  | [], _ => []
  | _ :: r, O => v :: r
  | x :: r, S j => x :: set_nth j v r
  end.

Definition col (i : nat) (M : list (list Qc)) : list Qc := map (fun r => nthq r i) M.

(* C[i] = A.copy(); C[i, :, i] = B[:, i] *)
Definition c_block (i : nat) (A B : list (list Qc)) : list (list Qc) :=
  map2 (fun ra rb => set_nth i (nthq rb i) ra) A B.

(* np.array([... for _ in range(d)]) ... reshape((-1, d)): the d blocks one after the other *)
Definition build_replicated_design (d : nat) (A B : list (list Qc)) : list (list Qc) :=
  flat_map (fun i => c_block i A B) (seq 0 d).

Definition replicated_design (d : nat) (A B : list (list Qc)) : list (list Qc) :=
  A ++ B ++ build_replicated_design d A B.

(* the four replicated samplers: AB is the (n, 2d) library draw *)
Definition replicated_sampler (d : nat) (AB : list (list Qc)) : list (list Qc) :=
  replicated_design d (map (firstn d) AB) (map (skipn d) AB).

(* ------------------------------------------------------------------ plain samplers, make_binary *)
Open Scope Qc_scope.

Definition qfloor (x : Qc) : Z := Qfloor (this x).
(* np.round: nearest integer, ties to even *)
Definition round_half_even (x : Qc) : Qc :=
  let f := qfloor x in
  let r := x - qz f in
  if Qcltb r half then qz f
  else if Qcltb half r then qz (f + 1)
  else if Z.even f then qz f else qz (f + 1).

Definition make_binary (pts : list (list Qc)) : list (list Qc) := map (map round_half_even) pts.
Definition plain_sampler (binary : bool) (pts : list (list Qc)) : list (list Qc) :=
  if binary then make_binary pts else pts.

(* ------------------------------------------------------------------ Sobol estimators *)
(* outputs[lo:hi] (Python slices truncate silently) *)
Definition slice {T} (lo hi : nat) (l : list T) : list T := firstn (hi - lo) (skipn lo l).

Definition split_abc {T} (outputs : list T) (n d : nat) : list T * list T * list (list T) :=
  (slice 0 n outputs,
   slice n (n * 2) outputs,
   map (fun i => slice (n * 2 + n * i) (n * 2 + n * (i + 1)) outputs) (seq 0 d)).

Definition sq (x : Qc) : Qc := x * x.
Definition np_mean (l : list Qc) : Qc := qsum l / qn (length l).
(* np.var: population variance *)
Definition np_var (l : list Qc) : Qc := np_mean (map (fun v => sq (v - np_mean l)) l).
(* sum([(v - mu)**2 for v in a]) / (len(a) - 1) *)
Definition var_unbiased (a : list Qc) : Qc :=
  qsum (map (fun v => sq (v - np_mean a)) a) / (qn (length a) - 1).

(* sum([(v - mu)**2 for v in a]) / len(a) *)
Definition var_pop (a : list Qc) : Qc :=
  qsum (map (fun v => sq (v - np_mean a)) a) / qn (length a).

Definition jansen (outputs : list Qc) (n d : nat) : list Qc :=
  let '(a, _, c) := split_abc outputs n d in
  let var := var_unbiased a in
  map (fun i => qsum (map sq (vsub a (nth i c []))) / (two * qn n * var)) (seq 0 d).

Definition homma (outputs : list Qc) (n d : nat) : list Qc :=
  let '(a, _, c) := split_abc outputs n d in
  let mu_a := np_mean a in
  let var := var_pop a in
  map (fun i => (var - (1 / qn n) * qsum (vmul a (nth i c [])) + sq mu_a) / var) (seq 0 d).

(* before the fix: unbiased variance *)
Definition homma_orig (outputs : list Qc) (n d : nat) : list Qc :=
  let '(a, _, c) := split_abc outputs n d in
  let mu_a := np_mean a in
  let var := var_unbiased a in
  map (fun i => (var - (1 / qn n) * qsum (vmul a (nth i c [])) + sq mu_a) / var) (seq 0 d).

Definition janon (outputs : list Qc) (n d : nat) : list Qc :=
  let '(a, _, c) := split_abc outputs n d in
  let mu_ac := map (fun i => (1 / qn n) * qsum (vadd a (nth i c [])) / two) (seq 0 d) in
  let var := map (fun i => (1 / qn n) * qsum (vadd (map sq a) (map sq (nth i c []))) / two
                           - sq (nthq mu_ac i)) (seq 0 d) in
  map (fun i => 1 - ((1 / qn n) * qsum (vmul a (nth i c [])) - sq (nthq mu_ac i)) / nthq var i) (seq 0 d).

(* the transcription of the code BEFORE the fix: second moment normalised by 1/(n - 1) *)
Definition janon_orig (outputs : list Qc) (n d : nat) : list Qc :=
  let '(a, _, c) := split_abc outputs n d in
  let mu_ac := map (fun i => (1 / qn n) * qsum (vadd a (nth i c [])) / two) (seq 0 d) in
  let var := map (fun i => (1 / (qn n - 1)) * qsum (vadd (map sq a) (map sq (nth i c []))) / two
                           - sq (nthq mu_ac i)) (seq 0 d) in
  map (fun i => 1 - ((1 / qn n) * qsum (vmul a (nth i c [])) - sq (nthq mu_ac i)) / nthq var i) (seq 0 d).

(* the radicands handed to **0.5, one per dimension *)
Definition glen_radicands (outputs : list Qc) (n d : nat) : list Qc :=
  let '(a, _, c) := split_abc outputs n d in
  map (fun i => np_var a * np_var (nth i c [])) (seq 0 d).

Definition glen (sqrt : Qc -> Qc) (outputs : list Qc) (n d : nat) : list Qc :=
  let '(a, _, c) := split_abc outputs n d in
  let mu_a := np_mean a in
  let mu_c := map np_mean c in
  let var_a := np_var a in
  let var_c := map np_var c in
  map (fun i => 1 - (1 / qn n * qsum (vmul (map (fun v => v - mu_a) a)
                                           (map (fun v => v - nthq mu_c i) (nth i c [])))
                     / sqrt (var_a * nthq var_c i))) (seq 0 d).

(* before the fix: covariance normalised by 1/(n - 1) *)
Definition glen_orig (sqrt : Qc -> Qc) (outputs : list Qc) (n d : nat) : list Qc :=
  let '(a, _, c) := split_abc outputs n d in
  let mu_a := np_mean a in
  let mu_c := map np_mean c in
  let var_a := np_var a in
  let var_c := map np_var c in
  map (fun i => 1 - (1 / (qn n - 1) * qsum (vmul (map (fun v => v - mu_a) a)
                                                 (map (fun v => v - nthq mu_c i) (nth i c [])))
                     / sqrt (var_a * nthq var_c i))) (seq 0 d).

Definition saltelli (outputs : list Qc) (n d : nat) : list Qc :=
  let '(a, _, c) := split_abc outputs n d in
  let mu_a := np_mean a in
  let var := var_pop a in
  map (fun i => 1 - ((1 / qn n) * qsum (vmul a (nth i c [])) - sq mu_a) / var) (seq 0 d).

(* before the fix: unbiased variance *)
Definition saltelli_orig (outputs : list Qc) (n d : nat) : list Qc :=
  let '(a, _, c) := split_abc outputs n d in
  let mu_a := np_mean a in
  let var := var_unbiased a in
  map (fun i => 1 - ((1 / qn n) * qsum (vmul a (nth i c [])) - sq mu_a) / var) (seq 0 d).

(* executions need a concrete sqrt: a table (radicand, root) supplied by the harness (math.sqrt), looked up by
   exact equality; a missing key gives -1, which no valid root is *)
Definition sqrt_table (tab : list (Qc * Qc)) (v : Qc) : Qc :=
  match find (fun p => Qceqb (fst p) v) tab with Some p => snd p | None => - (1) end.

(* ------------------------------------------------------------------ kernels *)
Definition k_binary (x y : Qc) : Qc := half - sq (x - y).
Definition k_sobolev (x y : Qc) : Qc :=
  let xx := Qcabs (x - y) in
  (sq xx - xx + q 1 6) / two + (Qcabs x - half) * (Qcabs y - half).
(* argument of exp in rbf(X, Y, width) *)
Definition rbf_exponent (w x y : Qc) : Qc := - sq (x - y) / (two * sq w).

(* ------------------------------------------------------------------ HSIC estimator *)
Definition mat := list (list Qc).
Definition delta (j k : nat) : Qc := if Nat.eqb j k then 1 else 0.
(* H = eye(n) - ones((n, n)) / n *)
Definition centering (n : nat) : mat :=
  map (fun j => map (fun k => delta j k - 1 / qn n) (seq 0 n)) (seq 0 n).
Definition matmul (n : nat) (P Q : mat) : mat :=
  map (fun rp => map (fun k => dot rp (col k Q)) (seq 0 n)) P.
(* input Gram matrix of one dimension: reduce_prod(1 + K, axis=1) over an axis of size 1 *)
Definition gram (gramf : list Qc -> mat) (x : list Qc) : mat := map (map (fun v => 1 + v)) (gramf x).
(* Gram matrix of a rational kernel *)
Definition gram_of (kern : Qc -> Qc -> Qc) (x : list Qc) : mat := map (fun xa => map (fun xb => kern xa xb) x) x.
(* reduce_sum(Kc * transpose(Lc)) *)
Definition trace_prod (n : nat) (Kc Lc : mat) : Qc :=
  qsum (map (fun j => qsum (map (fun l => nthq (nth j Kc []) l * nthq (nth l Lc []) j) (seq 0 n))) (seq 0 n)).

Definition hsic_batch (gramf : list Qc -> mat) (L : mat) (n : nat) (xs : list (list Qc)) : list Qc :=
  let H := centering n in
  let Lc := matmul n (matmul n H L) H in
  map (fun x => let Kc := matmul n (matmul n H (gram gramf x)) H in trace_prod n Kc Lc / qn n) xs.

(* dims: the nb_dim rows of tf.transpose(masks) reshaped (nb_dim, 1, n, 1), each of length n *)
Definition hsic_estimator (gramf : list Qc -> mat) (ebs : nat) (dims : list (list Qc)) (L : mat) (n : nat)
  : list Qc :=
  let nb_dim := length dims in
  let b := if ebs <? nb_dim then ebs else nb_dim in
  concat (map (hsic_batch gramf L n) (chunks b dims)).

Close Scope Qc_scope.
(* masks (n, g, g, 1) --tf.transpose (full axis reversal)--> (1, g, g, n) --reshape--> (g*g, 1, n, 1):
   estimator dimension k = b*g + a reads masks[:, a, b, 0], i.e. column a*g + b of the (n, g*g) design *)
Definition hsic_dims (g : nat) (design : list (list Qc)) : list (list Qc) :=
  map (fun k => col ((k mod g) * g + k / g) design) (seq 0 (g * g)).
(* post_process: np.transpose(score.reshape(g, g, 1), (1, 0, 2)), flat row-major *)
Definition hsic_post (g : nat) (scores : list Qc) : list Qc :=
  map (fun p => nthq scores ((p mod g) * g + p / g)) (seq 0 (g * g)).

(* HsicEstimator.__call__ once L is given *)
Definition hsic_map (gramf : list Qc -> mat) (ebs g : nat) (design : list (list Qc)) (L : mat) (n : nat)
  : list Qc :=
  hsic_post g (hsic_estimator gramf ebs (hsic_dims g design) L n).

Open Scope Qc_scope.
(* output kernel: exponent matrix of rbf(Y, Y^T, width) *)
Definition rbf_exponents (w : Qc) (Y : list Qc) : mat := gram_of (rbf_exponent w) Y.
(* np.percentile(Y, 50) is a library call; what the model can say about its value: it is a median *)
Definition is_median (w : Qc) (Y : list Qc) : bool :=
  (length Y <=? 2 * length (filter (fun y => Qcleb y w) Y))%nat &&
  (length Y <=? 2 * length (filter (fun y => Qcleb w y) Y))%nat.

(* ------------------------------------------------------------------ perturbations and the explain loop *)
Close Scope Qc_scope.
(* tf.image.resize(masks, (H, W), "nearest"): output pixel (i, j) reads grid cell
   (min ((2i+1) g / (2H)) (g-1), min ((2j+1) g / (2W)) (g-1)) *)
Definition near (g size i : nat) : nat := Nat.min (((2 * i + 1) * g) / (2 * size)) (g - 1).
(* upsampled mask value seen by flat feature k of an (H, W, C) image *)
Definition up_at (g H W C : nat) (m : list Qc) (k : nat) : Qc :=
  let pos := k / C in nthq m (near g H (pos / W) * g + near g W (pos mod W)).
Open Scope Qc_scope.

Inductive perturbation :=
| Baseline (x0 : list Qc)      (* inpainting (x0 = zeros) and blurring (x0 = cv2.blur(x)) *)
| Amplitude (sigma : Qc).

Definition perturb (p : perturbation) (g H W C : nat) (x m : list Qc) : list Qc :=
  map (fun k => let mk := up_at g H W C m k in
                match p with
                | Baseline x0 => nthq x k * mk + (1 - mk) * nthq x0 k
                | Amplitude s => nthq x k * (mk - half) * s
                end) (seq 0 (H * W * C)).

Section Explain.
Variable score : list Qc -> list Qc -> Qc.          (* model + operator, row-wise *)
Variable estimator : list Qc -> list Qc.            (* estimator(self.masks, . , nb_design) *)

(* the model outputs, mask batch after mask batch *)
(* bs : self.batch_size, None allowed: batch_size = self.batch_size or len(self.masks) *)
Definition gsa_outputs (p : perturbation) (g H W C : nat) (bs : option nat) (masks : list (list Qc))
  (x t : list Qc) : list Qc :=
  fold_left (fun outputs bm => outputs ++ map (fun m => score (perturb p g H W C x m) t) bm)
            (chunks (eff_bs bs (length masks)) masks) [].

Definition gsa_explain_one (p : perturbation) (g H W C : nat) (bs : option nat) (masks : list (list Qc)) (x t : list Qc)
  : list Qc := estimator (gsa_outputs p g H W C bs masks x t).

(* perturbation function of the input: inpainting / blurring need the baseline of THIS input *)
Definition gsa_explain (pf : list Qc -> perturbation) (g H W C : nat) (bs : option nat) (masks : list (list Qc))
  (xs ts : list (list Qc)) : list (list Qc) :=
  map2 (fun x t => gsa_explain_one (pf x) g H W C bs masks x t) xs ts.
End Explain.

(* SobolAttributionMethod(estimator=JansenEstimator()) before the final resize *)
Definition sobol_explain (score : list Qc -> list Qc -> Qc) (est : list Qc -> nat -> nat -> list Qc)
  (pf : list Qc -> perturbation) (g H W C : nat) (bs : option nat) (n : nat) (masks : list (list Qc))
  (xs ts : list (list Qc)) :=
  gsa_explain score (fun o => est o n (g * g)%nat) pf g H W C bs masks xs ts.

(* HsicAttributionMethod before the final resize; Lof = output Gram matrix of the recorded outputs
   (exp and percentile are library calls) *)
Definition hsic_explain (score : list Qc -> list Qc -> Qc) (gramf : list Qc -> mat) (Lof : list Qc -> mat)
  (pf : list Qc -> perturbation) (g H W C : nat) (bs : option nat) (ebs n : nat) (masks : list (list Qc))
  (xs ts : list (list Qc)) :=
  gsa_explain score (fun o => hsic_map gramf ebs g masks (Lof o) n) pf g H W C bs masks xs ts.
