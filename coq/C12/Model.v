(* C12/Model.v — the input containers of commons/data_conversion.py tensor_sanitize:

     if isinstance(inputs, tf.data.Dataset):
         if hasattr(inputs, '_batch_size'): inputs = inputs.unbatch()
         targets = [target for _, target in inputs];  inputs = [inp for inp, _ in inputs]
     inputs = tf.cast(inputs, tf.float32); targets = tf.cast(targets, tf.float32)

   A container holds (input, target) pairs: an array / tensor pair, an unbatched dataset, or a dataset batched by
   dataset.batch(b) (consecutive slices, last one possibly shorter).  Values are exact rationals: the dtype cast
   (float64 / int -> float32) is the identity on float32-representable values and is not modelled. *)
From Xpl Require Export Base.Tensor.
Close Scope Qc_scope. Open Scope nat_scope.

Section Containers.
Context {S T : Type}.    (* sample, target *)
Inductive container :=
| Arrays (xs : list S) (ts : list T)          (* NumPy arrays or tf.Tensors, inputs and targets given separately *)
| DsUnbatched (l : list (S * T))
| DsBatched (batches : list (list (S * T))).  (* what iterating a dataset.batch(b) yields *)

Definition sanitize (c : container) : list S * list T :=
  match c with
  | Arrays xs ts => (xs, ts)
  | DsUnbatched l => (map fst l, map snd l)
  | DsBatched bs => let l := concat bs in (map fst l, map snd l)     (* unbatch() *)
  end.

(* dataset.batch(b) of the pairs *)
Definition batched (b : nat) (xs : list S) (ts : list T) : container := DsBatched (chunks b (combine xs ts)).
Definition unbatched (xs : list S) (ts : list T) : container := DsUnbatched (combine xs ts).

(* explain wrapped by sanitize_input_output; __call__ is an alias of explain *)
Definition explain_on {O} (E : list S -> list T -> O) (c : container) : O := E (fst (sanitize c)) (snd (sanitize c)).
Definition call_on {O} (E : list S -> list T -> O) (c : container) : O := explain_on E c.
End Containers.
Arguments container : clear implicits.
