(* C12/Proofs.v — containers give identical explanations; one explanation per input with the documented shape *)
From Xpl Require Import C12.Model.
From Xpl Require C01.Model C01.Spec C01.Proofs C04.Model C04.Spec C04.Proofs C06.Model C06.Spec C06.Proofs C09.Model C09.Proofs.
From Coq Require Import Arith.
Close Scope Qc_scope. Open Scope nat_scope.

Section Containers.
Context {S T : Type}.

Lemma split_combine_fst (xs : list S) (ts : list T) : length xs = length ts -> map fst (combine xs ts) = xs.
Proof. revert ts; induction xs as [|x xs IH]; intros [|t ts] H; cbn in *; try lia; auto. f_equal. apply IH. lia. Qed.
Lemma split_combine_snd (xs : list S) (ts : list T) : length xs = length ts -> map snd (combine xs ts) = ts.
Proof. revert ts; induction xs as [|x xs IH]; intros [|t ts] H; cbn in *; try lia; auto. f_equal. apply IH. lia. Qed.

(* a dataset batched by ANY b >= 1 (remainder batch included), or unbatched, is sanitised to the original arrays *)
Theorem sanitize_dataset_roundtrip (b : nat) (xs : list S) (ts : list T) : 1 <= b -> length xs = length ts ->
  sanitize (batched b xs ts) = (xs, ts) /\ sanitize (unbatched xs ts) = (xs, ts) /\ sanitize (Arrays xs ts) = (xs, ts).
Proof.
  intros Hb Hl. unfold batched, unbatched, sanitize. rewrite concat_chunks by exact Hb.
  rewrite split_combine_fst, split_combine_snd by exact Hl. auto.
Qed.

(* hence every explain function gives identical results on the three containers *)
Theorem containers_agree {O} (E : list S -> list T -> O) b b' xs ts : 1 <= b -> 1 <= b' -> length xs = length ts ->
  explain_on E (batched b xs ts) = explain_on E (Arrays xs ts) /\
  explain_on E (batched b xs ts) = explain_on E (batched b' xs ts) /\
  explain_on E (unbatched xs ts) = explain_on E (Arrays xs ts).
Proof.
  intros Hb Hb' Hl. unfold explain_on.
  destruct (sanitize_dataset_roundtrip b xs ts Hb Hl) as [-> [-> ->]].
  destruct (sanitize_dataset_roundtrip b' xs ts Hb' Hl) as [-> _]. auto.
Qed.

Theorem call_is_explain {O} (E : list S -> list T -> O) c : call_on E c = explain_on E c.
Proof. reflexivity. Qed.

(* the number of samples is kept: N >= 1 inputs give N rows, never squeezed *)
Theorem sanitize_count b (xs : list S) (ts : list T) : 1 <= b -> length xs = length ts ->
  length (fst (sanitize (batched b xs ts))) = length xs.
Proof. intros Hb Hl. destruct (sanitize_dataset_roundtrip b xs ts Hb Hl) as [-> _]. reflexivity. Qed.
End Containers.

(* ---------------- documented shapes, derived from the proved value models ---------------- *)
Lemma map2_length_eq {A B C} (f : A -> B -> C) a b : length a = length b -> length (map2 f a b) = length a.
Proof. intro H. rewrite map2_length, H. apply Nat.min_id. Qed.
Lemma in_map2 {A B C} (f : A -> B -> C) a b y : In y (map2 f a b) -> exists x t, In x a /\ In t b /\ y = f x t.
Proof. revert b; induction a as [|x a IH]; intros [|t b] H; cbn in H; try contradiction.
  destruct H as [<-|H]; [exists x, t; cbn; auto|]. destruct (IH b H) as [x' [t' [? [? ?]]]]. exists x', t'. cbn; auto. Qed.

(* (N, W) tabular, (N, T, W) time series, (N, H, W, 1) images with a reducer, (N, H, W, C) with reducer None *)
Definition out_size (k : C01.Model.kind) (r : option C01.Model.reducer) : nat :=
  match k, r with
  | C01.Model.KImg h w c, Some _ => h * w            (* one value per pixel: (H, W, 1) *)
  | _, _ => C01.Model.kind_size k
  end.

Lemma spec_reduce_length k r e : C01.Spec.kind_ok k -> length e = C01.Model.kind_size k ->
  length (C01.Spec.spec_reduce k r e) = out_size k r.
Proof.
  intros Hk He. destruct k as [d|t w|h w c]; cbn [C01.Spec.spec_reduce out_size]; try exact He.
  destruct r as [r|]; [|exact He]. destruct (c =? 1) eqn:Hc.
  - apply Nat.eqb_eq in Hc. subst c. rewrite He. cbn [C01.Model.kind_size]. lia.
  - rewrite map_length, seq_length. reflexivity.
Qed.

Section Shapes.
Variable grad : list Qc -> list Qc -> list Qc.

Theorem saliency_shape k r bs xs ts :
  C01.Spec.shape_preserving grad -> C01.Spec.kind_ok k -> C06.Proofs.bs_ok bs -> length xs = length ts ->
  (forall x, In x xs -> length x = C01.Model.kind_size k) ->
  length (C01.Model.saliency grad k r bs xs ts) = length xs /\
  forall e, In e (C01.Model.saliency grad k r bs xs ts) -> length e = out_size k r.
Proof.
  intros Hg Hk Hb Hl Hx. rewrite C01.Proofs.saliency_correct by assumption. split; [apply map2_length_eq; exact Hl|].
  intros e He. apply in_map2 in He as [x [t [Hx' [_ ->]]]]. apply spec_reduce_length; [exact Hk|].
  unfold C01.Spec.spec_saliency. rewrite map_length, Hg. apply Hx; exact Hx'.
Qed.

Theorem gradient_input_shape k r bs xs ts :
  C01.Spec.shape_preserving grad -> C01.Spec.kind_ok k -> C06.Proofs.bs_ok bs -> length xs = length ts ->
  (forall x, In x xs -> length x = C01.Model.kind_size k) ->
  length (C01.Model.gradient_input grad k r bs xs ts) = length xs /\
  forall e, In e (C01.Model.gradient_input grad k r bs xs ts) -> length e = out_size k r.
Proof.
  intros Hg Hk Hb Hl Hx. rewrite C01.Proofs.gradient_input_correct by assumption. split; [apply map2_length_eq; exact Hl|].
  intros e He. apply in_map2 in He as [x [t [Hx' [_ ->]]]]. apply spec_reduce_length; [exact Hk|].
  unfold C01.Spec.spec_gradient_input, vmul. rewrite map2_length, Hg, Nat.min_id. apply Hx; exact Hx'.
Qed.
End Shapes.

(* Occlusion: one map per input, one value per position (W; T*W; H*W i.e. (H, W, 1)) *)
Theorem occlusion_shape (score : list Qc -> list Qc -> Qc) g bs v xs ts :
  C06.Spec.geom_ok g -> C06.Proofs.bs_ok bs -> length xs = length ts ->
  (forall x, In x xs -> length x = C06.Spec.geom_size g) ->
  length (C06.Model.occlusion score g bs v xs ts) = length xs /\
  forall e, In e (C06.Model.occlusion score g bs v xs ts) -> length e = C06.Model.geom_npos g.
Proof.
  intros Hg Hb Hl Hx. rewrite C06.Proofs.occlusion_correct by assumption. unfold C06.Spec.spec_occlusion.
  split; [apply map2_length_eq; exact Hl|].
  intros e He. apply in_map2 in He as [x [t [_ [_ ->]]]]. unfold C06.Spec.spec_map. rewrite map_length, seq_length. reflexivity.
Qed.

(* Integrated gradients before channel harmonisation: one explanation per input, of the input's size *)
Theorem ig_shape (grad : list Qc -> list Qc -> list Qc) n m bs bv xs ts :
  C04.Spec.bs_ok bs -> 2 <= m -> xs <> [] -> length xs = length ts -> (forall x, In x xs -> length x = n) ->
  (forall p t, length p = n -> length (grad p t) = n) ->
  length (C04.Model.ig grad n m bs bv xs ts) = length xs /\
  forall e, In e (C04.Model.ig grad n m bs bv xs ts) -> length e = n.
Proof.
  intros Hb Hm Hne Hl Hx Hg. rewrite C04.Proofs.ig_correct by assumption. unfold C04.Spec.spec_ig.
  split; [apply map2_length_eq; exact Hl|].
  intros e He. apply in_map2 in He as [x [t [_ [_ ->]]]]. unfold C04.Spec.spec_ig_one. rewrite map_length, seq_length. reflexivity.
Qed.

(* SmoothGrad / SquareGrad / VarGrad: one explanation per input, of the documented size *)
Theorem gradstat_shape (grad : list Qc -> list Qc -> list Qc) k r st bs nb xs ts noises :
  C01.Spec.shape_preserving grad -> C01.Spec.kind_ok k -> C06.Proofs.bs_ok bs -> 1 <= nb ->
  (st = C01.Model.SVar -> 2 <= nb) -> C01.Spec.noises_ok nb (C01.Proofs.rows xs ts noises) ->
  length xs = length ts -> length xs = length noises ->
  (forall x, In x xs -> length x = C01.Model.kind_size k) ->
  length (C01.Model.gradstat grad k r st bs nb xs ts noises) = length xs /\
  forall e, In e (C01.Model.gradstat grad k r st bs nb xs ts noises) -> length e = out_size k r.
Proof.
  intros Hg Hk Hb Hnb Hv Hok Hl Hl' Hx. rewrite C01.Proofs.gradstat_correct by assumption. split.
  - rewrite map_length. unfold C01.Proofs.rows, C01.Model.row. rewrite combine_length, combine_length. lia.
  - intros e He. apply in_map_iff in He as [[[x t] es] [<- Hr]]. apply spec_reduce_length; [exact Hk|].
    rewrite C01.Proofs.spec_stat_length. cbn. apply Hx.
    unfold C01.Proofs.rows in Hr. apply in_combine_l in Hr. apply in_combine_l in Hr. exact Hr.
Qed.
