(* C01/Aux.v — general list / Qc lemmas used by C01/Proofs.v (candidates for Base) *)
From Xpl Require Import Base.Tensor.
From Coq Require Import Arith Permutation.
Close Scope Qc_scope. Open Scope nat_scope.

Lemma firstn_add {A} a b (l : list A) : firstn (a + b) l = firstn a l ++ firstn b (skipn a l).
Proof. revert l; induction a as [|a IH]; intro l; [reflexivity|].
  destruct l as [|x l]; cbn [plus firstn skipn app]; [destruct b; reflexivity|]. f_equal. apply IH. Qed.

Lemma nth_skipn' {A} n i (l : list A) d : nth i (skipn n l) d = nth (n + i) l d.
Proof. revert l; induction n as [|n IH]; intro l; [reflexivity|].
  destruct l as [|x l]; cbn [skipn plus nth]; [destruct i; reflexivity | apply IH]. Qed.

Lemma firstn_as_seq {A} c (l : list A) d : c <= length l -> firstn c l = map (fun i => nth i l d) (seq 0 c).
Proof. revert l; induction c as [|c IH]; intros l H; [reflexivity|].
  destruct l as [|x l]; cbn [length] in H; [lia|]. cbn [firstn seq map nth]. f_equal.
  rewrite <- seq_shift, map_map. apply IH. lia. Qed.

Lemma flat_map_map {A B C} (f : A -> B) (g : B -> list C) l : flat_map g (map f l) = flat_map (fun x => g (f x)) l.
Proof. induction l as [|x l IH]; cbn [map flat_map]; [reflexivity | rewrite IH; reflexivity]. Qed.

Lemma rep_map {A B} (f : A -> B) k l : rep k (map f l) = flat_map (fun x => repeat (f x) k) l.
Proof. unfold rep. apply flat_map_map. Qed.

Lemma map2_app {A B C} (f : A -> B -> C) a a' b b' : length a = length b ->
  map2 f (a ++ a') (b ++ b') = map2 f a b ++ map2 f a' b'.
Proof. revert b; induction a as [|x a IH]; intros [|y b] H; cbn [length] in H; try discriminate; [reflexivity|].
  cbn [app map2]. f_equal. apply IH. lia. Qed.

Lemma map2_flat_map {A B C D} (f : B -> C -> D) (F : A -> list B) (G : A -> list C) l :
  (forall r, In r l -> length (F r) = length (G r)) ->
  map2 f (flat_map F l) (flat_map G l) = flat_map (fun r => map2 f (F r) (G r)) l.
Proof. induction l as [|r l IH]; intro H; [reflexivity|]. cbn [flat_map].
  rewrite map2_app by (apply H; left; reflexivity). f_equal. apply IH. intros; apply H; right; assumption. Qed.

Lemma map2_repeat_l {A B C} (f : A -> B -> C) x k w : length w = k -> map2 f (repeat x k) w = map (f x) w.
Proof. intros <-. induction w as [|y w IH]; [reflexivity|]. cbn [length repeat map2 map]. f_equal. exact IH. Qed.
Lemma map2_repeat_r {A B C} (f : A -> B -> C) t k w : length w = k -> map2 f w (repeat t k) = map (fun e => f e t) w.
Proof. intros <-. induction w as [|y w IH]; [reflexivity|]. cbn [length repeat map2 map]. f_equal. exact IH. Qed.

Lemma flat_map_ext_in {A B} (f g : A -> list B) l : (forall x, In x l -> f x = g x) -> flat_map f l = flat_map g l.
Proof. induction l as [|x l IH]; intro H; [reflexivity|]. cbn [flat_map]. rewrite (H x) by (left; reflexivity).
  f_equal. apply IH. intros; apply H; right; assumption. Qed.

(* tf.reshape of (n*k, ...) rows into (n, k, ...): consecutive groups of k *)
Lemma chunks_flat_map_exact {A B} (F : A -> list B) k l : 1 <= k -> (forall r, In r l -> length (F r) = k) ->
  chunks k (flat_map F l) = map F l.
Proof. intros Hk. induction l as [|r l IH]; intro H; [reflexivity|]. cbn [flat_map map].
  assert (Hr : length (F r) = k) by (apply H; left; reflexivity).
  rewrite chunks_cons_step; [| exact Hk | destruct (F r); cbn [length] in Hr; [lia | discriminate]].
  rewrite firstn_app, skipn_app, Hr, Nat.sub_diag. cbn [firstn skipn]. rewrite app_nil_r.
  rewrite firstn_all2, skipn_all2 by lia. cbn [app]. f_equal. apply IH. intros; apply H; right; assumption. Qed.

(* an (m, c) row-major block structure read by indices *)
Lemma chunks_exact_seq {A} (e : list A) m c d : 1 <= c -> length e = m * c ->
  chunks c e = map (fun p => map (fun ch => nth (p * c + ch) e d) (seq 0 c)) (seq 0 m).
Proof. intro Hc. revert e; induction m as [|m IH]; intros e H.
  - destruct e; [reflexivity | cbn [length] in H; lia].
  - assert (He : e <> []) by (destruct e; [cbn [length] in H; lia | discriminate]).
    rewrite chunks_cons_step by assumption. cbn [seq map]. f_equal.
    + apply firstn_as_seq. lia.
    + rewrite (IH (skipn c e)) by (rewrite skipn_length; lia). rewrite <- seq_shift, map_map.
      apply map_ext. intro p. apply map_ext. intro ch. rewrite nth_skipn'. f_equal. lia.
Qed.

Lemma in_chunks_in {A} b (l : list A) c x : 1 <= b -> In c (chunks b l) -> In x c -> In x l.
Proof. intros Hb Hc Hx. rewrite <- (concat_chunks b l Hb). apply in_concat. exists c. split; assumption. Qed.

Lemma map2_map_map {A B C D} (f : B -> C -> D) (g : A -> B) (h : A -> C) l :
  map2 f (map g l) (map h l) = map (fun x => f (g x) (h x)) l.
Proof. rewrite map2_map_l, map2_map_r, map2_same. reflexivity. Qed.

Open Scope Qc_scope.

Lemma qn_S n : qn (S n) = qn n + 1.
Proof. unfold qn. apply Qc_is_canon. rewrite Qc_plus_q, !Qc_Q2Qc_q. unfold Qeq; cbn [Qnum Qden Qplus].
  rewrite Nat2Z.inj_succ. change (Z.pos (1 * 1)) with 1%Z. lia. Qed.
Lemma qn_0 : qn 0 = 0.
Proof. apply Qc_is_canon. reflexivity. Qed.
Lemma qn_pos n : (1 <= n)%nat -> 0 < qn n.
Proof. intro H. unfold qn. change (Qlt (this 0) (this (Q2Qc (Z.of_nat n # 1)))).
  rewrite (Qc_Q2Qc_q (Z.of_nat n # 1)). unfold Qlt; cbn. lia. Qed.
Lemma qn_neq0 n : (1 <= n)%nat -> qn n <> 0.
Proof. intros H E. pose proof (qn_pos n H) as P. rewrite E in P. exact (Qclt_not_eq _ _ P eq_refl). Qed.

Lemma qsum_perm l l' : Permutation l l' -> qsum l = qsum l'.
Proof. induction 1; cbn [qsum]; try congruence; ring. Qed.

Lemma nthq_map2 (f : Qc -> Qc -> Qc) a b i : f 0 0 = 0 -> length a = length b ->
  nthq (map2 f a b) i = f (nthq a i) (nthq b i).
Proof. intro H0. unfold nthq. revert b i; induction a as [|x a IH]; intros [|y b] i H; cbn [length] in H; try discriminate.
  - destruct i; cbn; symmetry; exact H0.
  - destruct i; cbn [map2 nth]; [reflexivity | apply IH; lia]. Qed.

Lemma nthq_map0 (f : Qc -> Qc) a i : f 0 = 0 -> nthq (map f a) i = f (nthq a i).
Proof. intro H0. unfold nthq. revert i; induction a as [|x a IH]; intro i; [destruct i; cbn; symmetry; exact H0|].
  destruct i; cbn [map nth]; [reflexivity | apply IH]. Qed.

(* sum of squared deviations *)
Lemma qsum_sqdev (l : list Qc) (m : Qc) :
  qsum (map (fun v => (v - m) * (v - m)) l) = qsum (map (fun v => v * v) l) - two * m * qsum l + qn (length l) * (m * m).
Proof. induction l as [|x l IH]; cbn [map qsum length].
  - rewrite qn_0. ring.
  - rewrite IH, qn_S. unfold two. replace (Q2Qc 2) with (1 + 1) by (apply Qc_is_canon; reflexivity). ring. Qed.
