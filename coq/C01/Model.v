(* C01/Model.v — executable transcription of the gradient attribution methods (no proofs here)

   commons/operators_operations.py
     gradient(model, inputs, targets)      = tape.gradient(operator(model, inputs, targets), inputs)
     batched_operator(model, inputs, targets, batch_size=None):
        if batch_size is not None:
            dataset = Dataset.from_tensor_slices((inputs, targets))
            results = concat([operator(model, x, y) for x, y in dataset.batch(batch_size)], axis=0)
        else:
            results = operator(model, inputs, targets)
   attributions/saliency.py        gradients = batch_gradient(model, inputs, targets, self.batch_size); tf.abs(gradients)
   attributions/gradient_input.py  gradients = batch_gradient(...); tf.multiply(gradients, inputs)
   attributions/base.py  _harmonize_channel_dimension:
        explanations = explain_method(self, inputs, targets)
        if len(explanations.shape) == 4 and explanations.shape[-1] != 1:
            explanations = self.reduce(explanations, axis=-1, keepdims=True)    # reduce = tf.reduce_<name>, or identity for None
   attributions/gradient_statistics/gradient_statistic.py  GradientStatistic.explain:
        batch_size = self.batch_size or (len(inputs) * self.nb_samples)
        perturbation_batch_size = min(batch_size, self.nb_samples)
        inputs_batch_size = max(1, batch_size // perturbation_batch_size)
        for x_batch, y_batch in batch_tensor((inputs, targets), inputs_batch_size):
            total_perturbed_samples = 0
            self._initialize_online_statistic()
            while total_perturbed_samples < self.nb_samples:
                nb_perturbations = min(perturbation_batch_size, self.nb_samples - total_perturbed_samples)
                total_perturbed_samples += nb_perturbations
                perturbed_x_batch = tf.repeat(x_batch, nb_perturbations, axis=0) + tf.random.normal(...)
                repeated_targets = repeat_labels(y_batch, nb_perturbations)
                gradients = self.batch_gradient(self.model, perturbed_x_batch, repeated_targets, batch_size)
                gradients = tf.reshape(gradients, (x_batch.shape[0], nb_perturbations, *gradients.shape[1:]))
                self._update_online_statistic(gradients)
            smoothed_gradients.append(self._get_online_statistic_final_value())
        return tf.concat(smoothed_gradients, axis=0)
   smoothgrad.py / square_grad.py / vargrad.py:
        _initialize:  counter = 0; sum = 0; square_sum = 0                (the fields the class uses)
        _update:      sum += reduce_sum(elements, axis=1); square_sum += reduce_sum(elements**2, axis=1);
                      counter += elements.shape[1]
        _get:         sum / counter ;  square_sum / counter ;
                      counter / (counter - 1) * (square_sum / counter - (sum / counter)**2)

   Library behaviour = arguments: [grad : sample -> target -> sample] is the gradient of the explained score
   for ONE sample (the operator is row-wise, so the gradient of a batch is the list of per-sample gradients);
   the tensors drawn by tf.random.normal are the argument [noises] (for every input, the list of its
   nb_samples noise tensors in the order they are consumed).  Samples are flat row-major lists. *)
From Xpl Require Export Base.ListX Base.Families.
Close Scope Qc_scope. Open Scope nat_scope.

Definition sample := list Qc.

(* input kinds: (N, W), (N, T, W), (N, H, W, C) *)
Inductive kind := KTab (d : nat) | KTs (t w : nat) | KImg (h w c : nat).
Definition kind_size (k : kind) : nat :=
  match k with KTab d => d | KTs t w => t * w | KImg h w c => h * w * c end.

Inductive reducer := RMin | RMax | RMean | RSum.
Inductive stat := SMean | SSquare | SVar.        (* SmoothGrad, SquareGrad, VarGrad *)

Open Scope Qc_scope.

(* tf.reduce_<r> over the channel axis of one pixel *)
Definition reduce (r : reducer) (l : list Qc) : Qc :=
  match r with
  | RSum => qsum l
  | RMean => qsum l / qn (length l)
  | RMax => match l with [] => 0 | x :: l' => fold_left Qcmax l' x end
  | RMin => match l with [] => 0 | x :: l' => fold_left Qcmin l' x end
  end.

(* _harmonize_channel_dimension on one explanation: only 4-D explanations with C <> 1 are reduced;
   reducer None is the identity; the channel axis is the last one, i.e. consecutive blocks of c values *)
Definition harmonize (k : kind) (r : option reducer) (e : sample) : sample :=
  match k with
  | KImg h w c => if Nat.eqb c 1 then e
                  else match r with None => e | Some r => map (reduce r) (chunks c e) end
  | _ => e
  end.

(* a row of an input batch of GradientStatistic: input, target, the noises drawn for this input *)
Definition row := (sample * sample * list sample)%type.
Definition rx (r : row) : sample := fst (fst r).
Definition rt (r : row) : sample := snd (fst r).
Definition rn (r : row) : list sample := snd r.

(* online statistic: counter, running sum, running square sum (one entry per input of the batch) *)
Record ostat := { cnt : nat; sum1 : list sample; sum2 : list sample }.

(* tf.reduce_sum(elements, axis=1) for one input: sum of its group of gradients *)
Definition group_sum (g : list sample) : sample := vsum (length (hd [] g)) g.
Definition vsq (v : sample) : sample := vmul v v.

(* python's integer 0 broadcasts: the accumulators start as zeros of the shape of the first update *)
Definition init_stat (c : list row) : ostat :=
  {| cnt := 0; sum1 := map (fun r => vzero (length (rx r))) c; sum2 := map (fun r => vzero (length (rx r))) c |}.

(* elements : (n, k, ...) = one group of k gradients per input of the batch *)
Definition update_stat (st : stat) (k : nat) (a : ostat) (elements : list (list sample)) : ostat :=
  let s1 := map2 vadd (sum1 a) (map group_sum elements) in
  let s2 := map2 vadd (sum2 a) (map (fun g => group_sum (map vsq g)) elements) in
  match st with
  | SMean   => {| cnt := (cnt a + k)%nat; sum1 := s1; sum2 := sum2 a |}
  | SSquare => {| cnt := (cnt a + k)%nat; sum1 := sum1 a; sum2 := s2 |}
  | SVar    => {| cnt := (cnt a + k)%nat; sum1 := s1; sum2 := s2 |}
  end.

Definition final_stat (st : stat) (a : ostat) : list sample :=
  let n := qn (cnt a) in
  match st with
  | SMean   => map (map (fun v => v / n)) (sum1 a)
  | SSquare => map (map (fun v => v / n)) (sum2 a)
  | SVar    => let coef := n / qn (cnt a - 1) in           (* python asserts counter >= 2 *)
               map2 (map2 (fun s sq => coef * (sq / n - (s / n) * (s / n)))) (sum1 a) (sum2 a)
  end.

Section Methods.
Variable grad : sample -> sample -> sample.

(* operator_batching(gradient)(model, inputs, targets, batch_size) *)
Definition batched_grad (bs : option nat) (xs ts : list sample) : list sample :=
  match bs with
  | Some b => concat (map (fun c => map2 grad (map fst c) (map snd c)) (chunks b (combine xs ts)))
  | None => map2 grad xs ts
  end.

Definition saliency_core (bs : option nat) (xs ts : list sample) : list sample :=
  map (map Qcabs) (batched_grad bs xs ts).
Definition gradient_input_core (bs : option nat) (xs ts : list sample) : list sample :=
  map2 vmul (batched_grad bs xs ts) xs.

Definition saliency (k : kind) (r : option reducer) bs xs ts := map (harmonize k r) (saliency_core bs xs ts).
Definition gradient_input (k : kind) (r : option reducer) bs xs ts := map (harmonize k r) (gradient_input_core bs xs ts).

(* ---- GradientStatistic.explain ---- *)
Section Loop.
Context {A : Type}.
Variables (nb B pb : nat).
(* what one pass of the while loop hands over: the perturbed points and their gradients, both regrouped
   (n, nb_perturbations, ...) *)
Variable step : nat -> A -> list (list sample) -> list (list sample) -> A.

(* the while loop; [fuel] bounds the number of passes (nb_samples passes are always enough: every pass
   consumes at least one perturbation — proved in Proofs.v) *)
Fixpoint noise_loop (fuel total : nat) (c : list row) (acc : A) : A :=
  match fuel with
  | O => acc
  | S f =>
      if (total <? nb)%nat then
        let k := Nat.min pb (nb - total) in
        let x_batch := map rx c in
        let y_batch := map rt c in
        (* the k * n tensors drawn by this call of _perturb_samples, in the row order of tf.repeat *)
        let drawn := flat_map (fun r => firstn k (skipn total (rn r))) c in
        let perturbed := map2 vadd (rep k x_batch) drawn in
        let repeated_targets := rep k y_batch in
        let gradients := batched_grad (Some B) perturbed repeated_targets in
        noise_loop f (total + k) c (step k acc (chunks k perturbed) (chunks k gradients))
      else acc
  end.
End Loop.

Definition gs_B (bs : option nat) (n nb : nat) : nat := eff_bs bs (n * nb).
Definition gs_pb (bs : option nat) (n nb : nat) : nat := Nat.min (gs_B bs n nb) nb.
Definition gs_ib (bs : option nat) (n nb : nat) : nat := Nat.max 1 (gs_B bs n nb / gs_pb bs n nb).

Definition gradstat_core (st : stat) (bs : option nat) (nb : nat) (xs ts : list sample)
    (noises : list (list sample)) : list sample :=
  let n := length xs in
  let B := gs_B bs n nb in let pb := gs_pb bs n nb in let ib := gs_ib bs n nb in
  concat (map (fun c => final_stat st
                          (noise_loop nb B pb (fun k a _ g => update_stat st k a g) nb 0 c (init_stat c)))
              (chunks ib (combine (combine xs ts) noises))).

Definition gradstat (k : kind) (r : option reducer) st bs nb xs ts noises :=
  map (harmonize k r) (gradstat_core st bs nb xs ts noises).

(* the same loop observed differently: the points at which the gradient is evaluated, per input *)
Definition gradstat_points (bs : option nat) (nb : nat) (xs ts : list sample)
    (noises : list (list sample)) : list (list sample) :=
  let n := length xs in
  let B := gs_B bs n nb in let pb := gs_pb bs n nb in let ib := gs_ib bs n nb in
  concat (map (fun c => noise_loop nb B pb (fun _ a p _ => map2 (@app sample) a p) nb 0 c (map (fun _ => []) c))
              (chunks ib (combine (combine xs ts) noises))).
End Methods.

(* ---------- comparison helpers used by the generated case files ---------- *)
(* |a - b| <= tol * scale element by element (tol = 0 : exact equality) *)
Definition qlist_close_by (tol : Qc) (scale a b : list Qc) : bool :=
  Nat.eqb (length a) (length b) && Nat.eqb (length a) (length scale) &&
  forallb (fun p => qclose tol (snd p) (fst (fst p)) (snd (fst p))) (combine (combine a b) scale).
Definition qlist2_close_by (tol : Qc) (scale a b : list (list Qc)) : bool :=
  Nat.eqb (length a) (length b) && Nat.eqb (length a) (length scale) &&
  forallb (fun p => qlist_close_by tol (snd p) (fst (fst p)) (snd (fst p))) (combine (combine a b) scale).
(* per-element magnitude reaching the float32 computation: the F-quad family with absolute weights at |x|, |t| *)
Definition qclass_abs (k : qclass) : qclass :=
  {| qb := Qcabs (qb k); qW := map Qcabs (qW k);
     qV := map Qcabs (qV k);
     qX := map (fun e => let '(i, j, c) := e in (i, j, Qcabs c)) (qX k) |}.
Definition fquad_grad_abs (ks : list qclass) (x t : sample) : sample :=
  fquad_grad (map qclass_abs ks) (map Qcabs x) (map Qcabs t).
