(* C01/FQuad.v — the closed-form gradient of the F-quad family is its derivative, in the algebraic sense:
   s(x + h e_i) - s(x) = h * grad_i(x) + h^2 * r_i  with r_i independent of h  (s is a polynomial of degree 2),
   and such a linear coefficient is unique. *)
From Xpl Require Import Base.Tensor Base.Families C01.Spec C01.Aux.
From Coq Require Import Arith Lqa.
Open Scope Qc_scope.

(* x + h e_i *)
Fixpoint bump (x : list Qc) (i : nat) (h : Qc) : list Qc :=
  match x, i with
  | [], _ => []
  | x0 :: x', O => (x0 + h) :: x'
  | x0 :: x', S i' => x0 :: bump x' i' h
  end.

Lemma bump_length x i h : length (bump x i h) = length x.
Proof. revert i; induction x as [|x0 x IH]; intros [|i]; cbn [bump length]; auto. Qed.

Lemma nthq_bump x i h j : (i < length x)%nat -> nthq (bump x i h) j = nthq x j + (if Nat.eqb j i then h else 0).
Proof.
  unfold nthq. revert i j; induction x as [|x0 x IH]; intros i j Hi; cbn [length] in Hi; [lia|].
  destruct i as [|i]; destruct j as [|j]; cbn [bump nth Nat.eqb]; try ring.
  apply IH. lia.
Qed.

Lemma dot_nil_l x : dot [] x = 0.
Proof. reflexivity. Qed.
Lemma dot_cons a0 a x0 x : dot (a0 :: a) (x0 :: x) = a0 * x0 + dot a x.
Proof. reflexivity. Qed.

Lemma dot_bump a x i h : (i < length x)%nat -> dot a (bump x i h) = dot a x + nthq a i * h.
Proof.
  revert a i; induction x as [|x0 x IH]; intros a i Hi; cbn [length] in Hi; [lia|].
  destruct a as [|a0 a].
  - rewrite !dot_nil_l. unfold nthq. destruct i; cbn [nth]; ring.
  - destruct i as [|i]; cbn [bump]; rewrite !dot_cons.
    + unfold nthq; cbn [nth]. ring.
    + rewrite IH by lia. unfold nthq; cbn [nth]. ring.
Qed.

Lemma vmul_bump x i h : (i < length x)%nat ->
  vmul (bump x i h) (bump x i h) = bump (vmul x x) i (two * nthq x i * h + h * h).
Proof.
  unfold vmul. revert i; induction x as [|x0 x IH]; intros i Hi; cbn [length] in Hi; [lia|].
  destruct i as [|i]; cbn [bump map2].
  - f_equal. unfold nthq; cbn [nth]. unfold two. replace (Q2Qc 2) with (1 + 1) by (apply Qc_is_canon; reflexivity). ring.
  - f_equal. rewrite IH by lia. unfold nthq; cbn [nth]. reflexivity.
Qed.

(* second-order coefficient of a cross term k x_a x_b in direction i *)
Definition cross_curv (i : nat) (e : nat * nat * Qc) : Qc :=
  let '(a, b, k) := e in if Nat.eqb a i && Nat.eqb b i then k else 0.

Lemma cross_term_bump x i h e : (i < length x)%nat ->
  cross_term (bump x i h) e = cross_term x e + h * cross_grad x i e + h * h * cross_curv i e.
Proof.
  intro Hi. destruct e as [[a b] k]. cbn [cross_term cross_grad cross_curv]. rewrite !nthq_bump by exact Hi.
  destruct (Nat.eqb a i); destruct (Nat.eqb b i); cbn [andb]; ring.
Qed.

Definition class_curv (k : qclass) (i : nat) : Qc := nthq (qV k) i + qsum (map (cross_curv i) (qX k)).

Lemma nthq_class_grad k x i : (i < length x)%nat ->
  nthq (class_grad k x) i = nthq (qW k) i + two * nthq (qV k) i * nthq x i + qsum (map (cross_grad x i) (qX k)).
Proof. intro Hi. unfold class_grad, nthq at 1. rewrite nth_map_seq by exact Hi. reflexivity. Qed.

Lemma class_score_bump k x i h : (i < length x)%nat ->
  class_score k (bump x i h) = class_score k x + h * nthq (class_grad k x) i + h * h * class_curv k i.
Proof.
  intro Hi. unfold class_score, class_curv. rewrite nthq_class_grad by exact Hi.
  rewrite dot_bump by exact Hi. rewrite vmul_bump by exact Hi.
  rewrite dot_bump by (unfold vmul; rewrite map2_length; lia).
  rewrite (qsum_map_ext _ (fun e => cross_term x e + (h * cross_grad x i e + h * h * cross_curv i e))).
  2:{ intros e _. rewrite cross_term_bump by exact Hi. ring. }
  rewrite qsum_map_add, qsum_map_add, !qsum_map_scale. ring.
Qed.

Definition fquad_curv (ks : list qclass) (t : list Qc) (i : nat) : Qc :=
  qsum (map2 (fun k tc => tc * class_curv k i) ks t).

Lemma nthq_fquad_grad ks x t i :
  nthq (fquad_grad ks x t) i = qsum (map2 (fun k tc => tc * nthq (class_grad k x) i) ks t).
Proof.
  unfold fquad_grad. rewrite (nthq_fold_vadd (length x)); [| apply repeat_length |].
  - rewrite nthq_vzero. rewrite map_map2.
    assert (E : forall a b, map2 (fun (k : qclass) (tc : Qc) => nthq (vscale tc (class_grad k x)) i) a b
                            = map2 (fun k tc => tc * nthq (class_grad k x) i) a b).
    { intros a b. apply map2_ext. intros k tc. unfold vscale. apply nthq_map0. ring. }
    rewrite E. ring.
  - intros v Hv. rewrite map2_combine in Hv. apply in_map_iff in Hv as [[k tc] [<- _]].
    unfold vscale, class_grad. rewrite !map_length, seq_length. reflexivity.
Qed.

Theorem fquad_grad_is_derivative ks x t i h : (i < length x)%nat ->
  fquad ks (bump x i h) t - fquad ks x t = h * nthq (fquad_grad ks x t) i + h * h * fquad_curv ks t i.
Proof.
  intro Hi. rewrite nthq_fquad_grad. unfold fquad, fquad_out, fquad_curv, dot, vmul.
  revert t; induction ks as [|k ks IH]; intros [|tc t]; cbn [map map2 qsum]; try ring.
  rewrite class_score_bump by exact Hi. specialize (IH t).
  replace (qsum (map2 Qcmult (map (fun k0 => class_score k0 (bump x i h)) ks) t))
    with (qsum (map2 Qcmult (map (fun k0 => class_score k0 x) ks) t)
          + (h * qsum (map2 (fun k0 tc0 => tc0 * nthq (class_grad k0 x) i) ks t)
             + h * h * qsum (map2 (fun k0 tc0 => tc0 * class_curv k0 i) ks t))).
  - ring.
  - rewrite <- IH. ring.
Qed.

(* the linear coefficient of such an expansion is unique: it IS the partial derivative *)
Lemma derivative_unique (g g' r r' : Qc) : (forall h, h * g + h * h * r = h * g' + h * h * r') -> g = g'.
Proof.
  intro H. pose proof (H 1) as H1. pose proof (H (- (1))) as H2.
  assert (E : (1 + 1) * g = (1 + 1) * g').
  { replace ((1 + 1) * g) with ((1 * g + 1 * 1 * r) - (- (1) * g + - (1) * - (1) * r)) by ring.
    rewrite H1, H2. ring. }
  clear H H1 H2. qc2q. lra.
Qed.

Lemma bump_spec x i h j : (i < length x)%nat ->
  length (bump x i h) = length x /\ nthq (bump x i h) j = nthq x j + (if Nat.eqb j i then h else 0).
Proof. intros; split; [apply bump_length | apply nthq_bump; assumption]. Qed.
