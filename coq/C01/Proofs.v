(* C01/Proofs.v — the executable model of the gradient attribution methods equals the per-sample
   reference definitions, for every batch size, nb_samples, number of inputs and shape *)
From Xpl Require Import Base.Tensor C01.Spec C01.Aux.
From Xpl Require Import C06.Proofs.     (* vadd_fold_shift, fold_left_ext, bs_ok, eff_bs_pos *)
From Coq Require Import Arith Permutation.
Close Scope Qc_scope. Open Scope nat_scope.

(* ---------- batched gradient = per-sample gradient, whatever the batch size ---------- *)
Section Batched.
Variable grad : sample -> sample -> sample.

Lemma batched_grad_rowwise bs xs ts : bs_ok bs -> batched_grad grad bs xs ts = map2 grad xs ts.
Proof.
  destruct bs as [b|]; intro Hb; [|reflexivity]. cbn [batched_grad bs_ok] in *.
  rewrite (map_ext _ (map (fun p => grad (fst p) (snd p)))) by (intro c; apply map2_map_map).
  rewrite map_chunks by exact Hb. symmetry. apply map2_combine.
Qed.

Theorem saliency_core_correct bs xs ts : bs_ok bs ->
  saliency_core grad bs xs ts = map2 (spec_saliency grad) xs ts.
Proof. intro Hb. unfold saliency_core. rewrite batched_grad_rowwise by exact Hb. apply map_map2. Qed.

Lemma vmul_comm a b : vmul a b = vmul b a.
Proof. unfold vmul. revert b; induction a as [|x a IH]; intros [|y b]; cbn [map2]; auto.
  f_equal; [apply Qcmult_comm | apply IH]. Qed.

Theorem gradient_input_core_correct bs xs ts : bs_ok bs ->
  gradient_input_core grad bs xs ts = map2 (spec_gradient_input grad) xs ts.
Proof.
  intro Hb. unfold gradient_input_core. rewrite batched_grad_rowwise by exact Hb.
  unfold spec_gradient_input. clear Hb. revert ts; induction xs as [|x xs IH]; intros [|t ts]; cbn [map2]; auto.
  f_equal; [apply vmul_comm | apply IH].
Qed.
End Batched.

(* ---------- channel reduction ---------- *)
Lemma harmonize_spec k r e : kind_ok k -> length e = kind_size k -> harmonize k r e = spec_reduce k r e.
Proof.
  destruct k as [d|t w|h w c]; cbn [harmonize spec_reduce kind_ok kind_size]; intros Hk He; [destruct r; reflexivity..|].
  destruct r as [r|]; [|destruct (c =? 1); reflexivity]. destruct (c =? 1); [reflexivity|].
  rewrite (chunks_exact_seq e (h * w) c 0%Qc) by lia. rewrite map_map. reflexivity.
Qed.

Open Scope Qc_scope.

Lemma Qcmax_cases x y : (Qcmax x y = x /\ y <= x) \/ (Qcmax x y = y /\ x <= y).
Proof. unfold Qcmax. destruct (Qclt_le_dec x y) as [H|H]; [right | left]; split; auto. apply Qclt_le_weak; exact H. Qed.
Lemma Qcmin_cases x y : (Qcmin x y = x /\ x <= y) \/ (Qcmin x y = y /\ y <= x).
Proof. unfold Qcmin. destruct (Qclt_le_dec y x) as [H|H]; [right | left]; split; auto. apply Qclt_le_weak; exact H. Qed.

Lemma fold_max_spec l x : is_max (fold_left Qcmax l x) (x :: l).
Proof.
  revert x; induction l as [|y l IH]; intro x; cbn [fold_left].
  - split; [left; reflexivity|]. intros z [<-|[]]. apply Qcle_refl.
  - destruct (IH (Qcmax x y)) as [Hin Hub]. destruct (Qcmax_cases x y) as [[E L]|[E L]]; rewrite E in *.
    + split; [destruct Hin as [<-|Hin]; [left; reflexivity | right; right; exact Hin]|].
      intros z [<-|[<-|Hz]]; [apply Hub; left; reflexivity | eapply Qcle_trans; [exact L | apply Hub; left; reflexivity] | apply Hub; right; exact Hz].
    + split; [right; exact Hin|].
      intros z [<-|[<-|Hz]]; [eapply Qcle_trans; [exact L | apply Hub; left; reflexivity] | apply Hub; left; reflexivity | apply Hub; right; exact Hz].
Qed.
Lemma fold_min_spec l x : is_min (fold_left Qcmin l x) (x :: l).
Proof.
  revert x; induction l as [|y l IH]; intro x; cbn [fold_left].
  - split; [left; reflexivity|]. intros z [<-|[]]. apply Qcle_refl.
  - destruct (IH (Qcmin x y)) as [Hin Hub]. destruct (Qcmin_cases x y) as [[E L]|[E L]]; rewrite E in *.
    + split; [destruct Hin as [<-|Hin]; [left; reflexivity | right; right; exact Hin]|].
      intros z [<-|[<-|Hz]]; [apply Hub; left; reflexivity | eapply Qcle_trans; [apply Hub; left; reflexivity | exact L] | apply Hub; right; exact Hz].
    + split; [right; exact Hin|].
      intros z [<-|[<-|Hz]]; [eapply Qcle_trans; [apply Hub; left; reflexivity | exact L] | apply Hub; left; reflexivity | apply Hub; right; exact Hz].
Qed.

(* the four reducers are sum, arithmetic mean, maximum and minimum of the channel values *)
Theorem reduce_spec r l : l <> [] ->
  match r with
  | RSum => reduce r l = qsum l
  | RMean => reduce r l = qsum l / qn (length l)
  | RMax => is_max (reduce r l) l
  | RMin => is_min (reduce r l) l
  end.
Proof. intro Hl. destruct r; cbn [reduce]; try reflexivity; (destruct l as [|x l]; [congruence|]);
  [apply fold_min_spec | apply fold_max_spec]. Qed.

Close Scope Qc_scope. Open Scope nat_scope.

Lemma in_firstn {A} k (l : list A) x : In x (firstn k l) -> In x l.
Proof. revert l; induction k as [|k IH]; intros [|y l] H; cbn [firstn] in H; try contradiction.
  destruct H as [<-|H]; [left; reflexivity | right; apply IH; exact H]. Qed.
Lemma in_skipn {A} k (l : list A) x : In x (skipn k l) -> In x l.
Proof. revert l; induction k as [|k IH]; intros l H; [exact H|]. destruct l as [|y l]; [exact H|].
  right. apply IH. exact H. Qed.

(* ---------- one pass of the while loop of GradientStatistic.explain ---------- *)
Section Loop.
Variable grad : sample -> sample -> sample.
Variables nb B pb : nat.
Hypothesis HB : 1 <= B.
Hypothesis Hpb : 1 <= pb.

(* the noises of input r consumed by the pass that starts at [total] and handles k perturbations *)
Definition win (k total : nat) (r : row) : list sample := firstn k (skipn total (rn r)).

Lemma win_length k total r : length (rn r) = nb -> total + k <= nb -> length (win k total r) = k.
Proof. intros H1 H2. unfold win. rewrite firstn_length, skipn_length. lia. Qed.

Lemma pass_points k total c : (forall r, In r c -> length (rn r) = nb) -> total + k <= nb ->
  map2 vadd (rep k (map rx c)) (flat_map (win k total) c)
  = flat_map (fun r => map (vadd (rx r)) (win k total r)) c.
Proof.
  intros Hn Hk. rewrite rep_map, map2_flat_map.
  - apply flat_map_ext_in. intros r Hr. apply map2_repeat_l. apply win_length; auto.
  - intros r Hr. rewrite repeat_length. symmetry. apply win_length; auto.
Qed.

Lemma pass_grads k total c : (forall r, In r c -> length (rn r) = nb) -> total + k <= nb ->
  batched_grad grad (Some B) (flat_map (fun r => map (vadd (rx r)) (win k total r)) c) (rep k (map rt c))
  = flat_map (fun r => map (fun e => grad (vadd (rx r) e) (rt r)) (win k total r)) c.
Proof.
  intros Hn Hk. rewrite batched_grad_rowwise by exact HB. rewrite rep_map, map2_flat_map.
  - apply flat_map_ext_in. intros r Hr. rewrite map2_map_l. apply map2_repeat_r. apply win_length; auto.
  - intros r Hr. rewrite map_length, repeat_length. apply win_length; auto.
Qed.

(* loop rule: an invariant indexed by the number of perturbations consumed so far *)
Section Rule.
Context {A : Type}.
Variable step : nat -> A -> list (list sample) -> list (list sample) -> A.
Variable c : list row.
Hypothesis Hn : forall r, In r c -> length (rn r) = nb.
Variable Inv : nat -> A -> Prop.
Definition pts k total := map (fun r => map (vadd (rx r)) (win k total r)) c.
Definition grs k total := map (fun r => map (fun e => grad (vadd (rx r) e) (rt r)) (win k total r)) c.
Hypothesis Hstep : forall total acc k, total < nb -> 1 <= k -> total + k <= nb -> Inv total acc ->
  Inv (total + k) (step k acc (pts k total) (grs k total)).

Lemma noise_loop_rule fuel total acc : total <= nb -> nb - total <= fuel -> Inv total acc ->
  Inv nb (noise_loop grad nb B pb step fuel total c acc).
Proof.
  revert total acc; induction fuel as [|f IH]; intros total acc Ht Hf HI.
  - cbn [noise_loop]. replace nb with total by lia. exact HI.
  - cbn [noise_loop]. destruct (total <? nb) eqn:E.
    + apply Nat.ltb_lt in E. cbv zeta. set (k := Nat.min pb (nb - total)).
      assert (Hk1 : 1 <= k) by (unfold k; lia). assert (Hk2 : total + k <= nb) by (unfold k; lia).
      change (flat_map (fun r : row => firstn k (skipn total (rn r))) c) with (flat_map (win k total) c).
      rewrite (pass_points k total c Hn Hk2). rewrite (pass_grads k total c Hn Hk2).
      rewrite !chunks_flat_map_exact; try exact Hk1;
        try (intros r Hr; rewrite map_length; apply win_length; auto).
      apply IH; [lia | lia |]. apply Hstep; assumption.
    + apply Nat.ltb_ge in E. replace nb with total by lia. exact HI.
Qed.
End Rule.

(* ---- the evaluated points: each input is evaluated on exactly its nb noisy copies ---- *)
Lemma points_chunk c : (forall r, In r c -> length (rn r) = nb) ->
  noise_loop grad nb B pb (fun _ a p _ => map2 (@app sample) a p) nb 0 c (map (fun _ => []) c)
  = map (fun r => map (vadd (rx r)) (rn r)) c.
Proof.
  intro Hn.
  pose (Inv := fun (total : nat) (a : list (list sample)) =>
                 a = map (fun r => map (vadd (rx r)) (firstn total (rn r))) c).
  assert (H : Inv nb (noise_loop grad nb B pb (fun _ a p _ => map2 (@app sample) a p) nb 0 c (map (fun _ => []) c))).
  { apply noise_loop_rule; try lia; try exact Hn.
    - intros total acc k Ht Hk1 Hk2 HI. unfold Inv in *. subst acc. unfold pts. rewrite map2_map_map.
      apply map_ext. intro r. rewrite firstn_add, map_app. reflexivity.
    - unfold Inv. apply map_ext. reflexivity. }
  unfold Inv in H. rewrite H. apply map_ext_in. intros r Hr.
  rewrite firstn_all2 by (rewrite (Hn r Hr); lia). reflexivity.
Qed.

(* ---- the online statistic ---- *)
Hypothesis Hg : shape_preserving grad.

Definition G (r : row) (e : sample) : sample := grad (vadd (rx r) e) (rt r).
Definition S1 (r : row) (m : nat) : sample := vsum (length (rx r)) (map (G r) (firstn m (rn r))).
Definition S2 (r : row) (m : nat) : sample := vsum (length (rx r)) (map (fun e => vsq (G r e)) (firstn m (rn r))).
Definition uses1 (st : stat) : bool := match st with SSquare => false | _ => true end.
Definition uses2 (st : stat) : bool := match st with SMean => false | _ => true end.

Lemma G_length r e : length e = length (rx r) -> length (G r e) = length (rx r).
Proof. intro H. unfold G. rewrite Hg. rewrite vadd_length, H. lia. Qed.
Lemma vsq_length v : length (vsq v) = length v.
Proof. unfold vsq, vmul. rewrite map2_length. lia. Qed.

(* adding the sum of one group of k new vectors to the running sum *)
Lemma acc_step (H : sample -> sample) d es total k : (forall e, In e es -> length (H e) = d) ->
  1 <= k -> total + k <= length es ->
  vadd (vsum d (map H (firstn total es))) (group_sum (map H (firstn k (skipn total es))))
  = vsum d (map H (firstn (total + k) es)).
Proof.
  intros HH Hk Hl. set (w := firstn k (skipn total es)).
  assert (Hw : forall e, In e w -> In e es) by (intros e He; eapply in_skipn, in_firstn; exact He).
  assert (Hwl : length w = k) by (unfold w; rewrite firstn_length, skipn_length; lia).
  assert (E : group_sum (map H w) = vsum d (map H w)).
  { unfold group_sum. destruct w as [|e0 w']; [cbn [length] in Hwl; lia|]. cbn [map hd].
    rewrite (HH e0) by (apply Hw; left; reflexivity). reflexivity. }
  rewrite E. unfold vsum. rewrite vadd_fold_shift. rewrite (vadd_zero_r d).
  - rewrite firstn_add, map_app, fold_left_app. reflexivity.
  - apply fold_vadd_length; [apply repeat_length|]. intros v Hv. apply in_map_iff in Hv as [e [<- He]].
    apply HH. eapply in_firstn; exact He.
Qed.

Section Stat.
Variable st : stat.
Variable c : list row.
Hypothesis Hc : noises_ok nb c.

Definition InvS (total : nat) (a : ostat) : Prop :=
  cnt a = total /\ (uses1 st = true -> sum1 a = map (fun r => S1 r total) c)
                /\ (uses2 st = true -> sum2 a = map (fun r => S2 r total) c).

Lemma sum1_step total k : 1 <= k -> total + k <= nb ->
  map2 vadd (map (fun r => S1 r total) c) (map group_sum (grs c k total)) = map (fun r => S1 r (total + k)) c.
Proof.
  intros Hk1 Hk2. unfold grs. rewrite map_map, map2_map_map. apply map_ext_in. intros r Hr.
  destruct (Hc r Hr) as [Hl He]. unfold S1, win. apply acc_step; [| exact Hk1 | lia].
  intros e Hin. apply G_length. apply He. exact Hin.
Qed.

Lemma sum2_step total k : 1 <= k -> total + k <= nb ->
  map2 vadd (map (fun r => S2 r total) c) (map (fun g => group_sum (map vsq g)) (grs c k total))
  = map (fun r => S2 r (total + k)) c.
Proof.
  intros Hk1 Hk2. unfold grs. rewrite map_map, map2_map_map. apply map_ext_in. intros r Hr.
  destruct (Hc r Hr) as [Hl He]. unfold S2, win. rewrite map_map.
  apply (acc_step (fun e => vsq (G r e))); [| exact Hk1 | lia].
  intros e Hin. rewrite vsq_length. apply G_length. apply He. exact Hin.
Qed.

Lemma stat_loop :
  InvS nb (noise_loop grad nb B pb (fun k a _ g => update_stat st k a g) nb 0 c (init_stat c)).
Proof.
  apply noise_loop_rule; try lia.
  - intros r Hr. apply (Hc r Hr).
  - intros total acc k Ht Hk1 Hk2 (Hcnt & H1 & H2). unfold InvS, update_stat.
    destruct st; cbn [cnt sum1 sum2 uses1 uses2] in *; (split; [lia|]); split; intro U; try discriminate;
      try (rewrite (H1 eq_refl)); try (rewrite (H2 eq_refl)); auto using sum1_step, sum2_step.
  - unfold InvS, init_stat. cbn [cnt sum1 sum2]. split; [reflexivity|]. split; intros _; apply map_ext; reflexivity.
Qed.
End Stat.

(* ---- final values ---- *)
Open Scope Qc_scope.

Lemma S1_length r m : (forall e, In e (rn r) -> length e = length (rx r)) -> length (S1 r m) = length (rx r).
Proof. intro He. unfold S1, vsum. apply fold_vadd_length; [apply repeat_length|].
  intros v Hv. apply in_map_iff in Hv as [e [<- Hin]]. apply G_length, He. eapply in_firstn; exact Hin. Qed.
Lemma S2_length r m : (forall e, In e (rn r) -> length e = length (rx r)) -> length (S2 r m) = length (rx r).
Proof. intro He. unfold S2, vsum. apply fold_vadd_length; [apply repeat_length|].
  intros v Hv. apply in_map_iff in Hv as [e [<- Hin]]. rewrite vsq_length. apply G_length, He. eapply in_firstn; exact Hin. Qed.

Lemma nthq_vsq v j : nthq (vsq v) j = sq (nthq v j).
Proof. unfold vsq, vmul, sq. apply nthq_map2; [ring | reflexivity]. Qed.

Lemma nthq_S1 r j : length (rn r) = nb -> (forall e, In e (rn r) -> length e = length (rx r)) ->
  nthq (S1 r nb) j = qsum (component j (noisy_grads grad (rx r) (rt r) (rn r))).
Proof.
  intros Hl He. unfold S1. rewrite firstn_all2 by lia. rewrite nthq_vsum.
  - unfold component, noisy_grads, G. rewrite !map_map. reflexivity.
  - intros v Hv. apply in_map_iff in Hv as [e [<- Hin]]. apply G_length, He, Hin.
Qed.
Lemma nthq_S2 r j : length (rn r) = nb -> (forall e, In e (rn r) -> length e = length (rx r)) ->
  nthq (S2 r nb) j = qsum (map sq (component j (noisy_grads grad (rx r) (rt r) (rn r)))).
Proof.
  intros Hl He. unfold S2. rewrite firstn_all2 by lia. rewrite nthq_vsum.
  - unfold component, noisy_grads, G. rewrite !map_map. apply qsum_map_ext. intros e _. apply nthq_vsq.
  - intros v Hv. apply in_map_iff in Hv as [e [<- Hin]]. rewrite vsq_length. apply G_length, He, Hin.
Qed.

(* n/(n-1) * (E[v^2] - E[v]^2) is the unbiased variance *)
Lemma var_identity (l : list Qc) : (2 <= length l)%nat ->
  qn (length l) / qn (length l - 1) * (qsum (map sq l) / qn (length l) - (qsum l / qn (length l)) * (qsum l / qn (length l)))
  = suvar l.
Proof.
  intro Hn. unfold suvar, smean. unfold sq at 2. rewrite qsum_sqdev.
  pose proof (qn_neq0 (length l) ltac:(lia)) as N1. pose proof (qn_neq0 (length l - 1) ltac:(lia)) as N2.
  unfold sq. unfold two. replace (Q2Qc 2) with (1 + 1) by (apply Qc_is_canon; reflexivity).
  field. split; assumption.
Qed.

Lemma div0 n : 0 / n = 0.
Proof. unfold Qcdiv. ring. Qed.

Lemma final_chunk st c a : noises_ok nb c -> (1 <= nb)%nat -> (st = SVar -> (2 <= nb)%nat) -> InvS st c nb a ->
  final_stat st a = map (fun r => spec_stat grad st (rx r) (rt r) (rn r)) c.
Proof.
  intros Hc Hnb Hvar (Hcnt & H1 & H2). unfold final_stat. rewrite Hcnt.
  assert (Hlen : forall r, In r c -> length (component 0 (noisy_grads grad (rx r) (rt r) (rn r))) = nb).
  { intros r Hr. unfold component, noisy_grads. rewrite !map_length. apply (Hc r Hr). }
  destruct st; cbn [uses1 uses2] in *.
  - (* SmoothGrad *)
    rewrite (H1 eq_refl), map_map. apply map_ext_in. intros r Hr. destruct (Hc r Hr) as [Hl He].
    apply nthq_ext.
    + rewrite map_length, S1_length by exact He. unfold spec_stat. rewrite map_length, seq_length. reflexivity.
    + intros j Hj. rewrite map_length, S1_length in Hj by exact He.
      rewrite nthq_map0 by apply div0. rewrite nthq_S1 by assumption.
      unfold spec_stat. rewrite (nthq_map _ _ 0%nat) by (rewrite seq_length; exact Hj). rewrite seq_nth by exact Hj.
      cbn [plus stat_of]. unfold smean, component, noisy_grads. rewrite !map_length. do 2 f_equal. symmetry; exact Hl.
  - (* SquareGrad *)
    rewrite (H2 eq_refl), map_map. apply map_ext_in. intros r Hr. destruct (Hc r Hr) as [Hl He].
    apply nthq_ext.
    + rewrite map_length, S2_length by exact He. unfold spec_stat. rewrite map_length, seq_length. reflexivity.
    + intros j Hj. rewrite map_length, S2_length in Hj by exact He.
      rewrite nthq_map0 by apply div0. rewrite nthq_S2 by assumption.
      unfold spec_stat. rewrite (nthq_map _ _ 0%nat) by (rewrite seq_length; exact Hj). rewrite seq_nth by exact Hj.
      cbn [plus stat_of]. unfold ssqmean, component, noisy_grads. rewrite !map_length. do 2 f_equal. symmetry; exact Hl.
  - (* VarGrad *)
    specialize (Hvar eq_refl).
    rewrite (H1 eq_refl), (H2 eq_refl), map2_map_map. apply map_ext_in. intros r Hr. destruct (Hc r Hr) as [Hl He].
    apply nthq_ext.
    + rewrite map2_length, S1_length, S2_length by exact He. unfold spec_stat. rewrite map_length, seq_length. lia.
    + intros j Hj. rewrite map2_length, S1_length, S2_length in Hj by exact He.
      rewrite nthq_map2; [| rewrite !div0; ring | rewrite S1_length, S2_length by exact He; reflexivity].
      rewrite nthq_S1, nthq_S2 by assumption.
      unfold spec_stat. rewrite (nthq_map _ _ 0%nat) by (rewrite seq_length; lia). rewrite seq_nth by lia.
      cbn [plus stat_of].
      set (l := component j (noisy_grads grad (rx r) (rt r) (rn r))).
      assert (El : length l = nb) by (unfold l, component, noisy_grads; rewrite !map_length; exact Hl).
      rewrite <- El. apply var_identity. lia.
Qed.

Lemma stat_chunk st c : noises_ok nb c -> (1 <= nb)%nat -> (st = SVar -> (2 <= nb)%nat) ->
  final_stat st (noise_loop grad nb B pb (fun k a _ g => update_stat st k a g) nb 0 c (init_stat c))
  = map (fun r => spec_stat grad st (rx r) (rt r) (rn r)) c.
Proof. intros Hc Hnb Hvar. apply final_chunk; try assumption. apply stat_loop. exact Hc. Qed.
End Loop.

Close Scope Qc_scope. Open Scope nat_scope.

Lemma map2_ext_in {A B C} (f g : A -> B -> C) a b : (forall x y, In x a -> f x y = g x y) -> map2 f a b = map2 g a b.
Proof. revert b; induction a as [|x a IH]; intros [|y b] H; cbn [map2]; auto.
  f_equal; [apply H; left; reflexivity | apply IH; intros; apply H; right; assumption]. Qed.

Section Main.
Variable grad : sample -> sample -> sample.

(* the rows of GradientStatistic: input, target, noises of the input *)
Definition rows (xs ts : list sample) (noises : list (list sample)) : list row := combine (combine xs ts) noises.

Lemma gs_params bs n nb : bs_ok bs -> 1 <= n -> 1 <= nb ->
  1 <= gs_B bs n nb /\ 1 <= gs_pb bs n nb /\ 1 <= gs_ib bs n nb.
Proof.
  intros Hb Hn Hnb. assert (H : 1 <= gs_B bs n nb) by (unfold gs_B; destruct bs; cbn [eff_bs bs_ok] in *; nia).
  unfold gs_pb, gs_ib. repeat split; lia.
Qed.

Theorem gradstat_core_correct st bs nb xs ts noises : shape_preserving grad -> bs_ok bs -> 1 <= nb ->
  (st = SVar -> 2 <= nb) -> noises_ok nb (rows xs ts noises) ->
  gradstat_core grad st bs nb xs ts noises
  = map (fun r => spec_stat grad st (rx r) (rt r) (rn r)) (rows xs ts noises).
Proof.
  intros Hg Hb Hnb Hvar Hok. unfold gradstat_core. cbv zeta. fold (rows xs ts noises).
  destruct xs as [|x0 xs']; [reflexivity|]. set (xs := x0 :: xs') in *.
  destruct (gs_params bs (length xs) nb Hb ltac:(cbn [xs length]; lia) Hnb) as (HB & Hpb & Hib).
  rewrite (map_ext_in _ (map (fun r => spec_stat grad st (rx r) (rt r) (rn r)))).
  - apply map_chunks. exact Hib.
  - intros c Hc. apply stat_chunk; try assumption.
    intros r Hr. apply Hok. eapply in_chunks_in; eassumption.
Qed.

(* every input is evaluated on exactly its nb noisy copies x + e, in the order of its noises *)
Theorem gradstat_points_correct bs nb xs ts noises : bs_ok bs -> 1 <= nb ->
  (forall r, In r (rows xs ts noises) -> length (rn r) = nb) ->
  gradstat_points grad bs nb xs ts noises = map (fun r => map (vadd (rx r)) (rn r)) (rows xs ts noises).
Proof.
  intros Hb Hnb Hok. unfold gradstat_points. cbv zeta. fold (rows xs ts noises).
  destruct xs as [|x0 xs']; [reflexivity|]. set (xs := x0 :: xs') in *.
  destruct (gs_params bs (length xs) nb Hb ltac:(cbn [xs length]; lia) Hnb) as (HB & Hpb & Hib).
  rewrite (map_ext_in _ (map (fun r => map (vadd (rx r)) (rn r)))).
  - apply map_chunks. exact Hib.
  - intros c Hc. apply points_chunk; try assumption.
    intros r Hr. apply Hok. eapply in_chunks_in; eassumption.
Qed.

Corollary gradstat_points_count bs nb xs ts noises : bs_ok bs -> 1 <= nb ->
  (forall r, In r (rows xs ts noises) -> length (rn r) = nb) ->
  Forall (fun p => length p = nb) (gradstat_points grad bs nb xs ts noises).
Proof.
  intros Hb Hnb Hok. rewrite gradstat_points_correct by assumption. apply Forall_forall.
  intros p Hp. apply in_map_iff in Hp as [r [<- Hr]]. rewrite map_length. apply Hok, Hr.
Qed.

(* ---- with the channel reduction: the complete explain methods ---- *)
Lemma spec_stat_length st x t es : length (spec_stat grad st x t es) = length x.
Proof. unfold spec_stat. rewrite map_length, seq_length. reflexivity. Qed.

Theorem gradstat_correct k r st bs nb xs ts noises : shape_preserving grad -> kind_ok k -> bs_ok bs -> 1 <= nb ->
  (st = SVar -> 2 <= nb) -> noises_ok nb (rows xs ts noises) ->
  (forall x, In x xs -> length x = kind_size k) ->
  gradstat grad k r st bs nb xs ts noises
  = map (fun row => spec_reduce k r (spec_stat grad st (rx row) (rt row) (rn row))) (rows xs ts noises).
Proof.
  intros Hg Hk Hb Hnb Hvar Hok Hx. unfold gradstat. rewrite gradstat_core_correct by assumption.
  rewrite map_map. apply map_ext_in. intros [[x t] es] Hr. apply harmonize_spec; [exact Hk|].
  rewrite spec_stat_length. cbn [rx fst]. apply Hx.
  unfold rows in Hr. apply in_combine_l in Hr. apply in_combine_l in Hr. exact Hr.
Qed.

Theorem saliency_correct k r bs xs ts : shape_preserving grad -> kind_ok k -> bs_ok bs ->
  (forall x, In x xs -> length x = kind_size k) ->
  saliency grad k r bs xs ts = map2 (fun x t => spec_reduce k r (spec_saliency grad x t)) xs ts.
Proof.
  intros Hg Hk Hb Hx. unfold saliency. rewrite saliency_core_correct by exact Hb. rewrite map_map2.
  apply map2_ext_in. intros x t Hin. apply harmonize_spec; [exact Hk|].
  unfold spec_saliency. rewrite map_length, Hg. apply Hx, Hin.
Qed.

Theorem gradient_input_correct k r bs xs ts : shape_preserving grad -> kind_ok k -> bs_ok bs ->
  (forall x, In x xs -> length x = kind_size k) ->
  gradient_input grad k r bs xs ts = map2 (fun x t => spec_reduce k r (spec_gradient_input grad x t)) xs ts.
Proof.
  intros Hg Hk Hb Hx. unfold gradient_input. rewrite gradient_input_core_correct by exact Hb. rewrite map_map2.
  apply map2_ext_in. intros x t Hin. apply harmonize_spec; [exact Hk|].
  unfold spec_gradient_input, vmul. rewrite map2_length, Hg. rewrite Nat.min_id. apply Hx, Hin.
Qed.

(* batch_size only bounds memory *)
Corollary saliency_batch_invariant k r bs bs' xs ts : bs_ok bs -> bs_ok bs' ->
  saliency grad k r bs xs ts = saliency grad k r bs' xs ts.
Proof. intros H H'. unfold saliency. rewrite !saliency_core_correct by assumption. reflexivity. Qed.
Corollary gradient_input_batch_invariant k r bs bs' xs ts : bs_ok bs -> bs_ok bs' ->
  gradient_input grad k r bs xs ts = gradient_input grad k r bs' xs ts.
Proof. intros H H'. unfold gradient_input. rewrite !gradient_input_core_correct by assumption. reflexivity. Qed.
Corollary gradstat_batch_invariant k r st bs bs' nb xs ts noises : shape_preserving grad -> bs_ok bs -> bs_ok bs' ->
  1 <= nb -> (st = SVar -> 2 <= nb) -> noises_ok nb (rows xs ts noises) ->
  gradstat grad k r st bs nb xs ts noises = gradstat grad k r st bs' nb xs ts noises.
Proof. intros. unfold gradstat. rewrite !gradstat_core_correct by assumption. reflexivity. Qed.

(* ---- the statistic does not depend on the order of an input's noises ---- *)
Open Scope Qc_scope.
Lemma stat_of_perm st l l' : Permutation l l' -> stat_of st l = stat_of st l'.
Proof.
  intro P. pose proof (Permutation_length P) as L. pose proof (qsum_perm _ _ P) as S.
  destruct st; cbn [stat_of].
  - unfold smean. rewrite S, L. reflexivity.
  - unfold ssqmean. rewrite (qsum_perm _ _ (Permutation_map sq P)), L. reflexivity.
  - unfold suvar. assert (M : smean l = smean l') by (unfold smean; rewrite S, L; reflexivity).
    rewrite M, L. rewrite (qsum_perm _ _ (Permutation_map (fun v => sq (v - smean l')) P)). reflexivity.
Qed.

Theorem stat_perm_invariant st x t es es' : Permutation es es' -> spec_stat grad st x t es = spec_stat grad st x t es'.
Proof.
  intro P. unfold spec_stat. apply map_ext. intro j. apply stat_of_perm.
  unfold component, noisy_grads. apply Permutation_map, Permutation_map, P.
Qed.
End Main.

Close Scope Qc_scope. Open Scope nat_scope.

(* feeding the recorded noises of every input in any (canonical) order gives the same explanation *)
Section Perm.
Variable grad : sample -> sample -> sample.

Lemma noises_ok_perm nb (l : list (sample * sample)) ns ns' : Forall2 (@Permutation sample) ns ns' ->
  noises_ok nb (combine l ns) -> noises_ok nb (combine l ns').
Proof.
  intro F. revert l. induction F as [|es es' ns ns' P F IH]; intros l H.
  - destruct l; intros r [].
  - destruct l as [|xt l]; [intros r []|]. intros r [<-|Hr].
    + destruct (H (xt, es) (or_introl eq_refl)) as [Hl He]. cbn [rn rx snd fst] in *. split.
      * rewrite <- (Permutation_length P). exact Hl.
      * intros e Hin. apply He. eapply Permutation_in; [apply Permutation_sym; exact P | exact Hin].
    + apply (IH l); [|exact Hr]. intros r' Hr'. apply H. right. exact Hr'.
Qed.

Lemma rows_perm k r st (l : list (sample * sample)) ns ns' : Forall2 (@Permutation sample) ns ns' ->
  map (fun row => spec_reduce k r (spec_stat grad st (rx row) (rt row) (rn row))) (combine l ns)
  = map (fun row => spec_reduce k r (spec_stat grad st (rx row) (rt row) (rn row))) (combine l ns').
Proof.
  intro F. revert l. induction F as [|es es' ns ns' P F IH]; intros l; [destruct l; reflexivity|].
  destruct l as [|xt l]; [reflexivity|]. cbn [combine map rx rt rn fst snd]. f_equal; [|apply IH].
  f_equal. apply stat_perm_invariant. exact P.
Qed.

Theorem gradstat_perm_invariant k r st bs nb xs ts noises noises' : shape_preserving grad -> kind_ok k -> bs_ok bs ->
  1 <= nb -> (st = SVar -> 2 <= nb) -> noises_ok nb (rows xs ts noises) ->
  (forall x, In x xs -> length x = kind_size k) -> Forall2 (@Permutation sample) noises noises' ->
  gradstat grad k r st bs nb xs ts noises = gradstat grad k r st bs nb xs ts noises'.
Proof.
  intros Hg Hk Hb Hnb Hvar Hok Hx F.
  rewrite !gradstat_correct; try assumption; [apply rows_perm; exact F |].
  unfold rows. eapply noises_ok_perm; eassumption.
Qed.
End Perm.

(* ---------- the F-quad family ---------- *)
Lemma fquad_grad_shape ks : shape_preserving (fquad_grad ks).
Proof.
  intros x t. unfold fquad_grad. apply fold_vadd_length; [apply repeat_length|]. intros v Hv.
  rewrite map2_combine in Hv. apply in_map_iff in Hv as [[k tc] [<- _]].
  unfold vscale, class_grad. rewrite !map_length, seq_length. reflexivity.
Qed.

(* ---------- the statements of Props/C01.v, with the reference definitions spelled out ---------- *)
Open Scope Qc_scope.

Lemma smoothgrad_correct :
  forall (grad : sample -> sample -> sample) k r bs nb xs ts noises,
    shape_preserving grad -> kind_ok k -> bs_ok bs -> (1 <= nb)%nat -> noises_ok nb (rows xs ts noises) ->
    (forall x, In x xs -> length x = kind_size k) ->
    gradstat grad k r SMean bs nb xs ts noises
    = map (fun row : row => let '(x, t, es) := row in
             spec_reduce k r (map (fun j => qsum (map (fun e => nthq (grad (vadd x e) t) j) es) / qn (length es))
                                  (seq 0 (length x))))
          (combine (combine xs ts) noises).
Proof.
  intros grad k r bs nb xs ts noises Hg Hk Hb Hnb Hok Hx.
  rewrite (gradstat_correct grad k r SMean bs nb xs ts noises Hg Hk Hb Hnb ltac:(discriminate) Hok Hx).
  apply map_ext. intros [[x t] es]. cbn [rx rt rn fst snd]. f_equal. apply map_ext. intro j.
  cbn [stat_of]. unfold smean, component, noisy_grads. rewrite !map_map, !map_length. reflexivity.
Qed.

Lemma squaregrad_correct :
  forall (grad : sample -> sample -> sample) k r bs nb xs ts noises,
    shape_preserving grad -> kind_ok k -> bs_ok bs -> (1 <= nb)%nat -> noises_ok nb (rows xs ts noises) ->
    (forall x, In x xs -> length x = kind_size k) ->
    gradstat grad k r SSquare bs nb xs ts noises
    = map (fun row : row => let '(x, t, es) := row in
             spec_reduce k r (map (fun j => qsum (map (fun e => nthq (grad (vadd x e) t) j * nthq (grad (vadd x e) t) j) es)
                                            / qn (length es))
                                  (seq 0 (length x))))
          (combine (combine xs ts) noises).
Proof.
  intros grad k r bs nb xs ts noises Hg Hk Hb Hnb Hok Hx.
  rewrite (gradstat_correct grad k r SSquare bs nb xs ts noises Hg Hk Hb Hnb ltac:(discriminate) Hok Hx).
  apply map_ext. intros [[x t] es]. cbn [rx rt rn fst snd]. f_equal. apply map_ext. intro j.
  cbn [stat_of]. unfold ssqmean, component, noisy_grads, sq. rewrite !map_map, !map_length. reflexivity.
Qed.

Lemma vargrad_correct :
  forall (grad : sample -> sample -> sample) k r bs nb xs ts noises,
    shape_preserving grad -> kind_ok k -> bs_ok bs -> (2 <= nb)%nat -> noises_ok nb (rows xs ts noises) ->
    (forall x, In x xs -> length x = kind_size k) ->
    gradstat grad k r SVar bs nb xs ts noises
    = map (fun row : row => let '(x, t, es) := row in
             spec_reduce k r (map (fun j =>
                 let g := map (fun e => nthq (grad (vadd x e) t) j) es in
                 let mean := qsum g / qn (length g) in
                 qsum (map (fun v => (v - mean) * (v - mean)) g) / qn (length g - 1))
               (seq 0 (length x))))
          (combine (combine xs ts) noises).
Proof.
  intros grad k r bs nb xs ts noises Hg Hk Hb Hnb Hok Hx.
  rewrite (gradstat_correct grad k r SVar bs nb xs ts noises Hg Hk Hb ltac:(lia) ltac:(intros _; exact Hnb) Hok Hx).
  apply map_ext. intros [[x t] es]. cbn [rx rt rn fst snd]. f_equal. apply map_ext. intro j.
  cbn [stat_of]. unfold suvar, smean, component, noisy_grads, sq. cbv zeta. rewrite !map_map. reflexivity.
Qed.

Lemma stat_queries_exact :
  forall (grad : sample -> sample -> sample) bs nb xs ts noises,
    bs_ok bs -> (1 <= nb)%nat -> (forall r, In r (rows xs ts noises) -> length (rn r) = nb) ->
    gradstat_points grad bs nb xs ts noises = map (fun r => map (vadd (rx r)) (rn r)) (rows xs ts noises)
    /\ Forall (fun p => length p = nb) (gradstat_points grad bs nb xs ts noises).
Proof. intros; split; [apply gradstat_points_correct | apply gradstat_points_count]; assumption. Qed.

Lemma batch_invariant :
  forall (grad : sample -> sample -> sample) k r st bs bs' nb xs ts noises,
    shape_preserving grad -> bs_ok bs -> bs_ok bs' -> (1 <= nb)%nat -> (st = SVar -> (2 <= nb)%nat) ->
    noises_ok nb (rows xs ts noises) ->
    saliency grad k r bs xs ts = saliency grad k r bs' xs ts /\
    gradient_input grad k r bs xs ts = gradient_input grad k r bs' xs ts /\
    gradstat grad k r st bs nb xs ts noises = gradstat grad k r st bs' nb xs ts noises.
Proof. intros; repeat split; [apply saliency_batch_invariant | apply gradient_input_batch_invariant
                             | apply gradstat_batch_invariant]; assumption. Qed.
