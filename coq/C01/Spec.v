(* C01/Spec.v — the property's own words, per sample: no batching, no accumulators, no reshapes.
     Saliency       |ds/dx|
     GradientInput  x * ds/dx
     SmoothGrad / SquareGrad / VarGrad   mean / mean of squares / unbiased variance of ds/dx over the
                    nb_samples noisy copies x + e of the input (e ranging over the noises drawn for x)
     then, for images with C <> 1 and a reducer, the channel axis of every pixel is reduced. *)
From Xpl Require Export C01.Model.
Open Scope Qc_scope.

(* statistics of a list of numbers *)
Definition sq (v : Qc) : Qc := v * v.
Definition smean (l : list Qc) : Qc := qsum l / qn (length l).
Definition ssqmean (l : list Qc) : Qc := qsum (map sq l) / qn (length l).
(* unbiased variance: sum of squared deviations from the mean, divided by n - 1 *)
Definition suvar (l : list Qc) : Qc := qsum (map (fun v => sq (v - smean l)) l) / qn (length l - 1).
Definition stat_of (st : stat) : list Qc -> Qc :=
  match st with SMean => smean | SSquare => ssqmean | SVar => suvar end.

Section Spec.
Variable grad : sample -> sample -> sample.

Definition spec_saliency (x t : sample) : sample := map Qcabs (grad x t).
Definition spec_gradient_input (x t : sample) : sample := vmul x (grad x t).

(* the gradients at the noisy copies of x, and the values of their component j *)
Definition noisy_grads (x t : sample) (es : list sample) : list sample := map (fun e => grad (vadd x e) t) es.
Definition component (j : nat) (gs : list sample) : list Qc := map (fun g => nthq g j) gs.
Definition spec_stat (st : stat) (x t : sample) (es : list sample) : sample :=
  map (fun j => stat_of st (component j (noisy_grads x t es))) (seq 0 (length x)).
End Spec.

(* channel reduction: pixel p of an (h, w, c) explanation owns the flat positions p*c .. p*c + c-1 *)
Definition pixel_channels (c : nat) (e : sample) (p : nat) : list Qc := map (fun ch => nthq e (p * c + ch)%nat) (seq 0 c).
Definition spec_reduce (k : kind) (r : option reducer) (e : sample) : sample :=
  match k, r with
  | KImg h w c, Some r => if Nat.eqb c 1 then e else map (fun p => reduce r (pixel_channels c e p)) (seq 0 (h * w))
  | _, _ => e
  end.

(* what the four reducers are *)
Definition is_max (m : Qc) (l : list Qc) : Prop := In m l /\ forall y, In y l -> y <= m.
Definition is_min (m : Qc) (l : list Qc) : Prop := In m l /\ forall y, In y l -> m <= y.

(* well-formed configurations, as the API requires them *)
Definition kind_ok (k : kind) : Prop :=
  match k with KTab d => (1 <= d)%nat | KTs t w => (1 <= t /\ 1 <= w)%nat | KImg h w c => (1 <= h /\ 1 <= w /\ 1 <= c)%nat end.
(* the gradient has the shape of the input *)
Definition shape_preserving (grad : sample -> sample -> sample) : Prop := forall x t, length (grad x t) = length x.
(* every input comes with exactly nb noise tensors of its own shape *)
Definition noises_ok (nb : nat) (rows : list row) : Prop :=
  forall r, In r rows -> length (rn r) = nb /\ forall e, In e (rn r) -> length e = length (rx r).
