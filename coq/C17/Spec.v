(* C17/Spec.v — the property's own words: which cases are admissible for each method, without batching.

   A query has a target vector tq; case number i has target t_i; classes are argmax of the target vectors.
     naive counterfactual      : admissible  iff  argmax tq <> argmax t_i          key = dist(q, c_i)
     label-aware (class cf)    : admissible  iff  argmax cf  = argmax t_i          key = dist(q, c_i)
     nearest unlike neighbour  : the naive search with k = 1
     KLEOR Sim-Miss  (NUN u)   : admissible  iff  argmax tq  = argmax t_i          key = dist(u, c_i)
     KLEOR Global-Sim (NUN u)  : ... and dist(q, c_i) < dist(q, u)  (strict)       key = dist(u, c_i)
   all distances in the projected space, same projection for the query and the cases.
   "Honours the constraint and is nearest" = for the key function of the method (+inf when not admissible):
     sound     every returned entry with a finite key is a genuine case i, at index (i / B, i mod B), admissible,
               with its true key;
     complete  every case that is not returned is at least as far as every returned entry;
     fill      the number of finite keys returned is min(k, number of admissible cases) — the other slots are +inf. *)
From Xpl Require Export C16.Spec C17.Model.
Close Scope Qc_scope. Open Scope nat_scope.

Definition count_fin (l : list ext) : nat := length (filter is_fin l).

(* the projected cases zipped with their targets, un-batched *)
Definition proj_pairs (proj : list Qc -> list Qc -> list Qc) (cases targets : list (list Qc)) : list pcase :=
  combine (map2 proj cases targets) targets.

(* the statement shared by the two counterfactual methods; [adm t]: a case of target t is admissible.
   (1) every returned example is a fill or the original case i (unprojected) with its label at (i / B, i mod B);
       finite distance <-> admissible, and then it is the true distance in the projected space;
   (2) an admissible case is returned or at least as far as every returned example;
   (3) sorted by increasing distance, k slots. *)
Definition cf_statement {L : Type} (dist : list Qc -> list Qc -> Qc) (proj : list Qc -> list Qc -> list Qc)
           (k : nat) (bs : option nat) (cases targets : list (list Qc)) (labels : list L) (q tq : list Qc)
           (cf : list (@example L)) (adm : list Qc -> Prop) : Prop :=
  let B := eff_batch bs (length cases) in
  (forall e, In e cf ->
     (ex_dist e = Inf /\ ex_idx e = fill_idx /\ ex_case e = None /\ ex_label e = None)
     \/ exists i c t,
          nth_error cases i = Some c /\ nth_error targets i = Some t
          /\ ex_idx e = (Z.of_nat (i / B), Z.of_nat (i mod B)) /\ ex_case e = Some c /\ ex_label e = nth_error labels i
          /\ ((adm t /\ ex_dist e = Fin (dist (proj q tq) (proj c t))) \/ (~ adm t /\ ex_dist e = Inf)))
  /\ (forall i c t, nth_error cases i = Some c -> nth_error targets i = Some t -> adm t ->
        (exists e, In e cf /\ ex_idx e = (Z.of_nat (i / B), Z.of_nat (i mod B)))
        \/ (forall e, In e cf -> ext_le (ex_dist e) (Fin (dist (proj q tq) (proj c t)))))
  /\ Sorted ext_le (map (@ex_dist L) cf) /\ length cf = k.
