(* C17/Model.v — executable transcription of the counterfactual / semi-factual searches (no proofs here).

   search_methods/knn.py : FilterKNN.kneighbors = KNN.kneighbors (see C16/Model.v) on zip(cases, targets) with
       filter_mask = filter_fn(inputs, cases, targets, cases_targets)
       distances   = where(filter_mask, distance(inputs, cases), +inf)
   counterfactuals.py :
       NaiveCounterFactuals.filter_fn      : not_equal(argmax(targets), argmax(cases_targets))
       LabelAwareCounterFactuals.filter_fn : equal(argmax(cf_expected_classes), argmax(cases_targets));
           explain: search_method(projection(inputs, targets), cf_expected_classes)
   search_methods/kleor.py : BaseKLEORSearch.kneighbors
       nuns, nuns_indices, nuns_input_distances = FilterKNN(k=1, filter not_equal)(inputs, targets); nuns = gather(cases)
       running top-k over the batches with, per case,
           mask              = equal(argmax(targets), argmax(cases_targets))
           b_nun_sf          = where(mask, distance(nun, case), inf)          # sort key
           b_input_sf        = where(mask, distance(input, case), inf)        # returned as 'distances'
           KLEORGlobalSim    : m = b_input_sf < nuns_input_distances (strict);  both := where(m, ., inf)
       state (nun_sf_distances, input_sf_distances, indices) gathered with argsort(nun_sf)[:k]
     when no case has another class the NUN index stays (-1,-1), dataset_gather leaves a +inf vector and every
     distance to it is +inf.
   semifactuals.py : KLEORBase.format_search_output: nuns / nuns_labels gathered from the UNprojected datasets. *)
From Xpl Require Export C16.Model.
Close Scope Qc_scope. Open Scope nat_scope.

(* tf.argmax: index of the first maximum *)
Fixpoint argmax_aux (i best : nat) (bv : Qc) (l : list Qc) : nat :=
  match l with
  | [] => best
  | x :: r => if Qcltb bv x then argmax_aux (S i) i x r else argmax_aux (S i) best bv r
  end.
Definition argmax (l : list Qc) : nat := match l with [] => 0 | x :: r => argmax_aux 1 0 x r end.

Definition ne_class (tq tc : list Qc) : bool := negb (Nat.eqb (argmax tq) (argmax tc)).
Definition eq_class (tq tc : list Qc) : bool := Nat.eqb (argmax tq) (argmax tc).

(* tf.where(mask, d, +inf) *)
Definition masked (adm : bool) (d : Qc) : ext := if adm then Fin d else Inf.

Definition pcase := (list Qc * list Qc)%type.          (* (projected case, its target) *)

Section Filter.
Variable argsort : list ext -> list nat.
Variable dist : list Qc -> list Qc -> Qc.
Variable proj : list Qc -> list Qc -> list Qc.
Context {L : Type}.

(* zip(cases_dataset, targets_dataset) of two datasets batched alike *)
Definition zip_batches (B : nat) (pbatches : list (list (list Qc))) (targets : list (list Qc)) : list (list pcase) :=
  map2 (@combine _ _) pbatches (chunks B targets).

Definition filter_key (filter : list Qc -> list Qc -> bool) (pq ft : list Qc) (ct : pcase) : ext :=
  masked (filter ft (snd ct)) (dist pq (fst ct)).

Definition filter_knn (filter : list Qc -> list Qc -> bool) (k : nat) (zb : list (list pcase))
           (pq ft : list Qc) : list (ext * idx) :=
  topk argsort k (filter_key filter pq ft) idx_pay fill_idx zb.

(* NaiveCounterFactuals (ft = tq, filter = ne_class) / LabelAwareCounterFactuals (ft = expected class, eq_class) *)
Definition cf_one (filter : list Qc -> list Qc -> bool) (k : nat) (bs : option nat)
           (cases targets : list (list Qc)) (labels : list L) (q tq ft : list Qc) : list (@example L) :=
  let B := eff_batch bs (length cases) in
  let pb := project_dataset proj B cases targets in
  let found := filter_knn filter k (zip_batches B pb targets) (proj q tq) ft in
  map (fun e => {| ex_dist := fst e; ex_idx := snd e;
                   ex_case := dataset_gather (chunks B cases) (snd e);
                   ex_label := dataset_gather (chunks B labels) (snd e) |}) found.

(* ------------------------------------------------------------------ KLEOR *)
Definition nun_search (zb : list (list pcase)) (pq tq : list Qc) : ext * idx :=
  hd (Inf, fill_idx) (filter_knn ne_class 1 zb pq tq).

(* distance to the gathered NUN; None = the +inf vector left by dataset_gather *)
Definition dist_to_nun (nun : option (list Qc)) (c : list Qc) : option Qc :=
  match nun with Some u => Some (dist u c) | None => None end.
Definition masked_o (adm : bool) (d : option Qc) : ext :=
  match d with Some x => masked adm x | None => Inf end.

Definition kleor_keep (global : bool) (nun_d : ext) (pq tq : list Qc) (ct : pcase) : bool :=
  if global then ext_ltb (masked (eq_class tq (snd ct)) (dist pq (fst ct))) nun_d else true.
(* sort key: distance SF - NUN;  payload: (distance SF - input, index) *)
Definition kleor_key (global : bool) (nun : option (list Qc)) (nun_d : ext) (pq tq : list Qc) (ct : pcase) : ext :=
  if kleor_keep global nun_d pq tq ct
  then masked_o (eq_class tq (snd ct)) (dist_to_nun nun (fst ct)) else Inf.
Definition kleor_input_dist (global : bool) (nun_d : ext) (pq tq : list Qc) (ct : pcase) : ext :=
  if kleor_keep global nun_d pq tq ct then masked (eq_class tq (snd ct)) (dist pq (fst ct)) else Inf.

Definition kleor_search (global : bool) (k : nat) (pb : list (list (list Qc))) (zb : list (list pcase))
           (pq tq : list Qc) (nun_e : ext * idx) : list (ext * (ext * idx)) :=
  let nun := dataset_gather pb (snd nun_e) in
  topk argsort k (kleor_key global nun (fst nun_e) pq tq)
       (fun b p ct => (kleor_input_dist global (fst nun_e) pq tq ct, idx_pay b p ct))
       (Inf, fill_idx) zb.

Record sf_example := { sf_dist : ext; sf_idx : idx; sf_case : option (list Qc); sf_label : option L;
                       sf_dist_to_nun : ext }.
Record kleor_result := { kr_examples : list sf_example; kr_nun_idx : idx; kr_nun_dist : ext;
                         kr_nun : option (list Qc); kr_nun_label : option L }.

(* [force_nun]: None = use the NUN found by the search; Some e = rank against this NUN instead (used by the
   correspondence check when several unlike neighbours are equally near and the implementation chose another) *)
Definition kleor_one (global : bool) (k : nat) (bs : option nat) (cases targets : list (list Qc))
           (labels : list L) (q tq : list Qc) (force_nun : option (ext * idx)) : kleor_result :=
  let B := eff_batch bs (length cases) in
  let pb := project_dataset proj B cases targets in
  let zb := zip_batches B pb targets in
  let pq := proj q tq in
  let nun_e := match force_nun with Some e => e | None => nun_search zb pq tq end in
  let found := kleor_search global k pb zb pq tq nun_e in
  {| kr_examples := map (fun e => {| sf_dist := fst (snd e); sf_idx := snd (snd e);
                                     sf_case := dataset_gather (chunks B cases) (snd (snd e));
                                     sf_label := dataset_gather (chunks B labels) (snd (snd e));
                                     sf_dist_to_nun := fst e |}) found;
     kr_nun_idx := snd nun_e; kr_nun_dist := fst nun_e;
     kr_nun := dataset_gather (chunks B cases) (snd nun_e);
     kr_nun_label := dataset_gather (chunks B labels) (snd nun_e) |}.
End Filter.
