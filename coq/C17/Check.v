(* C17/Check.v — executable, tie-tolerant comparison of the counterfactual / KLEOR results with the model
   (used by harness/c17.py inside vm_compute; no theorem depends on it). *)
From Xpl Require Export C16.Check C17.Model.
Close Scope Qc_scope. Open Scope nat_scope.

Inductive cfkind := CFNaive | CFLabel.
Definition cf_filter (kd : cfkind) := match kd with CFNaive => ne_class | CFLabel => eq_class end.

(* NaiveCounterFactuals / LabelAwareCounterFactuals, all queries; fts = the targets handed to the filter *)
Definition check_cf (kd : cfkind) (d : distk) (tol : Qc) sp wk (k : nat) (bs : option nat)
           (cases targets labels : list (list Qc)) (qs tqs fts : list (list Qc)) (res : list (list slot)) : bool :=
  let B := eff_batch bs (length cases) in
  let proj := proj_fam sp wk in
  Nat.eqb (length res) (length qs) && Nat.eqb (length tqs) (length qs) && Nat.eqb (length fts) (length qs)
  && forallb (fun x => let '(q, tq, ft, slots) := x in
                let keys := map2 (fun cs t => filter_key (dist_of d) (cf_filter kd) (proj q tq) ft (proj cs t, t))
                                 cases targets in
                let model := cf_one argsort_stable (dist_of d) proj (cf_filter kd) k bs cases targets labels q tq ft in
                slots_ok (cmp_of d tol) B keys cases labels slots (map (@ex_dist (list Qc)) model))
             (combine (combine (combine qs tqs) fts) res).

Definition dump_cf (kd : cfkind) (d : distk) sp wk (k : nat) (bs : option nat)
           (cases targets : list (list Qc)) (qs tqs fts : list (list Qc)) :=
  map (fun x => let '(q, tq, ft) := x in
         map (fun e : @example (list Qc) => (edump (ex_dist e), idump (ex_idx e)))
             (cf_one argsort_stable (dist_of d) (proj_fam sp wk) (cf_filter kd) k bs cases targets
                     (map (fun _ => @nil Qc) cases) q tq ft))
      (combine (combine qs tqs) fts).

(* ------------------------------------------------------------------ KLEOR *)
Record kslot := { ks_dist : option ext; ks_dtn : option ext; ks_idx : option idx;
                  ks_case : option (option (list Qc)); ks_label : option (option (list Qc)) }.
Record kquery := { kq_slots : list kslot; kq_nidx : option idx;
                   kq_ncase : option (option (list Qc)); kq_nlabel : option (option (list Qc)) }.

Section KleorCheck.
Variable c : cmpk.
Variable B : nat.
Variable nsf isf : list ext.           (* per case: distance to the NUN (sort key), distance to the input *)
Variable cases labels : list (list Qc).

Definition kslot_is_case (s : kslot) (mk : ext) (i : nat) : bool :=
  key_close c (nth i nsf Inf) mk
  && opt_ok (ks_dist s) (fun dd => key_match c dd (nth i isf Inf))
  && opt_ok (ks_idx s) (fun ix => oeqb Nat.eqb (flat_of B ix) (Some i))
  && opt_ok (ks_case s) (fun e => oeqb qlist_eqb e (nth_error cases i))
  && opt_ok (ks_label s) (fun e => oeqb qlist_eqb e (nth_error labels i)).
Definition kslot_is_fill (s : kslot) : bool :=
  opt_ok (ks_dist s) (fun dd => negb (is_fin dd))
  && opt_ok (ks_idx s) (fun ix => idx_eqb ix fill_idx)
  && opt_ok (ks_case s) (fun e => match e with None => true | _ => false end)
  && opt_ok (ks_label s) (fun e => match e with None => true | _ => false end).
Definition kslot_ok (s : kslot) (mk : ext) : bool :=
  opt_ok (ks_dtn s) (fun dd => key_match c dd mk)
  && (existsb (kslot_is_case s mk) (seq 0 (length cases)) || (negb (is_fin mk) && kslot_is_fill s)).
Definition kslots_ok (slots : list kslot) (mkeys : list ext) : bool :=
  Nat.eqb (length slots) (length mkeys)
  && forallb (fun p => kslot_ok (fst p) (snd p)) (combine slots mkeys)
  && nodupb (flat_map (fun s => match ks_idx s with
                                | Some ix => match flat_of B ix with Some i => [i] | None => [] end
                                | None => [] end) slots).
End KleorCheck.

Definition check_kleor_one (global : bool) (d : distk) (tol : Qc) sp wk (k : nat) (bs : option nat)
           (cases targets labels : list (list Qc)) (q tq : list Qc) (r : kquery) : bool :=
  let B := eff_batch bs (length cases) in
  let proj := proj_fam sp wk in
  let dist := dist_of d in
  let cmp := cmp_of d tol in
  let pb := project_dataset proj B cases targets in
  let zb := zip_batches B pb targets in
  let pq := proj q tq in
  let pcs := concat zb in
  let model_nun := nun_search argsort_stable dist zb pq tq in
  (* the implementation's NUN, when reported, must be A nearest unlike neighbour; ranking is checked against it *)
  let nun_ok_force :=
    match kq_nidx r with
    | None => (true, None)
    | Some ix =>
        if idx_eqb ix fill_idx then (negb (is_fin (fst model_nun)), Some (Inf, fill_idx))
        else match flat_of B ix with
             | None => (false, None)
             | Some i => match nth_error pcs i with
                         | None => (false, None)
                         | Some ct => (ne_class tq (snd ct) && key_close cmp (Fin (dist pq (fst ct))) (fst model_nun),
                                       Some (Fin (dist pq (fst ct)), ix))
                         end
             end
    end in
  let res := kleor_one argsort_stable dist proj global k bs cases targets labels q tq (snd nun_ok_force) in
  let nun := dataset_gather pb (kr_nun_idx res) in
  let nsf := map (kleor_key dist global nun (kr_nun_dist res) pq tq) pcs in
  let isf := map (kleor_input_dist dist global (kr_nun_dist res) pq tq) pcs in
  fst nun_ok_force
  && Nat.eqb (length pcs) (length cases)
  && opt_ok (kq_ncase r) (fun e => oeqb qlist_eqb e (kr_nun res))
  && opt_ok (kq_nlabel r) (fun e => oeqb qlist_eqb e (kr_nun_label res))
  && kslots_ok cmp B nsf isf cases labels (kq_slots r) (map (@sf_dist_to_nun (list Qc)) (kr_examples res)).

Definition check_kleor (global : bool) (d : distk) (tol : Qc) sp wk (k : nat) (bs : option nat)
           (cases targets labels : list (list Qc)) (qs tqs : list (list Qc)) (res : list kquery) : bool :=
  Nat.eqb (length res) (length qs) && Nat.eqb (length tqs) (length qs)
  && forallb (fun x => let '(q, tq, r) := x in
                check_kleor_one global d tol sp wk k bs cases targets labels q tq r)
             (combine (combine qs tqs) res).

Definition dump_kleor (global : bool) (d : distk) sp wk (k : nat) (bs : option nat)
           (cases targets : list (list Qc)) (qs tqs : list (list Qc)) :=
  map (fun x => let '(q, tq) := x in
         let r := kleor_one argsort_stable (dist_of d) (proj_fam sp wk) global k bs cases targets
                            (map (fun _ => @nil Qc) cases) q tq None in
         (idump (kr_nun_idx r), edump (kr_nun_dist r),
          map (fun e : @sf_example (list Qc) => (edump (sf_dist e), edump (sf_dist_to_nun e), idump (sf_idx e))) (kr_examples r)))
      (combine qs tqs).
