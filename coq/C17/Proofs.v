(* C17/Proofs.v — FilterKNN / KLEOR honour their class constraints and return nearest admissible cases, for every
   batch size, k, tie-breaking argsort, distance and projection.  Built on the generic running top-k theorems of
   C16/Proofs.v (topk_keys, topk_structure). *)
From Xpl Require Import Base.Tensor C16.Spec C16.Proofs C17.Spec.
From Coq Require Import Arith.
Close Scope Qc_scope. Open Scope nat_scope.

(* ------------------------------------------------------------------ counting finite keys *)
Lemma count_fin_app a b : count_fin (a ++ b) = count_fin a + count_fin b.
Proof. unfold count_fin. rewrite filter_app, app_length. reflexivity. Qed.

Lemma count_fin_repeat_Inf k : count_fin (repeat Inf k) = 0.
Proof. induction k as [|k IH]; [reflexivity | exact IH]. Qed.

Lemma count_fin_perm a b : Permutation a b -> count_fin a = count_fin b.
Proof.
  unfold count_fin. induction 1 as [|x a b _ IH|x y a|a b c _ IH1 _ IH2]; cbn; try lia.
  - destruct (is_fin x); cbn; lia.
  - destruct (is_fin x), (is_fin y); cbn; lia.
Qed.

Lemma count_fin_all_inf l : Forall (fun x => ext_le Inf x) l -> count_fin l = 0.
Proof.
  induction 1 as [|x l Hx _ IH]; [reflexivity|]. apply ext_Inf_leb in Hx. subst x. exact IH.
Qed.

Lemma count_fin_firstn_le l n : count_fin (firstn n l) <= count_fin l.
Proof.
  revert n; induction l as [|x l IH]; intros [|n]; cbn; try lia.
  unfold count_fin in *. cbn. specialize (IH n). destruct (is_fin x); cbn; lia.
Qed.

(* in a sorted list the finite keys come first *)
Lemma count_fin_firstn_sorted S : StronglySorted ext_le S -> forall n,
  count_fin (firstn n S) = Nat.min n (count_fin S).
Proof.
  induction 1 as [|a l Hs IH Ha]; intros [|n]; try reflexivity.
  cbn [firstn]. destruct a as [x|].
  - change (count_fin (Fin x :: firstn n l)) with (S (count_fin (firstn n l))).
    change (count_fin (Fin x :: l)) with (S (count_fin l)). rewrite IH. lia.
  - change (count_fin (Inf :: firstn n l)) with (count_fin (firstn n l)).
    change (count_fin (Inf :: l)) with (count_fin l).
    pose proof (count_fin_all_inf l Ha) as H0. pose proof (count_fin_firstn_le l n). lia.
Qed.

(* ------------------------------------------------------------------ generic consequences for the running top-k *)
Section TopKSpec.
Context {C P : Type}.
Variable argsort : list ext -> list nat.
Hypothesis Hargsort : argsort_ok argsort.
Variable k : nat.
Variable key : C -> ext.
Variable pay : nat -> nat -> C -> P.
Variable fillp : P.
Variable B : nat.
Hypothesis HB : 1 <= B.
Variable cases : list C.

Notation result := (topk argsort k key pay fillp (chunks B cases)).

(* sound: every returned entry is a fill or case number i with its own key and its (i / B, i mod B) payload *)
Theorem topk_sound e : In e result ->
  e = (Inf, fillp) \/ exists i c, nth_error cases i = Some c /\ e = (key c, pay (i / B) (i mod B) c).
Proof.
  intro He. destruct (topk_structure argsort Hargsort k key pay fillp B HB cases) as [T1 [T2 [HU [Hres _]]]].
  rewrite Hres in He. apply in_map_iff in He. destruct He as [s [<- Hs]].
  assert (HsU : In s (universe k cases)) by (apply (Permutation_in _ HU), in_or_app; left; exact Hs).
  apply universe_in in HsU. destruct HsU as [->|[i [c [-> Hnth]]]].
  - left. reflexivity.
  - right. exists i, c. split; [exact Hnth | reflexivity].
Qed.

(* complete: a case is returned, or it is at least as far as every returned entry *)
Theorem topk_complete i c : nth_error cases i = Some c ->
  In (key c, pay (i / B) (i mod B) c) result \/ (forall e, In e result -> ext_le (fst e) (key c)).
Proof.
  intro Hc. destruct (topk_structure argsort Hargsort k key pay fillp B HB cases) as [T1 [T2 [HU [Hres [_ Hmin]]]]].
  assert (Hin : In (Some (i, c)) (T1 ++ T2)).
  { apply (Permutation_in _ (Permutation_sym HU)). unfold universe. apply in_or_app; right.
    apply in_map. apply (nth_error_combine_seq cases 0 i). exact Hc. }
  apply in_app_or in Hin. destruct Hin as [Hin|Hin].
  - left. rewrite Hres. apply (in_map (slot_entry key pay fillp B)) in Hin. exact Hin.
  - right. intros e He. rewrite Hres in He. apply in_map_iff in He. destruct He as [a [<- Ha]].
    exact (Hmin a _ Ha Hin).
Qed.

Theorem topk_keys_closed : map fst result = firstn k (isort (map key cases) ++ repeat Inf k).
Proof.
  apply (topk_keys argsort Hargsort k key pay fillp B cases HB). split.
  - apply Sorted_app_Inf, isort_sorted.
  - apply Permutation_app_tail, isort_perm.
Qed.

Theorem topk_sorted : Sorted ext_le (map fst result).
Proof. rewrite topk_keys_closed. apply Sorted_firstn, Sorted_app_Inf, isort_sorted. Qed.

(* fill: as many finite keys as possible are returned; the remaining slots are +inf *)
Theorem topk_fin_count : count_fin (map fst result) = Nat.min k (count_fin (map key cases)).
Proof.
  rewrite topk_keys_closed. rewrite count_fin_firstn_sorted.
  - rewrite count_fin_app, count_fin_repeat_Inf, Nat.add_0_r.
    rewrite (count_fin_perm _ _ (isort_perm (map key cases))). reflexivity.
  - apply Sorted_StronglySorted; [exact ext_le_trans | apply Sorted_app_Inf, isort_sorted].
Qed.
End TopKSpec.

(* ------------------------------------------------------------------ zip of two datasets batched alike *)
Lemma skipn_combine {A B} n (a : list A) (b : list B) : skipn n (combine a b) = combine (skipn n a) (skipn n b).
Proof.
  revert a b; induction n as [|n IH]; intros a b; [reflexivity|].
  destruct a as [|x a]; [reflexivity|]. destruct b as [|y b]; [cbn; destruct (skipn n a); reflexivity|].
  cbn. apply IH.
Qed.

Lemma chunks_combine {A B} Bs (a : list A) : 1 <= Bs -> forall b : list B, length a = length b ->
  map2 (@combine _ _) (chunks Bs a) (chunks Bs b) = chunks Bs (combine a b).
Proof.
  intro HB. pattern a. apply (chunks_ind _ Bs HB); clear a.
  - intros b _. reflexivity.
  - intros a Ha IH b Hlen.
    assert (Hb : b <> []) by (destruct a, b; cbn in *; congruence).
    assert (Hab : combine a b <> []) by (destruct a, b; cbn in *; congruence).
    rewrite (chunks_cons_step Bs a), (chunks_cons_step Bs b), (chunks_cons_step Bs (combine a b)) by assumption.
    cbn [map2]. rewrite IH by (rewrite !skipn_length; lia).
    rewrite combine_firstn, skipn_combine. reflexivity.
Qed.

Lemma nth_error_combine {A B} (a : list A) (b : list B) i x y :
  nth_error (combine a b) i = Some (x, y) <-> nth_error a i = Some x /\ nth_error b i = Some y.
Proof.
  revert b i; induction a as [|x' a IH]; intros [|y' b] [|i]; cbn; split; intro H;
    try discriminate; try (destruct H; discriminate).
  - injection H as -> ->. split; reflexivity.
  - destruct H as [H1 H2]. injection H1 as ->. injection H2 as ->. reflexivity.
  - apply IH; exact H.
  - apply IH; exact H.
Qed.

(* ------------------------------------------------------------------ FilterKNN inside the example methods *)
Section Methods.
Variable argsort : list ext -> list nat.
Hypothesis Hargsort : argsort_ok argsort.
Variable dist : list Qc -> list Qc -> Qc.
Variable proj : list Qc -> list Qc -> list Qc.
Context {L : Type}.
Variables (k : nat) (bs : option nat) (cases targets : list (list Qc)) (labels : list L) (q tq : list Qc).
Hypothesis Hbs : bs_ok' bs.
Hypothesis Hcases : 1 <= length cases.
Hypothesis Htargets : length targets = length cases.

Let B := eff_batch bs (length cases).
Let pcs := proj_pairs proj cases targets.
Let pq := proj q tq.

Lemma HB17 : 1 <= B.
Proof. apply eff_batch_pos; assumption. Qed.

Lemma zip_batches_flat :
  zip_batches B (project_dataset proj B cases targets) targets = chunks B pcs.
Proof.
  unfold zip_batches, B. rewrite (project_dataset_flat proj bs cases targets Hbs Hcases Htargets).
  fold B. apply chunks_combine; [apply HB17|]. rewrite map2_length. lia.
Qed.

Lemma project_batches_flat :
  project_dataset proj B cases targets = chunks B (map2 proj cases targets).
Proof. apply (project_dataset_flat proj bs cases targets Hbs Hcases Htargets). Qed.

(* case number i of the zipped projected dataset is (proj c_i t_i, t_i) *)
Lemma pcs_nth i ct : nth_error pcs i = Some ct ->
  exists c t, nth_error cases i = Some c /\ nth_error targets i = Some t /\ ct = (proj c t, t).
Proof.
  destruct ct as [pc t]. unfold pcs, proj_pairs. intro H. apply nth_error_combine in H. destruct H as [H1 H2].
  apply nth_error_map2 in H1. destruct H1 as [c [t' [Hc [Ht ->]]]].
  rewrite Ht in H2. injection H2 as ->. exists c, t. repeat split; assumption.
Qed.

Lemma pcs_nth_inv i c t : nth_error cases i = Some c -> nth_error targets i = Some t ->
  nth_error pcs i = Some (proj c t, t).
Proof.
  intros Hc Ht. unfold pcs, proj_pairs. apply nth_error_combine. split; [|exact Ht].
  apply nth_error_map2_some; assumption.
Qed.

Lemma gather_idx_pay {A} (l : list A) i (ct : pcase) :
  dataset_gather (chunks B l) (idx_pay (i / B) (i mod B) ct) = nth_error l i.
Proof. unfold idx_pay. apply dataset_gather_correct. apply HB17. Qed.

(* ---------------------------------------------------------------- NaiveCounterFactuals / LabelAwareCounterFactuals *)
Section CF.
Variable filter : list Qc -> list Qc -> bool.
Variable ft : list Qc.                          (* the targets handed to the filter *)

Notation cf := (cf_one argsort dist proj filter k bs cases targets labels q tq ft).

Lemma cf_found :
  cf = map (fun e => {| ex_dist := fst e; ex_idx := snd e;
                        ex_case := dataset_gather (chunks B cases) (snd e);
                        ex_label := dataset_gather (chunks B labels) (snd e) |})
           (topk argsort k (filter_key dist filter pq ft) idx_pay fill_idx (chunks B pcs)).
Proof. unfold cf_one. fold B. rewrite zip_batches_flat. reflexivity. Qed.

(* filter_sound: a returned example is a fill, or the original case i with its label at index (i/B, i mod B);
   if its distance is finite the case is admissible and the distance is the true one *)
Theorem cf_sound e : In e cf ->
  (ex_dist e = Inf /\ ex_idx e = fill_idx /\ ex_case e = None /\ ex_label e = None)
  \/ exists i c t,
       nth_error cases i = Some c /\ nth_error targets i = Some t
       /\ ex_idx e = (Z.of_nat (i / B), Z.of_nat (i mod B)) /\ ex_case e = Some c /\ ex_label e = nth_error labels i
       /\ ((filter ft t = true /\ ex_dist e = Fin (dist pq (proj c t)))
           \/ (filter ft t = false /\ ex_dist e = Inf)).
Proof.
  rewrite cf_found. intro H. apply in_map_iff in H. destruct H as [en [<- Hen]].
  apply (topk_sound argsort Hargsort k _ idx_pay fill_idx B HB17 pcs) in Hen.
  destruct Hen as [->|[i [ct [Hnth ->]]]].
  - left. cbn. rewrite !dataset_gather_fill. repeat split; reflexivity.
  - right. apply pcs_nth in Hnth. destruct Hnth as [c [t [Hc [Ht ->]]]]. exists i, c, t.
    cbn [ex_dist ex_idx ex_case ex_label fst snd]. rewrite !gather_idx_pay, Hc.
    repeat split; try assumption; try reflexivity.
    unfold filter_key, masked. cbn [fst snd]. destruct (filter ft t); [left | right]; split; reflexivity.
Qed.

(* filter_complete: an admissible case is returned, or it is at least as far as every returned example *)
Theorem cf_complete i c t :
  nth_error cases i = Some c -> nth_error targets i = Some t -> filter ft t = true ->
  (exists e, In e cf /\ ex_idx e = (Z.of_nat (i / B), Z.of_nat (i mod B)))
  \/ (forall e, In e cf -> ext_le (ex_dist e) (Fin (dist pq (proj c t)))).
Proof.
  intros Hc Ht Hf. rewrite cf_found.
  destruct (topk_complete argsort Hargsort k (filter_key dist filter pq ft) idx_pay fill_idx B HB17 pcs i _
                          (pcs_nth_inv i c t Hc Ht)) as [H|H].
  - left. eexists. split; [apply in_map; exact H | reflexivity].
  - right. intros e He. apply in_map_iff in He. destruct He as [en [<- Hen]]. cbn [ex_dist].
    specialize (H en Hen). unfold filter_key, masked in H. cbn [fst snd] in H. rewrite Hf in H. exact H.
Qed.

(* sorted by increasing distance; number of finite distances = min(k, number of admissible cases) *)
Theorem cf_sorted_filled :
  Sorted ext_le (map (@ex_dist L) cf) /\ length cf = k
  /\ count_fin (map (@ex_dist L) cf) = Nat.min k (count_fin (map (filter_key dist filter pq ft) pcs)).
Proof.
  rewrite cf_found, map_length, map_map. cbn [ex_dist]. split; [|split].
  - apply (topk_sorted argsort Hargsort k _ idx_pay fill_idx B HB17 pcs).
  - apply topk_length. exact Hargsort.
  - apply (topk_fin_count argsort Hargsort k _ idx_pay fill_idx B HB17 pcs).
Qed.
End CF.

(* ---------------------------------------------------------------- KLEOR *)
(* the nearest unlike neighbour *)
Notation nun_e := (nun_search argsort dist (zip_batches B (project_dataset proj B cases targets) targets) pq tq).

Lemma nun_search_in : In nun_e (filter_knn argsort dist ne_class 1 (chunks B pcs) pq tq).
Proof.
  unfold nun_search. rewrite zip_batches_flat.
  pose proof (topk_length argsort Hargsort 1 (filter_key dist ne_class pq tq) idx_pay fill_idx (chunks B pcs)) as Hl.
  unfold filter_knn. destruct (topk _ _ _ _ _ _) as [|e r]; [discriminate Hl|]. left. reflexivity.
Qed.

Lemma nun_search_single : filter_knn argsort dist ne_class 1 (chunks B pcs) pq tq = [nun_e].
Proof.
  unfold nun_search. rewrite zip_batches_flat.
  pose proof (topk_length argsort Hargsort 1 (filter_key dist ne_class pq tq) idx_pay fill_idx (chunks B pcs)) as Hl.
  unfold filter_knn. destruct (topk _ _ _ _ _ _) as [|e [|e' r]]; try discriminate Hl. reflexivity.
Qed.

(* nun_is_nearest_unlike *)
Theorem nun_spec :
  (* a finite NUN distance: a genuine case of another class, with its true distance, nearer than every other unlike case *)
  (forall x, fst nun_e = Fin x ->
     exists i c t, nth_error cases i = Some c /\ nth_error targets i = Some t
       /\ snd nun_e = (Z.of_nat (i / B), Z.of_nat (i mod B))
       /\ argmax tq <> argmax t /\ x = dist pq (proj c t)
       /\ forall j c' t', nth_error cases j = Some c' -> nth_error targets j = Some t' -> argmax tq <> argmax t' ->
            (x <= dist pq (proj c' t'))%Qc)
  (* an infinite NUN distance: there is no case of another class *)
  /\ (fst nun_e = Inf <-> forall j t', nth_error targets j = Some t' -> argmax tq = argmax t').
Proof.
  split.
  - intros x Hx. pose proof nun_search_in as Hin. unfold filter_knn in Hin.
    apply (topk_sound argsort Hargsort 1 _ idx_pay fill_idx B HB17 pcs) in Hin.
    destruct Hin as [He|[i [ct [Hnth He]]]]; [rewrite He in Hx; discriminate|].
    apply pcs_nth in Hnth. destruct Hnth as [c [t [Hc [Ht ->]]]].
    rewrite He in Hx |- *. cbn [fst snd] in *. unfold filter_key, masked in Hx. cbn [fst snd] in Hx.
    destruct (ne_class tq t) eqn:Hne; [|discriminate]. injection Hx as <-.
    exists i, c, t. repeat split; try assumption; try reflexivity.
    + unfold ne_class in Hne. apply negb_true_iff, Nat.eqb_neq in Hne. exact Hne.
    + intros j c' t' Hc' Ht' Hne'.
      destruct (topk_complete argsort Hargsort 1 (filter_key dist ne_class pq tq) idx_pay fill_idx B HB17 pcs j _
                              (pcs_nth_inv j c' t' Hc' Ht')) as [H|H].
      * fold (filter_knn argsort dist ne_class 1 (chunks B pcs) pq tq) in H. rewrite nun_search_single in H.
        destruct H as [H|[]]. rewrite He in H. injection H as H _.
        unfold filter_key, masked in H. cbn [fst snd] in H. rewrite Hne in H.
        assert (Hne2 : ne_class tq t' = true) by (unfold ne_class; apply negb_true_iff, Nat.eqb_neq; exact Hne').
        rewrite Hne2 in H. injection H as <-. apply Qcle_refl.
      * fold (filter_knn argsort dist ne_class 1 (chunks B pcs) pq tq) in H. rewrite nun_search_single in H.
        specialize (H _ (or_introl eq_refl)). rewrite He in H. cbn [fst] in H.
        unfold filter_key, masked in H. cbn [fst snd] in H. rewrite Hne in H.
        assert (Hne2 : ne_class tq t' = true) by (unfold ne_class; apply negb_true_iff, Nat.eqb_neq; exact Hne').
        rewrite Hne2 in H. apply Qcleb_le. exact H.
  - pose proof (topk_fin_count argsort Hargsort 1 (filter_key dist ne_class pq tq) idx_pay fill_idx B HB17 pcs) as Hc.
    fold (filter_knn argsort dist ne_class 1 (chunks B pcs) pq tq) in Hc. rewrite nun_search_single in Hc.
    cbn [map] in Hc. split.
    + intros Hinf j t' Ht'. rewrite Hinf in Hc. change (count_fin [Inf]) with 0 in Hc.
      destruct (Nat.eq_dec (argmax tq) (argmax t')) as [E|E]; [exact E|]. exfalso.
      assert (Hj : j < length cases) by (rewrite <- Htargets; apply nth_error_Some; congruence).
      destruct (nth_error cases j) as [c'|] eqn:Hc'; [|apply nth_error_None in Hc'; lia].
      pose proof (pcs_nth_inv j c' t' Hc' Ht') as Hp. apply nth_error_split in Hp.
      destruct Hp as [l1 [l2 [Hp _]]]. rewrite Hp, map_app, count_fin_app in Hc. cbn [map] in Hc.
      unfold filter_key at 2 in Hc. cbn [fst snd] in Hc.
      assert (Hne2 : ne_class tq t' = true) by (unfold ne_class; apply negb_true_iff, Nat.eqb_neq; exact E).
      rewrite Hne2 in Hc. cbn [masked] in Hc.
      change (count_fin (Fin ?x :: ?l)) with (S (count_fin l)) in Hc. lia.
    + intro Hall. destruct (fst nun_e) as [x|] eqn:E; [|reflexivity]. exfalso.
      change (count_fin [Fin x]) with 1 in Hc.
      assert (H0 : count_fin (map (filter_key dist ne_class pq tq) pcs) = 0).
      { apply count_fin_all_inf. rewrite Forall_forall. intros y Hy. apply in_map_iff in Hy.
        destruct Hy as [ct [<- Hct]]. apply In_nth_error in Hct. destruct Hct as [j Hj].
        apply pcs_nth in Hj. destruct Hj as [c [t [_ [Ht ->]]]].
        unfold filter_key, ne_class. cbn [fst snd]. rewrite (Hall j t Ht), Nat.eqb_refl. reflexivity. }
      rewrite H0 in Hc. cbn in Hc. discriminate.
Qed.

(* the semi-factual search, for ANY (distance, index) pair used as NUN *)
Section Kleor.
Variable global : bool.
Variable ne : ext * idx.                        (* the NUN entry used for ranking *)

Let nun := dataset_gather (project_dataset proj B cases targets) (snd ne).
Notation kkey := (kleor_key dist global nun (fst ne) pq tq).
Notation kin := (kleor_input_dist dist global (fst ne) pq tq).
Notation res := (kleor_one argsort dist proj global k bs cases targets labels q tq (Some ne)).

Lemma kleor_found :
  kr_examples res
  = map (fun e => {| sf_dist := fst (snd e); sf_idx := snd (snd e);
                     sf_case := dataset_gather (chunks B cases) (snd (snd e));
                     sf_label := dataset_gather (chunks B labels) (snd (snd e));
                     sf_dist_to_nun := fst e |})
        (topk argsort k kkey (fun b p ct => (kin ct, idx_pay b p ct)) (Inf, fill_idx) (chunks B pcs)).
Proof. unfold kleor_one, kleor_search. fold B. cbn [kr_examples]. rewrite zip_batches_flat. reflexivity. Qed.

(* what a finite key means *)
Lemma kleor_key_fin ct x : kkey ct = Fin x ->
  eq_class tq (snd ct) = true
  /\ (exists u, nun = Some u /\ x = dist u (fst ct))
  /\ kin ct = Fin (dist pq (fst ct))
  /\ (global = true -> ext_ltb (Fin (dist pq (fst ct))) (fst ne) = true).
Proof.
  unfold kleor_key, kleor_input_dist, kleor_keep. intro H.
  destruct (eq_class tq (snd ct)) eqn:Heq; cbn [masked] in *.
  - destruct global.
    + destruct (ext_ltb (Fin (dist pq (fst ct))) (fst ne)) eqn:Hlt; [|discriminate].
      destruct nun as [u|]; cbn in H; [|discriminate]. injection H as <-.
      repeat split; auto. exists u; split; reflexivity.
    + destruct nun as [u|]; cbn in H; [|discriminate]. injection H as <-.
      repeat split; auto; try discriminate. exists u; split; reflexivity.
  - destruct global; [destruct (ext_ltb Inf (fst ne))|]; destruct nun; cbn in H; discriminate.
Qed.

(* kleor_simmiss_spec / kleor_globalsim_spec, soundness: every returned semi-factual is a fill or the original case i;
   a finite distance to the NUN means: same class as the query, true distances to the NUN and to the query, and for
   Global-Sim strictly closer to the query than the NUN *)
Theorem kleor_sound e : In e (kr_examples res) ->
  (sf_dist_to_nun e = Inf /\ sf_dist e = Inf /\ sf_idx e = fill_idx /\ sf_case e = None /\ sf_label e = None)
  \/ exists i c t,
       nth_error cases i = Some c /\ nth_error targets i = Some t
       /\ sf_idx e = (Z.of_nat (i / B), Z.of_nat (i mod B)) /\ sf_case e = Some c /\ sf_label e = nth_error labels i
       /\ sf_dist_to_nun e = kkey (proj c t, t) /\ sf_dist e = kin (proj c t, t)
       /\ forall x, sf_dist_to_nun e = Fin x ->
            argmax tq = argmax t
            /\ (exists u, nun = Some u /\ x = dist u (proj c t))
            /\ sf_dist e = Fin (dist pq (proj c t))
            /\ (global = true -> ext_ltb (Fin (dist pq (proj c t))) (fst ne) = true).
Proof.
  rewrite kleor_found. intro H. apply in_map_iff in H. destruct H as [en [<- Hen]].
  apply (topk_sound argsort Hargsort k _ _ (Inf, fill_idx) B HB17 pcs) in Hen.
  destruct Hen as [->|[i [ct [Hnth ->]]]].
  - left. cbn. rewrite !dataset_gather_fill. repeat split; reflexivity.
  - right. apply pcs_nth in Hnth. destruct Hnth as [c [t [Hc [Ht ->]]]]. exists i, c, t.
    cbn [sf_dist sf_idx sf_case sf_label sf_dist_to_nun fst snd]. rewrite !gather_idx_pay, Hc.
    repeat split; try assumption; try reflexivity;
      apply kleor_key_fin in H; cbn [fst snd] in H; destruct H as [H1 [H2 [H3 H4]]]; try assumption.
    unfold eq_class in H1. apply Nat.eqb_eq in H1. exact H1.
Qed.

(* completeness: a case is returned, or it is at least as far from the NUN as every returned semi-factual *)
Theorem kleor_complete i c t :
  nth_error cases i = Some c -> nth_error targets i = Some t ->
  (exists e, In e (kr_examples res) /\ sf_idx e = (Z.of_nat (i / B), Z.of_nat (i mod B)))
  \/ (forall e, In e (kr_examples res) -> ext_le (sf_dist_to_nun e) (kkey (proj c t, t))).
Proof.
  intros Hc Ht. rewrite kleor_found.
  destruct (topk_complete argsort Hargsort k kkey (fun b p ct => (kin ct, idx_pay b p ct)) (Inf, fill_idx) B HB17 pcs i _
                          (pcs_nth_inv i c t Hc Ht)) as [H|H].
  - left. eexists. split; [apply in_map; exact H | reflexivity].
  - right. intros e He. apply in_map_iff in He. destruct He as [en [<- Hen]]. exact (H en Hen).
Qed.

Theorem kleor_sorted_filled :
  Sorted ext_le (map (@sf_dist_to_nun L) (kr_examples res)) /\ length (kr_examples res) = k
  /\ count_fin (map (@sf_dist_to_nun L) (kr_examples res)) = Nat.min k (count_fin (map kkey pcs)).
Proof.
  rewrite kleor_found, map_length, map_map. cbn [sf_dist_to_nun]. split; [|split].
  - apply (topk_sorted argsort Hargsort k _ _ (Inf, fill_idx) B HB17 pcs).
  - apply topk_length. exact Hargsort.
  - apply (topk_fin_count argsort Hargsort k _ _ (Inf, fill_idx) B HB17 pcs).
Qed.

(* which cases are admissible (finite key), in the property's words *)
Theorem kleor_admissible c t :
  is_fin (kkey (proj c t, t)) = true
  <-> argmax tq = argmax t /\ nun <> None
      /\ (global = true -> ext_ltb (Fin (dist pq (proj c t))) (fst ne) = true).
Proof.
  unfold kleor_key, kleor_keep, eq_class. cbn [fst snd]. split.
  - intro H. destruct (Nat.eqb_spec (argmax tq) (argmax t)) as [E|E]; cbn [masked] in H.
    + destruct global.
      * destruct (ext_ltb (Fin (dist pq (proj c t))) (fst ne)) eqn:Hlt; [|discriminate].
        destruct nun; [|discriminate]. repeat split; auto. discriminate.
      * destruct nun; [|discriminate]. repeat split; auto; discriminate.
    + destruct global; [destruct (ext_ltb Inf (fst ne))|]; destruct nun; discriminate.
  - intros [E [Hn Hg]]. rewrite E, Nat.eqb_refl. cbn [masked].
    destruct nun as [u|]; [|congruence]. destruct global; [rewrite Hg by reflexivity|]; reflexivity.
Qed.
End Kleor.

(* the NUN returned with the semi-factuals is the unprojected case / label at the NUN index; when the model
   searches the NUN itself it is the nearest unlike neighbour of nun_spec *)
Theorem kleor_nun_fields :
  let r := kleor_one argsort dist proj true k bs cases targets labels q tq None in
  let r' := kleor_one argsort dist proj false k bs cases targets labels q tq None in
  kr_nun_idx r = snd nun_e /\ kr_nun_dist r = fst nun_e /\ kr_nun_idx r' = snd nun_e /\ kr_nun_dist r' = fst nun_e
  /\ kr_nun r = dataset_gather (chunks B cases) (snd nun_e) /\ kr_nun_label r = dataset_gather (chunks B labels) (snd nun_e)
  /\ kr_examples r = kr_examples (kleor_one argsort dist proj true k bs cases targets labels q tq (Some nun_e))
  /\ kr_examples r' = kr_examples (kleor_one argsort dist proj false k bs cases targets labels q tq (Some nun_e)).
Proof. cbv zeta. unfold kleor_one. cbn [kr_nun_idx kr_nun_dist kr_nun kr_nun_label kr_examples]. fold B. repeat split; reflexivity. Qed.
End Methods.

(* strictness of Global-Sim: a case of the query's class exactly as far from the query as the NUN is NOT admissible *)
Theorem globalsim_strict dist nun d pq tq ct :
  Fin (dist pq (fst ct)) = d -> kleor_key dist true nun d pq tq ct = Inf.
Proof.
  intros <-. unfold kleor_key, kleor_keep. destruct (eq_class tq (snd ct)); cbn [masked].
  - rewrite ext_ltb_irrefl. reflexivity.
  - destruct (ext_ltb Inf (Fin (dist pq (fst ct)))); destruct nun; reflexivity.
Qed.

(* ------------------------------------------------------------------ the two counterfactual methods, in the property's words *)
Lemma ne_class_true tq t : ne_class tq t = true <-> argmax tq <> argmax t.
Proof. unfold ne_class. rewrite negb_true_iff, Nat.eqb_neq. reflexivity. Qed.
Lemma ne_class_false tq t : ne_class tq t = false <-> argmax tq = argmax t.
Proof. unfold ne_class. rewrite negb_false_iff, Nat.eqb_eq. reflexivity. Qed.
Lemma eq_class_true tq t : eq_class tq t = true <-> argmax tq = argmax t.
Proof. unfold eq_class. apply Nat.eqb_eq. Qed.
Lemma eq_class_false tq t : eq_class tq t = false <-> argmax tq <> argmax t.
Proof. unfold eq_class. apply Nat.eqb_neq. Qed.

Section CFSpecs.
Variable argsort : list ext -> list nat.
Hypothesis Hargsort : argsort_ok argsort.
Variable dist : list Qc -> list Qc -> Qc.
Variable proj : list Qc -> list Qc -> list Qc.
Context {L : Type}.
Variables (k : nat) (bs : option nat) (cases targets : list (list Qc)) (labels : list L) (q tq : list Qc).
Hypothesis Hbs : bs_ok' bs.
Hypothesis Hcases : 1 <= length cases.
Hypothesis Htargets : length targets = length cases.

Theorem naive_cf_spec :
  cf_statement dist proj k bs cases targets labels q tq
               (cf_one argsort dist proj ne_class k bs cases targets labels q tq tq)
               (fun t => argmax tq <> argmax t).
Proof.
  unfold cf_statement. split; [|split].
  - intros e He. destruct (cf_sound argsort Hargsort dist proj k bs cases targets labels q tq Hbs Hcases Htargets _ _ e He)
      as [H|[i [c [t [H1 [H2 [H3 [H4 [H5 H6]]]]]]]]]; [left; exact H|].
    right. exists i, c, t. repeat split; try assumption.
    destruct H6 as [[Hf Hd]|[Hf Hd]]; [left | right]; split; try assumption.
    + apply ne_class_true; exact Hf.
    + apply ne_class_false in Hf. intro K; apply K; exact Hf.
  - intros i c t Hc Ht Ha.
    apply (cf_complete argsort Hargsort dist proj k bs cases targets labels q tq Hbs Hcases Htargets ne_class tq i c t Hc Ht).
    apply ne_class_true; exact Ha.
  - destruct (cf_sorted_filled argsort Hargsort dist proj k bs cases targets labels q tq Hbs Hcases Htargets ne_class tq)
      as [H1 [H2 _]]. split; assumption.
Qed.

Theorem label_aware_spec (cfc : list Qc) :
  cf_statement dist proj k bs cases targets labels q tq
               (cf_one argsort dist proj eq_class k bs cases targets labels q tq cfc)
               (fun t => argmax cfc = argmax t).
Proof.
  unfold cf_statement. split; [|split].
  - intros e He. destruct (cf_sound argsort Hargsort dist proj k bs cases targets labels q tq Hbs Hcases Htargets _ _ e He)
      as [H|[i [c [t [H1 [H2 [H3 [H4 [H5 H6]]]]]]]]]; [left; exact H|].
    right. exists i, c, t. repeat split; try assumption.
    destruct H6 as [[Hf Hd]|[Hf Hd]]; [left | right]; split; try assumption.
    + apply eq_class_true; exact Hf.
    + apply eq_class_false; exact Hf.
  - intros i c t Hc Ht Ha.
    apply (cf_complete argsort Hargsort dist proj k bs cases targets labels q tq Hbs Hcases Htargets eq_class cfc i c t Hc Ht).
    apply eq_class_true; exact Ha.
  - destruct (cf_sorted_filled argsort Hargsort dist proj k bs cases targets labels q tq Hbs Hcases Htargets eq_class cfc)
      as [H1 [H2 _]]. split; assumption.
Qed.
End CFSpecs.
