(* C16/Model.v — executable transcription of the similar-example search (no proofs here).

   xplique/example_based/search_methods/knn.py : KNN.kneighbors   (one row = one query; rows are independent)
       best_indices   = fill((n, k, 2), -1)                 # the fill index is (-1, -1)
       best_distances = fill((n, k), +inf)
       batch_indices  = tile(range(batch_size))
       for batch_index, cases in enumerate(cases_dataset):
           indices      = batch_indices[:, :len(cases)]      # positions 0 .. len(cases)-1 : reset per batch
           new_indices  = stack([fill(batch_index), indices])
           distances    = crossed_distances(inputs, cases)
           conc_ind     = concat([best_indices, new_indices]);  conc_dist = concat([best_distances, distances])
           sort_order   = argsort(conc_dist)[:, :k]
           best_indices = gather(conc_ind, sort_order);  best_distances = gather(conc_dist, sort_order)
   base_example_method.py : BaseExampleMethod.__init__/explain/format_search_output
       cases, labels, targets, batch_size = harmonize_datasets(...)       # None -> N ; min(bs, N)
       projected_cases = projection.project_dataset(cases, targets)       # batch by batch, then re-batched
       projected_inputs = projection(inputs, targets)
       search_output = KNN(projected_cases, k, batch_size, distance).find_examples(projected_inputs)
       examples = dataset_gather(cases, indices);  labels = dataset_gather(labels, indices)   # UNprojected
   datasets_operations/tf_dataset_operations.py : dataset_gather
       results = fill(+inf);  for i, batch in enumerate(dataset): where indices[...,0] == i: gather(batch, indices[...,1])
   projections/base.py : Projection.project :  weights(space(x), t) * space(x)

   A (distance, index) pair is kept together here (the code gathers the two tensors with the same
   sort_order).  [argsort] is a parameter: any function returning a sorting permutation; the executable
   instance is the stable one (what tf.argsort does). *)
From Xpl Require Export Base.ListX C16.Ext.
Close Scope Qc_scope. Open Scope nat_scope.

Definition idx := (Z * Z)%type.                      (* (batch index, position in the batch) *)
Definition fill_idx : idx := ((-1)%Z, (-1)%Z).
Definition idx_eqb (a b : idx) : bool := Z.eqb (fst a) (fst b) && Z.eqb (snd a) (snd b).

(* tf.gather(l, order) *)
Definition gather {A} (d : A) (l : list A) (order : list nat) : list A := map (fun i => nth i l d) order.

(* stable argsort: sort (value, position) pairs by value with the stable insertion sort of Ext.v *)
Definition argsort_stable (l : list ext) : list nat :=
  map snd (isort_by (fun p : ext * nat => fst p) (combine l (seq 0 (length l)))).

(* ---------------------------------------------------------------- the running top-k of kneighbors *)
Section TopK.
Context {C P : Type}.
Variable argsort : list ext -> list nat.
Variable k : nat.
Variable key : C -> ext.                  (* distance of the (fixed) query to a case; +inf when masked *)
Variable pay : nat -> nat -> C -> P.      (* what travels with the distance: (batch, position) index ... *)
Variable fillp : P.

Definition fill : ext * P := (Inf, fillp).

Definition new_entries (b : nat) (batch : list C) : list (ext * P) :=
  map (fun pc => (key (snd pc), pay b (fst pc) (snd pc))) (combine (seq 0 (length batch)) batch).

Definition step (best new : list (ext * P)) : list (ext * P) :=
  let conc := best ++ new in
  gather fill conc (firstn k (argsort (map fst conc))).

Fixpoint run (b : nat) (batches : list (list C)) (best : list (ext * P)) : list (ext * P) :=
  match batches with
  | [] => best
  | c :: r => run (S b) r (step best (new_entries b c))
  end.

Definition topk (batches : list (list C)) : list (ext * P) := run 0 batches (repeat fill k).
End TopK.

Definition idx_pay {C} (b p : nat) (_ : C) : idx := (Z.of_nat b, Z.of_nat p).

(* harmonize_datasets: batch_size None -> N, else min(batch_size, N) (a dataset brings its own) *)
Definition eff_batch (bs : option nat) (n : nat) : nat :=
  match bs with None => n | Some b => Nat.min b n end.

(* dataset_gather for one index: None stands for the untouched +inf / -1 fill *)
Definition nth_error_z {A} (l : list A) (z : Z) : option A :=
  match z with Zneg _ => None | _ => nth_error l (Z.to_nat z) end.
Fixpoint gather_from {A} (b : nat) (batches : list (list A)) (i : idx) : option A :=
  match batches with
  | [] => None
  | batch :: r => if Z.eqb (fst i) (Z.of_nat b) then nth_error_z batch (snd i) else gather_from (S b) r i
  end.
Definition dataset_gather {A} (batches : list (list A)) (i : idx) : option A := gather_from 0 batches i.

(* ---------------------------------------------------------------- SimilarExamples.explain, one query *)
Section Similar.
Variable argsort : list ext -> list nat.
Variable dist : list Qc -> list Qc -> Qc.              (* distance in the projected space *)
Variable proj : list Qc -> list Qc -> list Qc.         (* projection of a sample given its target *)
Context {L : Type}.

Record example := { ex_dist : ext; ex_idx : idx; ex_case : option (list Qc); ex_label : option L }.

(* project_dataset: batches of cases and of targets are projected together, concatenated, re-batched *)
Definition project_dataset (B : nat) (cases targets : list (list Qc)) : list (list (list Qc)) :=
  chunks B (concat (map2 (map2 proj) (chunks B cases) (chunks B targets))).

Definition knn_search (k B : nat) (pbatches : list (list (list Qc))) (pq : list Qc) : list (ext * idx) :=
  topk argsort k (fun c => Fin (dist pq c)) idx_pay fill_idx pbatches.

Definition similar_one (k : nat) (bs : option nat) (cases targets : list (list Qc)) (labels : list L)
           (q tq : list Qc) : list example :=
  let B := eff_batch bs (length cases) in
  let found := knn_search k B (project_dataset B cases targets) (proj q tq) in
  map (fun e => {| ex_dist := fst e; ex_idx := snd e;
                   ex_case := dataset_gather (chunks B cases) (snd e);
                   ex_label := dataset_gather (chunks B labels) (snd e) |}) found.

Definition similar_examples k bs cases targets labels (qs tqs : list (list Qc)) : list (list example) :=
  map2 (similar_one k bs cases targets labels) qs tqs.
End Similar.

(* ---------------------------------------------------------------- executable distances and projections *)
Open Scope Qc_scope.
Definition manhattan (a b : list Qc) : Qc := qsum (map Qcabs (vsub a b)).
Definition chebyshev (a b : list Qc) : Qc := fold_right Qcmax 0 (map Qcabs (vsub a b)).
(* root-free forms: the order of sqrt(s) is the order of s *)
Definition sqeuclid (a b : list Qc) : Qc := qsum (map (fun d => d * d) (vsub a b)).
Definition powsum (p : nat) (a b : list Qc) : Qc := qsum (map (fun d => Qcpower (Qcabs d) p) (vsub a b)).
(* a user callable: weighted Manhattan *)
Definition wmanhattan (w a b : list Qc) : Qc := qsum (vmul w (map Qcabs (vsub a b))).

(* cosine: 1 - <a,b> / (|a| |b|); executed only on data whose norms are rational (exact root of perfect squares) *)
Definition qsqrt (x : Qc) : Qc := Q2Qc (Z.sqrt (Qnum (this x)) # Pos.sqrt (Qden (this x))).
Definition cosine (a b : list Qc) : Qc := 1 - dot a b / (qsqrt (dot a a) * qsqrt (dot b b)).

Inductive distk := DManhattan | DChebyshev | DEuclid | DPow (p : nat) | DCustom (w : list Qc) | DCosine.
Definition dist_of (d : distk) : list Qc -> list Qc -> Qc :=
  match d with
  | DManhattan => manhattan | DChebyshev => chebyshev | DEuclid => sqeuclid
  | DPow p => powsum p | DCustom w => wmanhattan w | DCosine => cosine
  end.

(* projection family: space projection y_i = z_i + c_i z_i^2 with z = M x (None: identity);
   weights: none, a constant tensor, or target dependent (t . W) *)
Inductive wkind := WNone | WConst (w : list Qc) | WTarget (W : list (list Qc)).
Definition space_fam (sp : option (list (list Qc) * list Qc)) (x : list Qc) : list Qc :=
  match sp with
  | None => x
  | Some (M, c) => map2 (fun row ci => let z := dot row x in z + ci * z * z) M c
  end.
Definition weights_fam (wk : wkind) (y t : list Qc) : list Qc :=
  match wk with
  | WNone => map (fun _ => 1) y
  | WConst w => w
  | WTarget W => fold_left vadd (map2 (fun tc row => vscale tc row) t W) (vzero (length y))
  end.
Definition proj_fam sp wk (x t : list Qc) : list Qc :=
  let y := space_fam sp x in vmul (weights_fam wk y t) y.
