(* C16/Ext.v — rationals extended with +inf (fill value / masked value of the k-NN searches), their order,
   and a concrete stable insertion sort by an ext-valued key (used to run the models; the theorems hold
   for every sorting permutation).  Stdlib style. *)
From Xpl Require Export Base.Qcx.
From Coq Require Export Sorted Permutation.
Open Scope Qc_scope.

Inductive ext := Fin (x : Qc) | Inf.

Definition ext_leb (a b : ext) : bool :=
  match a, b with
  | _, Inf => true
  | Inf, Fin _ => false
  | Fin x, Fin y => Qcleb x y
  end.
Definition ext_ltb (a b : ext) : bool := negb (ext_leb b a).
Definition ext_eqb (a b : ext) : bool :=
  match a, b with
  | Inf, Inf => true
  | Fin x, Fin y => Qceqb x y
  | _, _ => false
  end.
Definition ext_le (a b : ext) : Prop := ext_leb a b = true.
Definition ext_lt (a b : ext) : Prop := ext_ltb a b = true.
Definition is_fin (a : ext) : bool := match a with Fin _ => true | Inf => false end.

Lemma ext_eqb_eq a b : ext_eqb a b = true <-> a = b.
Proof.
  destruct a as [x|], b as [y|]; cbn; split; intro H; try discriminate; try reflexivity.
  - apply Qceqb_eq in H; congruence.
  - injection H as ->. apply Qceqb_eq; reflexivity.
Qed.

Lemma ext_leb_refl a : ext_leb a a = true.
Proof. destruct a as [x|]; cbn; [|reflexivity]. apply Qcleb_le, Qcle_refl. Qed.

Lemma ext_leb_total a b : ext_leb a b = true \/ ext_leb b a = true.
Proof.
  destruct a as [x|], b as [y|]; cbn; auto.
  destruct (Qclt_le_dec y x) as [H|H].
  - right. apply Qcleb_le, Qclt_le_weak, H.
  - left. apply Qcleb_le, H.
Qed.

Lemma ext_leb_trans b a c : ext_leb a b = true -> ext_leb b c = true -> ext_leb a c = true.
Proof.
  destruct a as [x|], b as [y|], c as [z|]; cbn; intros H1 H2; try discriminate; try reflexivity.
  apply Qcleb_le. apply Qcleb_le in H1, H2. eapply Qcle_trans; eauto.
Qed.

Lemma ext_leb_antisym a b : ext_leb a b = true -> ext_leb b a = true -> a = b.
Proof.
  destruct a as [x|], b as [y|]; cbn; intros H1 H2; try discriminate; try reflexivity.
  apply Qcleb_le in H1, H2. f_equal. apply Qcle_antisym; assumption.
Qed.

Lemma ext_ltb_leb a b : ext_ltb a b = true -> ext_leb a b = true.
Proof. unfold ext_ltb. intro H. destruct (ext_leb_total a b) as [K|K]; [exact K|]. rewrite K in H. discriminate. Qed.

Lemma ext_ltb_irrefl a : ext_ltb a a = false.
Proof. unfold ext_ltb. rewrite ext_leb_refl. reflexivity. Qed.

Lemma ext_leb_Inf a : ext_leb a Inf = true.
Proof. destruct a; reflexivity. Qed.

Lemma ext_Inf_leb a : ext_leb Inf a = true -> a = Inf.
Proof. destruct a; cbn; [discriminate | reflexivity]. Qed.

Lemma ext_leb_fin a b : ext_leb a b = true -> is_fin b = true -> is_fin a = true.
Proof. destruct a, b; cbn; auto. Qed.

(* ---------------------------------------------------------------- stable insertion sort by key *)
Section ISort.
Context {A : Type} (key : A -> ext).

Definition key_le (a b : A) : Prop := ext_le (key a) (key b).

Fixpoint insert_by (x : A) (l : list A) : list A :=
  match l with
  | [] => [x]
  | y :: r => if ext_leb (key x) (key y) then x :: l else y :: insert_by x r
  end.
(* foldr: an element is inserted before the already sorted later elements, in front of its equals: stable *)
Fixpoint isort_by (l : list A) : list A :=
  match l with [] => [] | x :: r => insert_by x (isort_by r) end.

Lemma insert_by_perm x l : Permutation (insert_by x l) (x :: l).
Proof.
  induction l as [|y r IH]; cbn; [apply Permutation_refl|].
  destruct (ext_leb (key x) (key y)); [apply Permutation_refl|].
  eapply Permutation_trans; [apply perm_skip, IH | apply perm_swap].
Qed.

Lemma isort_by_perm l : Permutation (isort_by l) l.
Proof.
  induction l as [|x r IH]; cbn; [constructor|].
  eapply Permutation_trans; [apply insert_by_perm | apply perm_skip, IH].
Qed.

Lemma insert_by_sorted x l : Sorted key_le l -> Sorted key_le (insert_by x l).
Proof.
  induction l as [|y r IH]; cbn; intro H; [repeat constructor|].
  destruct (ext_leb (key x) (key y)) eqn:E.
  - constructor; [exact H | constructor; exact E].
  - inversion H as [|? ? Hr Hy]; subst. constructor; [apply IH, Hr|].
    assert (Eyx : key_le y x).
    { unfold key_le, ext_le. destruct (ext_leb_total (key x) (key y)) as [K|K]; [congruence | exact K]. }
    destruct r as [|z r']; cbn; [constructor; exact Eyx|].
    destruct (ext_leb (key x) (key z)); constructor; [exact Eyx|].
    inversion Hy; assumption.
Qed.

Lemma isort_by_sorted l : Sorted key_le (isort_by l).
Proof. induction l as [|x r IH]; cbn; [constructor | apply insert_by_sorted, IH]. Qed.
End ISort.

(* sort of a list of keys *)
Definition isort (l : list ext) : list ext := isort_by (fun x => x) l.
Lemma isort_perm l : Permutation (isort l) l.
Proof. apply isort_by_perm. Qed.
Lemma isort_sorted l : Sorted ext_le (isort l).
Proof. apply (isort_by_sorted (fun x => x)). Qed.

(* the k smallest keys, in increasing order *)
Definition ksm (k : nat) (l : list ext) : list ext := firstn k (isort l).
