(* C16/Check.v — executable, tie-tolerant comparison of an implementation result with the model
   (used by harness/c16.py and harness/c17.py inside vm_compute; no theorem depends on it). *)
From Xpl Require Export Base.Families C16.Model.
Close Scope Qc_scope. Open Scope nat_scope.

(* how an implementation distance v relates to the model key s:
   exact, or v is the p-th root of s (euclidean / Minkowski: the model orders by the root-free form) *)
Inductive cmpk := CExact | CRoot (p : nat) (tol : Qc) | CAbs (tol : Qc).

Definition key_match (c : cmpk) (impl model : ext) : bool :=
  match impl, model with
  | Inf, Inf => true
  | Fin v, Fin s => match c with
                    | CExact => Qceqb v s
                    | CRoot p tol => qclose tol (1 + s)%Qc (Qcpower v p) s
                    | CAbs tol => qclose tol 1%Qc v s
                    end
  | _, _ => false
  end.
(* two model keys that the implementation may not be able to tell apart *)
Definition key_close (c : cmpk) (a b : ext) : bool :=
  match a, b with
  | Inf, Inf => true
  | Fin x, Fin y => match c with CExact => Qceqb x y | CRoot _ tol => qclose tol (1 + y)%Qc x y
                                 | CAbs tol => qclose tol 1%Qc x y end
  | _, _ => false
  end.

Definition opt_ok {A} (o : option A) (f : A -> bool) : bool := match o with None => true | Some a => f a end.
Definition oeqb {A} (eqb : A -> A -> bool) (a b : option A) : bool :=
  match a, b with None, None => true | Some x, Some y => eqb x y | _, _ => false end.

(* one returned slot as far as the implementation reported it (outer None = not requested;
   inner None = the untouched +inf / -1 fill of dataset_gather) *)
Record slot := { s_dist : option ext; s_idx : option idx;
                 s_case : option (option (list Qc)); s_label : option (option (list Qc)) }.

Definition flat_of (B : nat) (i : idx) : option nat :=
  match fst i, snd i with
  | Zneg _, _ | _, Zneg _ => None
  | b, p => if Z.to_nat p <? B then Some (Z.to_nat b * B + Z.to_nat p) else None
  end.

Fixpoint nodupb (l : list nat) : bool :=
  match l with [] => true | x :: r => negb (existsb (Nat.eqb x) r) && nodupb r end.

Section SlotCheck.
Variable c : cmpk.
Variable B : nat.
Variable keys : list ext.                   (* model key of every case (distance of the query to it, +inf if masked) *)
Variable cases : list (list Qc).
Variable labels : list (list Qc).

(* slot s, whose model key (j-th smallest) is mk, is explained by case number i *)
Definition slot_is_case (s : slot) (mk : ext) (i : nat) : bool :=
  key_close c (nth i keys Inf) mk
  && opt_ok (s_idx s) (fun ix => oeqb Nat.eqb (flat_of B ix) (Some i))
  && opt_ok (s_case s) (fun e => oeqb qlist_eqb e (nth_error cases i))
  && opt_ok (s_label s) (fun e => oeqb qlist_eqb e (nth_error labels i)).
Definition slot_is_fill (s : slot) : bool :=
  opt_ok (s_idx s) (fun ix => idx_eqb ix fill_idx)
  && opt_ok (s_case s) (fun e => match e with None => true | _ => false end)
  && opt_ok (s_label s) (fun e => match e with None => true | _ => false end).

Definition slot_ok (s : slot) (mk : ext) : bool :=
  opt_ok (s_dist s) (fun d => key_match c d mk)
  && (existsb (slot_is_case s mk) (seq 0 (length cases))
      || (negb (is_fin mk) && slot_is_fill s)).

Definition slots_ok (slots : list slot) (mkeys : list ext) : bool :=
  Nat.eqb (length slots) (length mkeys)
  && forallb (fun p => slot_ok (fst p) (snd p)) (combine slots mkeys)
  && nodupb (flat_map (fun s => match s_idx s with
                                | Some ix => match flat_of B ix with Some i => [i] | None => [] end
                                | None => [] end) slots).
End SlotCheck.

Definition cmp_of (d : distk) (tol : Qc) : cmpk :=
  match d with DEuclid => CRoot 2 tol | DPow p => CRoot p tol | DCosine => CAbs tol | _ => CExact end.

(* SimilarExamples: all queries *)
Definition check_similar (d : distk) (tol : Qc) sp wk (k : nat) (bs : option nat)
           (cases targets labels : list (list Qc)) (qs tqs : list (list Qc)) (res : list (list slot)) : bool :=
  let B := eff_batch bs (length cases) in
  let proj := proj_fam sp wk in
  let model := similar_examples argsort_stable (dist_of d) proj k bs cases targets labels qs tqs in
  Nat.eqb (length res) (length qs) && Nat.eqb (length model) (length qs)
  && forallb (fun x => let '(q, tq, found, slots) := x in
                let keys := map2 (fun cs t => Fin (dist_of d (proj q tq) (proj cs t))) cases targets in
                slots_ok (cmp_of d tol) B keys cases labels slots (map (@ex_dist (list Qc)) found))
             (combine (combine (combine qs tqs) model) res).

(* dump: the model's distances and indices *)
Definition edump (e : ext) : list (Z * positive) := match e with Fin x => [qdump x] | Inf => [] end.   (* [] = +inf *)
Definition idump (i : idx) : list Z := [fst i; snd i].
Definition dump_similar (d : distk) sp wk (k : nat) (bs : option nat)
           (cases targets : list (list Qc)) (qs tqs : list (list Qc)) :=
  map (map (fun e : @example (list Qc) => (edump (ex_dist e), idump (ex_idx e))))
      (similar_examples argsort_stable (dist_of d) (proj_fam sp wk) k bs cases targets (map (fun _ => @nil Qc) cases) qs tqs).
