(* C16/Bridge.v — ssreflect file.  Instantiates the generic top-k merge lemma of SortX.v with the order on
   [ext] and re-states the two facts the (stdlib-style) proofs need in stdlib vocabulary only:
     sorted_perm_unique : a sorted permutation of l is [isort l]   (sorted forms are unique)
     ksm_merge          : ksm k (ksm k a ++ b) = ksm k (a ++ b)    (running top-k loses nothing)   *)
From Xpl Require Import C16.Ext.
From mathcomp Require Import all_ssreflect.
From Xpl Require Import C16.SortX.
Set Implicit Arguments. Unset Strict Implicit. Unset Printing Implicit Defensive.
Close Scope Qc_scope.

Lemma ext_eqP : Equality.axiom ext_eqb.
Proof. by move=> a b; apply: (iffP idP) => /ext_eqb_eq. Qed.
Definition ext_eqMixin := EqMixin ext_eqP.
Canonical ext_eqType := EqType ext ext_eqMixin.

Lemma ext_total : total ext_leb.
Proof. by move=> a b; apply/orP; case: (ext_leb_total a b) => ->; [left | right]. Qed.
Lemma ext_trans : transitive ext_leb.
Proof. by move=> b a c; apply: ext_leb_trans. Qed.
Lemma ext_anti : antisymmetric ext_leb.
Proof. by move=> a b /andP[ab ba]; apply: ext_leb_antisym. Qed.

(* stdlib list functions are the ssreflect ones *)
Lemma firstn_take (T : Type) n (l : list T) : List.firstn n l = take n l.
Proof. by elim: n l => [|n IH] [|x l] //=; rewrite IH. Qed.
Lemma app_cat (T : Type) (a b : list T) : List.app a b = a ++ b.
Proof. by elim: a => [|x a IH] //=; rewrite IH. Qed.

(* stdlib Permutation / Sorted imply their boolean ssreflect counterparts *)
Lemma Permutation_perm_eq (T : eqType) (a b : list T) : Permutation.Permutation a b -> perm_eq a b.
Proof.
elim=> [|x s t _ IH|x y s|s t u _ st _ tu] //.
- by rewrite perm_cons.
- by rewrite -![_ :: _ :: s]/([:: _] ++ [:: _] ++ s) perm_catCA.
- exact: perm_trans st tu.
Qed.

Lemma Sorted_sorted (l : list ext) : Sorted.Sorted ext_le l -> sorted ext_leb l.
Proof.
elim=> [|x s _ IH hd] //=.
by case: hd IH => [|y s' xy] //= ->; rewrite andbT.
Qed.

Lemma isort_sort l : isort l = sort ext_leb l.
Proof.
apply: (@sorted_eq _ ext_leb ext_trans ext_anti).
- exact/Sorted_sorted/isort_sorted.
- exact: (sort_sorted ext_total).
- rewrite perm_sym perm_sort perm_sym. exact/Permutation_perm_eq/isort_perm.
Qed.

Theorem sorted_perm_unique (S l : list ext) :
  Sorted.Sorted ext_le S -> Permutation.Permutation S l -> S = isort l.
Proof.
move=> sS pS; rewrite isort_sort.
apply: (@sorted_eq _ ext_leb ext_trans ext_anti).
- exact: Sorted_sorted.
- exact: (sort_sorted ext_total).
- by rewrite perm_sym perm_sort perm_sym; apply: Permutation_perm_eq.
Qed.

Lemma ksm_ksmall k l : ksm k l = ksmall ext_leb k l.
Proof. by rewrite /ksm /ksmall firstn_take isort_sort. Qed.

Theorem ksm_merge k (a b : list ext) : ksm k (List.app (ksm k a) b) = ksm k (List.app a b).
Proof.
rewrite !app_cat !ksm_ksmall.
exact: (ksmall_merge ext_total ext_trans ext_anti).
Qed.
