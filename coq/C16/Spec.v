(* C16/Spec.v — the property's own words: no batching, no running state.

   For a query, every case number i < N has a key (its distance to the query in the projected space).
   A search result is a list of [slots]; a slot is either a fill (nothing found: +inf, index (-1,-1)) or a
   case number together with the case.  "Exactly the k nearest, sorted, with their true distances, the
   original cases and labels at the returned (batch, position) indices" is:
     - the returned distances are the first k elements of THE sorted arrangement of all N distances
       (followed by k fills)                                                        [nearest_keys]
     - the returned entries are the entries of a sub-multiset of the N cases (each case at most once)
       and fills, every unreturned case being at least as far as every returned one [Spec theorems in Proofs.v]
     - index of case i is (i / B, i mod B), B the effective batch size; example / label = cases[i] / labels[i]. *)
From Xpl Require Export C16.Model.
Close Scope Qc_scope. Open Scope nat_scope.

(* any function returning a sorting permutation — what tf.argsort is assumed to be *)
Definition argsort_ok (argsort : list ext -> list nat) : Prop :=
  forall l, Permutation (argsort l) (seq 0 (length l)) /\ Sorted ext_le (gather Inf l (argsort l)).

Definition sorted_perm_of (S l : list ext) : Prop := Sorted ext_le S /\ Permutation S l.

(* the k smallest of [keys], completed with +inf when there are fewer than k *)
Definition nearest_keys (k : nat) (keys res : list ext) : Prop :=
  forall S, sorted_perm_of S (keys ++ repeat Inf k) -> res = firstn k S.

Section Slots.
Context {C P : Type}.
Variable key : C -> ext.
Variable pay : nat -> nat -> C -> P.
Variable fillp : P.
Variable B : nat.

Definition slot := option (nat * C).                 (* None: a fill; Some (i, c): case number i *)
Definition slot_entry (s : slot) : ext * P :=
  match s with
  | None => (Inf, fillp)
  | Some (i, c) => (key c, pay (i / B) (i mod B) c)
  end.
Definition slot_key (s : slot) : ext := fst (slot_entry s).
(* everything the search may return: k fills and every case exactly once *)
Definition universe (k : nat) (cases : list C) : list slot :=
  repeat None k ++ map Some (combine (seq 0 (length cases)) cases).
(* the case numbers of a list of slots *)
Definition slot_cases (T : list slot) : list nat :=
  flat_map (fun s => match s with Some (i, _) => [i] | None => [] end) T.
End Slots.

(* brute-force distance of a query to every case, same projection on both sides *)
Definition true_keys (dist : list Qc -> list Qc -> Qc) (proj : list Qc -> list Qc -> list Qc)
           (cases targets : list (list Qc)) (q tq : list Qc) : list ext :=
  map2 (fun c t => Fin (dist (proj q tq) (proj c t))) cases targets.
