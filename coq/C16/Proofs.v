(* C16/Proofs.v — the running top-k of KNN.kneighbors returns the k nearest, for every batch size,
   every k and every tie-breaking argsort.  Stdlib style; the two order facts that need mathcomp's
   [sort] are imported (without notations) from C16/Bridge.v. *)
From Xpl Require Import Base.Tensor C16.Spec.
From Xpl Require C16.Bridge.
From Coq Require Import Arith.
Close Scope Qc_scope. Open Scope nat_scope.

Definition ksm_merge := Xpl.C16.Bridge.ksm_merge.
Definition sorted_perm_unique := Xpl.C16.Bridge.sorted_perm_unique.

(* ------------------------------------------------------------------ generic list facts *)
Lemma gather_app {A} (d : A) l a b : gather d l (a ++ b) = gather d l a ++ gather d l b.
Proof. apply map_app. Qed.

Lemma gather_all {A} (d : A) l : gather d l (seq 0 (length l)) = l.
Proof. symmetry. apply list_as_seq. Qed.

Lemma gather_perm {A} (d : A) l order :
  Permutation order (seq 0 (length l)) -> Permutation (gather d l order) l.
Proof.
  intro H. rewrite <- (gather_all d l) at 2. unfold gather. apply Permutation_map. exact H.
Qed.

Lemma gather_map {A B} (f : A -> B) d l order : map f (gather d l order) = gather (f d) (map f l) order.
Proof. unfold gather. rewrite map_map. apply map_ext. intro i. symmetry. apply map_nth. Qed.

Lemma firstn_repeat_all {A} (x : A) k : firstn k (repeat x k) = repeat x k.
Proof. rewrite <- (repeat_length x k) at 1. apply firstn_all. Qed.

Lemma Sorted_map_key {A} (key : A -> ext) l : Sorted (key_le key) l -> Sorted ext_le (map key l).
Proof.
  induction 1 as [|x l Hs IH Hd]; cbn; constructor; [exact IH|].
  destruct Hd; cbn; constructor; assumption.
Qed.

Lemma Sorted_repeat_Inf k : Sorted ext_le (repeat Inf k).
Proof. induction k as [|k IH]; cbn; constructor; [exact IH|]. destruct k; cbn; constructor; reflexivity. Qed.

Lemma ext_le_trans : Relations_1.Transitive ext_le.
Proof. intros a b c H1 H2. exact (ext_leb_trans b a c H1 H2). Qed.

Lemma StronglySorted_split {A} (R : A -> A -> Prop) S k x y :
  StronglySorted R S -> In x (firstn k S) -> In y (skipn k S) -> R x y.
Proof.
  intro H. revert k. induction H as [|a l Hs IH Ha]; intros k Hx Hy.
  - destruct k; destruct Hx.
  - destruct k as [|k]; [destruct Hx|]. cbn in Hx, Hy. destruct Hx as [<-|Hx].
    + rewrite Forall_forall in Ha. apply Ha. rewrite <- (firstn_skipn k l). apply in_or_app; right; exact Hy.
    + eapply IH; eassumption.
Qed.

(* a sorted list followed by +inf's is sorted *)
Lemma Sorted_app_Inf S k : Sorted ext_le S -> Sorted ext_le (S ++ repeat Inf k).
Proof.
  induction 1 as [|x l Hs IH Hd]; cbn; [apply Sorted_repeat_Inf|].
  constructor; [exact IH|]. destruct Hd as [|y l' Hxy]; cbn.
  - destruct k; cbn; constructor. apply ext_leb_Inf.
  - constructor; exact Hxy.
Qed.

(* ------------------------------------------------------------------ the stable argsort is an argsort *)
Lemma combine_seq_nth {A} (d : A) l s x i :
  In (x, i) (combine l (seq s (length l))) -> s <= i /\ nth (i - s) l d = x.
Proof.
  revert s. induction l as [|y l IH]; intros s H; [destruct H|].
  cbn [length seq combine] in H. destruct H as [H|H].
  - injection H as -> ->. split; [lia|]. rewrite Nat.sub_diag. reflexivity.
  - apply IH in H. destruct H as [H1 H2]. split; [lia|].
    replace (i - s) with (S (i - S s)) by lia. exact H2.
Qed.

Lemma map_snd_combine_seq {A} (l : list A) s : map snd (combine l (seq s (length l))) = seq s (length l).
Proof. revert s; induction l as [|y l IH]; intro s; cbn; [reflexivity|]. f_equal. apply IH. Qed.

Theorem argsort_stable_ok : argsort_ok argsort_stable.
Proof.
  intro l. unfold argsort_stable.
  set (ps := combine l (seq 0 (length l))).
  set (sp := isort_by (fun p : ext * nat => fst p) ps).
  assert (Hp : Permutation sp ps) by apply isort_by_perm.
  split.
  - rewrite <- (map_snd_combine_seq l 0). apply Permutation_map. exact Hp.
  - replace (gather Inf l (map snd sp)) with (map fst sp).
    + apply (Sorted_map_key (fun p : ext * nat => fst p)). apply isort_by_sorted.
    + unfold gather. rewrite map_map. apply map_ext_in. intros [x i] Hin. cbn.
      apply (Permutation_in _ Hp) in Hin. apply (combine_seq_nth Inf) in Hin.
      destruct Hin as [_ H]. rewrite Nat.sub_0_r in H. symmetry; exact H.
Qed.

(* ------------------------------------------------------------------ the running top-k *)
Section TopK.
Context {C P : Type}.
Variable argsort : list ext -> list nat.
Hypothesis Hargsort : argsort_ok argsort.
Variable k : nat.
Variable key : C -> ext.
Variable pay : nat -> nat -> C -> P.
Variable fillp : P.

Notation fill := (@fill P fillp).
Notation step := (step argsort k (P := P) fillp).
Notation run := (run argsort k key pay fillp).
Notation new_entries := (new_entries key pay).

(* everything appended by the batches from batch number b on *)
Fixpoint all_new (b : nat) (batches : list (list C)) : list (ext * P) :=
  match batches with [] => [] | c :: r => new_entries b c ++ all_new (S b) r end.

Lemma map_fst_new_entries b c : map fst (new_entries b c) = map key c.
Proof.
  unfold Model.new_entries. rewrite map_map. cbn [fst].
  rewrite <- (map_map snd key). f_equal.
  generalize 0. induction c as [|x c IH]; intro s; cbn; [reflexivity|]. f_equal. apply IH.
Qed.

Lemma map_fst_all_new b batches : map fst (all_new b batches) = map key (concat batches).
Proof.
  revert b; induction batches as [|c r IH]; intro b; cbn; [reflexivity|].
  rewrite !map_app, map_fst_new_entries, IH. reflexivity.
Qed.

(* one step keeps the k smallest keys of (best ++ new) *)
Lemma step_keys best new : map fst (step best new) = ksm k (map fst best ++ map fst new).
Proof.
  unfold Model.step. rewrite gather_map. cbn [fst Model.fill].
  destruct (Hargsort (map fst (best ++ new))) as [Hperm Hsort].
  unfold gather. rewrite <- firstn_map. fold (gather Inf (map fst (best ++ new)) (argsort (map fst (best ++ new)))).
  rewrite (sorted_perm_unique _ (map fst (best ++ new)) Hsort (gather_perm _ _ _ Hperm)).
  rewrite map_app. reflexivity.
Qed.

Lemma step_perm best new : exists disc, Permutation (step best new ++ disc) (best ++ new).
Proof.
  destruct (Hargsort (map fst (best ++ new))) as [Hperm _]. rewrite map_length in Hperm.
  exists (gather fill (best ++ new) (skipn k (argsort (map fst (best ++ new))))).
  unfold Model.step. rewrite <- gather_app, firstn_skipn. apply gather_perm. exact Hperm.
Qed.

Lemma step_length best new : k <= length best -> length (step best new) = k.
Proof.
  intro H. unfold Model.step, gather. rewrite map_length, firstn_length.
  destruct (Hargsort (map fst (best ++ new))) as [Hperm _].
  rewrite (Permutation_length Hperm), seq_length, map_length, app_length. lia.
Qed.

Lemma run_keys batches : forall b best a,
  map fst best = ksm k a -> map fst (run b batches best) = ksm k (a ++ map fst (all_new b batches)).
Proof.
  induction batches as [|c r IH]; intros b best a H; cbn [Model.run all_new].
  - rewrite app_nil_r. exact H.
  - rewrite (IH (S b) _ (a ++ map fst (new_entries b c))).
    + rewrite map_app, app_assoc. reflexivity.
    + rewrite step_keys, H. apply ksm_merge.
Qed.

Lemma run_perm batches : forall b best,
  exists rest, Permutation (run b batches best ++ rest) (best ++ all_new b batches).
Proof.
  induction batches as [|c r IH]; intros b best; cbn [Model.run all_new].
  - exists []. apply Permutation_refl.
  - destruct (IH (S b) (step best (new_entries b c))) as [rest Hrest].
    destruct (step_perm best (new_entries b c)) as [disc Hdisc].
    exists (rest ++ disc). rewrite app_assoc.
    eapply Permutation_trans; [apply Permutation_app_tail, Hrest|].
    rewrite <- app_assoc. eapply Permutation_trans; [apply Permutation_app_head, Permutation_app_comm|].
    rewrite app_assoc. eapply Permutation_trans; [apply Permutation_app_tail, Hdisc|].
    rewrite <- app_assoc. apply Permutation_refl.
Qed.

Lemma run_length batches : forall b best, length best = k -> length (run b batches best) = k.
Proof.
  induction batches as [|c r IH]; intros b best H; cbn [Model.run]; [exact H|].
  apply IH. apply step_length. lia.
Qed.

Lemma ksm_fills : ksm k (repeat Inf k) = repeat Inf k.
Proof.
  unfold ksm. rewrite <- (sorted_perm_unique (repeat Inf k) (repeat Inf k)).
  - apply firstn_repeat_all.
  - apply Sorted_repeat_Inf.
  - apply Permutation_refl.
Qed.

Lemma map_fst_fills : map fst (repeat fill k) = repeat Inf k.
Proof. induction k as [|n IH]; cbn; [reflexivity | f_equal; exact IH]. Qed.

(* T1: the returned distances are the k smallest of all distances (and k fills), for any sorted arrangement *)
Theorem topk_keys B cases : 1 <= B ->
  nearest_keys k (map key cases) (map fst (topk argsort k key pay fillp (chunks B cases))).
Proof.
  intros HB S [HS HP]. unfold topk.
  rewrite (run_keys _ 0 _ (repeat Inf k)) by (rewrite map_fst_fills; symmetry; apply ksm_fills).
  rewrite map_fst_all_new, concat_chunks by exact HB.
  unfold ksm. f_equal. symmetry. apply sorted_perm_unique; [exact HS|].
  eapply Permutation_trans; [exact HP | apply Permutation_app_comm].
Qed.

Theorem topk_length batches : length (topk argsort k key pay fillp batches) = k.
Proof. unfold topk. apply run_length. apply repeat_length. Qed.
End TopK.

(* ------------------------------------------------------------------ which entries are returned *)
Lemma combine_seq_app {A} (a b : list A) s :
  combine (seq s (length (a ++ b))) (a ++ b)
  = combine (seq s (length a)) a ++ combine (seq (s + length a) (length b)) b.
Proof.
  revert s; induction a as [|x a IH]; intro s; cbn [length app seq combine].
  - rewrite Nat.add_0_r. reflexivity.
  - f_equal. rewrite IH. do 2 f_equal. f_equal. lia.
Qed.

Lemma combine_seq_shift {A} (l : list A) s :
  combine (seq s (length l)) l = map (fun pc => (s + fst pc, snd pc)) (combine (seq 0 (length l)) l).
Proof.
  rewrite (seq_shift_map s). rewrite <- (map_id l) at 2 3.
  generalize (seq 0 (length l)). intro n. revert n. induction l as [|x l IH]; intros [|i n]; cbn; try reflexivity.
  f_equal. rewrite map_id in *. apply IH.
Qed.

Lemma map_snd_combine_seq' {A} (l : list A) s : map snd (combine (seq s (length l)) l) = l.
Proof. revert s; induction l as [|x l IH]; intro s; cbn; [reflexivity|]. f_equal. apply IH. Qed.

Lemma combine_seq_nth_error {A} (l : list A) s i c :
  In (i, c) (combine (seq s (length l)) l) -> s <= i /\ nth_error l (i - s) = Some c.
Proof.
  revert s; induction l as [|x l IH]; intros s H; [destruct H|].
  cbn [length seq combine] in H. destruct H as [H|H].
  - injection H as -> ->. split; [lia|]. rewrite Nat.sub_diag. reflexivity.
  - apply IH in H. destruct H as [H1 H2]. split; [lia|].
    replace (i - s) with (S (i - S s)) by lia. exact H2.
Qed.

Section Structure.
Context {C P : Type}.
Variable argsort : list ext -> list nat.
Hypothesis Hargsort : argsort_ok argsort.
Variable k : nat.
Variable key : C -> ext.
Variable pay : nat -> nat -> C -> P.
Variable fillp : P.
Variable B : nat.
Hypothesis HB : 1 <= B.

Notation entry_at := (fun ic : nat * C => (key (snd ic), pay (fst ic / B) (fst ic mod B) (snd ic))).
Notation slot_entry := (slot_entry key pay fillp B).
Notation slot_key := (slot_key key pay fillp B).

Lemma new_entries_global b c : length c <= B ->
  new_entries key pay b c = map entry_at (combine (seq (b * B) (length c)) c).
Proof.
  intro Hc. unfold new_entries. rewrite (combine_seq_shift c (b * B)), map_map.
  apply map_ext_in. intros [p x] Hin. cbn [fst snd].
  apply in_combine_l, in_seq in Hin.
  assert (p < B) by lia.
  replace (b * B + p) with (p + b * B) by lia.
  rewrite Nat.div_add, Nat.mod_add by lia. rewrite Nat.div_small, Nat.mod_small by assumption.
  reflexivity.
Qed.

Lemma all_new_chunks l : forall b,
  all_new key pay b (chunks B l) = map entry_at (combine (seq (b * B) (length l)) l).
Proof.
  pattern l. apply (chunks_ind _ B HB); clear l.
  - intro b. reflexivity.
  - intros l Hl IH b. rewrite chunks_cons_step by assumption. cbn [all_new].
    rewrite IH. rewrite new_entries_global by (rewrite firstn_length; lia).
    rewrite <- (firstn_skipn B l) at 5 6. rewrite combine_seq_app, map_app. f_equal.
    destruct (Nat.le_gt_cases (length l) B) as [Hle|Hgt].
    + rewrite skipn_all2 by exact Hle. reflexivity.
    + rewrite firstn_length. replace (Nat.min B (length l)) with B by lia.
      replace (S b * B) with (b * B + B) by lia. reflexivity.
Qed.

Lemma universe_entries cases :
  map slot_entry (universe k cases)
  = repeat (@fill P fillp) k ++ all_new key pay 0 (chunks B cases).
Proof.
  unfold universe. rewrite map_app. f_equal.
  - induction k as [|n IH]; cbn; [reflexivity | f_equal; exact IH].
  - rewrite all_new_chunks, map_map. reflexivity.
Qed.

Lemma universe_keys cases :
  map slot_key (universe k cases) = repeat Inf k ++ map key cases.
Proof.
  unfold universe. rewrite map_app. f_equal.
  - induction k as [|n IH]; cbn; [reflexivity | f_equal; exact IH].
  - rewrite map_map. unfold Spec.slot_key. cbn [Spec.slot_entry fst].
    rewrite <- (map_snd_combine_seq' cases 0) at 2. rewrite map_map. apply map_ext. intros [i c]; reflexivity.
Qed.

(* T2 + T3: the result is the image of a list of slots T1 that is part of the universe (k fills, every case
   once), and everything left out (T2) is at least as far as everything returned *)
Theorem topk_structure cases :
  exists T1 T2 : list (@slot C),
    Permutation (T1 ++ T2) (universe k cases)
    /\ topk argsort k key pay fillp (chunks B cases) = map slot_entry T1
    /\ length T1 = k
    /\ (forall a b, In a T1 -> In b T2 -> ext_le (slot_key a) (slot_key b)).
Proof.
  set (res := topk argsort k key pay fillp (chunks B cases)).
  destruct (run_perm argsort Hargsort k key pay fillp (chunks B cases) 0 (repeat (@fill P fillp) k)) as [rest Hrest].
  fold (topk argsort k key pay fillp (chunks B cases)) in Hrest. fold res in Hrest.
  rewrite <- universe_entries in Hrest.
  apply Permutation_map_inv in Hrest. destruct Hrest as [U' [Heq HU]].
  symmetry in Heq. apply map_eq_app in Heq. destruct Heq as [T1 [T2 [-> [H1 H2]]]].
  exists T1, T2. split; [apply Permutation_sym; exact HU|]. split; [symmetry; exact H1|].
  split; [rewrite <- (map_length slot_entry), H1; apply topk_length; exact Hargsort|].
  (* minimality from the keys *)
  set (S := isort (map key cases ++ repeat Inf k)).
  assert (HS : sorted_perm_of S (map key cases ++ repeat Inf k)) by (split; [apply isort_sorted | apply isort_perm]).
  pose proof (topk_keys argsort Hargsort k key pay fillp B cases HB S HS) as Hk. fold res in Hk.
  assert (Hall : Permutation (map fst res ++ map fst rest) S).
  { rewrite <- H1, <- H2, !map_map, <- map_app. fold slot_key.
    eapply Permutation_trans; [apply Permutation_map, Permutation_sym, HU|].
    rewrite universe_keys. eapply Permutation_trans; [apply Permutation_app_comm|].
    apply Permutation_sym, HS. }
  rewrite Hk in Hall. rewrite <- (firstn_skipn k S) in Hall at 2.
  apply Permutation_app_inv_l in Hall.
  intros a b Ha Hb.
  apply (StronglySorted_split ext_le S k).
  - apply Sorted_StronglySorted; [exact ext_le_trans | apply HS].
  - rewrite <- Hk, <- H1, map_map. apply (in_map slot_key) in Ha. exact Ha.
  - apply (Permutation_in _ Hall). rewrite <- H2, map_map. apply (in_map slot_key) in Hb. exact Hb.
Qed.

(* the case numbers of a list of slots *)
Definition slot_cases (T : list (@slot C)) : list nat :=
  flat_map (fun s => match s with Some (i, _) => [i] | None => [] end) T.

Lemma slot_cases_universe cases : slot_cases (universe k cases) = seq 0 (length cases).
Proof.
  unfold slot_cases, universe. rewrite flat_map_app.
  replace (flat_map _ (repeat None k)) with (@nil nat) by (induction k as [|n IH]; cbn; auto).
  cbn [app]. rewrite <- (map_snd_combine_seq cases 0) at 2.
  generalize (seq 0 (length cases)). induction cases as [|c l IH]; intros [|i n]; cbn; try reflexivity.
  f_equal. apply IH.
Qed.

(* no case is returned twice *)
Theorem structure_nodup cases T1 T2 :
  Permutation (T1 ++ T2) (universe k cases) -> NoDup (slot_cases T1).
Proof.
  intro H. apply (Permutation_flat_map (fun s : @slot C => match s with Some (i, _) => [i] | None => [] end)) in H.
  fold (slot_cases (T1 ++ T2)) in H. fold (slot_cases (universe k cases)) in H.
  rewrite slot_cases_universe in H. unfold slot_cases in H. rewrite flat_map_app in H.
  apply Permutation_sym in H. apply (Permutation_NoDup H) in H as Hn; [|apply seq_NoDup].
  apply NoDup_app_remove_r in Hn. exact Hn.
Qed.

(* every slot of the universe is a fill or a genuine (number, case) pair *)
Lemma universe_in cases s : In s (universe k cases) ->
  s = None \/ exists i c, s = Some (i, c) /\ nth_error cases i = Some c.
Proof.
  unfold universe. intro H. apply in_app_or in H. destruct H as [H|H].
  - left. apply repeat_spec in H. exact H.
  - right. apply in_map_iff in H. destruct H as [[i c] [<- Hin]].
    exists i, c. split; [reflexivity|]. apply combine_seq_nth_error in Hin.
    rewrite Nat.sub_0_r in Hin. apply Hin.
Qed.
End Structure.
