(* C16/Proofs.v — the running top-k of KNN.kneighbors returns the k nearest, for every batch size,
   every k and every tie-breaking argsort.  Stdlib style; the two order facts that need mathcomp's
   [sort] are imported (without notations) from C16/Bridge.v. *)
From Xpl Require Import Base.Tensor C16.Spec.
From Xpl Require C16.Bridge.
From Coq Require Import Arith.
Close Scope Qc_scope. Open Scope nat_scope.

Definition ksm_merge := Xpl.C16.Bridge.ksm_merge.
Definition sorted_perm_unique := Xpl.C16.Bridge.sorted_perm_unique.

(* ------------------------------------------------------------------ generic list facts *)
Lemma gather_app {A} (d : A) l a b : gather d l (a ++ b) = gather d l a ++ gather d l b.
Proof. apply map_app. Qed.

Lemma gather_all {A} (d : A) l : gather d l (seq 0 (length l)) = l.
Proof. symmetry. apply list_as_seq. Qed.

Lemma gather_perm {A} (d : A) l order :
  Permutation order (seq 0 (length l)) -> Permutation (gather d l order) l.
Proof.
  intro H. rewrite <- (gather_all d l) at 2. unfold gather. apply Permutation_map. exact H.
Qed.

Lemma gather_map {A B} (f : A -> B) d l order : map f (gather d l order) = gather (f d) (map f l) order.
Proof. unfold gather. rewrite map_map. apply map_ext. intro i. symmetry. apply map_nth. Qed.

Lemma firstn_repeat_all {A} (x : A) k : firstn k (repeat x k) = repeat x k.
Proof. rewrite <- (repeat_length x k) at 1. apply firstn_all. Qed.

Lemma Sorted_map_key {A} (key : A -> ext) l : Sorted (key_le key) l -> Sorted ext_le (map key l).
Proof.
  induction 1 as [|x l Hs IH Hd]; cbn; constructor; [exact IH|].
  destruct Hd; cbn; constructor; assumption.
Qed.

Lemma Sorted_repeat_Inf k : Sorted ext_le (repeat Inf k).
Proof. induction k as [|k IH]; cbn; constructor; [exact IH|]. destruct k; cbn; constructor; reflexivity. Qed.

Lemma ext_le_trans : Relations_1.Transitive ext_le.
Proof. intros a b c H1 H2. exact (ext_leb_trans b a c H1 H2). Qed.

Lemma StronglySorted_split {A} (R : A -> A -> Prop) S k x y :
  StronglySorted R S -> In x (firstn k S) -> In y (skipn k S) -> R x y.
Proof.
  intro H. revert k. induction H as [|a l Hs IH Ha]; intros k Hx Hy.
  - destruct k; destruct Hx.
  - destruct k as [|k]; [destruct Hx|]. cbn in Hx, Hy. destruct Hx as [<-|Hx].
    + rewrite Forall_forall in Ha. apply Ha. rewrite <- (firstn_skipn k l). apply in_or_app; right; exact Hy.
    + eapply IH; eassumption.
Qed.

Lemma Sorted_firstn S n : Sorted ext_le S -> Sorted ext_le (firstn n S).
Proof.
  intro H. apply StronglySorted_Sorted. apply (Sorted_StronglySorted ext_le_trans) in H.
  revert n. induction H as [|a l Hs IH Ha]; intros [|n]; cbn; try constructor.
  - apply IH.
  - rewrite Forall_forall. intros x Hx. rewrite Forall_forall in Ha. apply Ha.
    rewrite <- (firstn_skipn n l). apply in_or_app; left; exact Hx.
Qed.

(* a sorted list followed by +inf's is sorted *)
Lemma Sorted_app_Inf S k : Sorted ext_le S -> Sorted ext_le (S ++ repeat Inf k).
Proof.
  induction 1 as [|x l Hs IH Hd]; cbn; [apply Sorted_repeat_Inf|].
  constructor; [exact IH|]. destruct Hd as [|y l' Hxy]; cbn.
  - destruct k; cbn; constructor. apply ext_leb_Inf.
  - constructor; exact Hxy.
Qed.

(* ------------------------------------------------------------------ the stable argsort is an argsort *)
Lemma combine_seq_nth {A} (d : A) l s x i :
  In (x, i) (combine l (seq s (length l))) -> s <= i /\ nth (i - s) l d = x.
Proof.
  revert s. induction l as [|y l IH]; intros s H; [destruct H|].
  cbn [length seq combine] in H. destruct H as [H|H].
  - injection H as -> ->. split; [lia|]. rewrite Nat.sub_diag. reflexivity.
  - apply IH in H. destruct H as [H1 H2]. split; [lia|].
    replace (i - s) with (S (i - S s)) by lia. exact H2.
Qed.

Lemma map_snd_combine_seq {A} (l : list A) s : map snd (combine l (seq s (length l))) = seq s (length l).
Proof. revert s; induction l as [|y l IH]; intro s; cbn; [reflexivity|]. f_equal. apply IH. Qed.

Theorem argsort_stable_ok : argsort_ok argsort_stable.
Proof.
  intro l. unfold argsort_stable.
  set (ps := combine l (seq 0 (length l))).
  set (sp := isort_by (fun p : ext * nat => fst p) ps).
  assert (Hp : Permutation sp ps) by apply isort_by_perm.
  split.
  - rewrite <- (map_snd_combine_seq l 0). apply Permutation_map. exact Hp.
  - replace (gather Inf l (map snd sp)) with (map fst sp).
    + apply (Sorted_map_key (fun p : ext * nat => fst p)). apply isort_by_sorted.
    + unfold gather. rewrite map_map. apply map_ext_in. intros [x i] Hin. cbn.
      apply (Permutation_in _ Hp) in Hin. apply (combine_seq_nth Inf) in Hin.
      destruct Hin as [_ H]. rewrite Nat.sub_0_r in H. symmetry; exact H.
Qed.

(* ------------------------------------------------------------------ the running top-k *)
Section TopK.
Context {C P : Type}.
Variable argsort : list ext -> list nat.
Hypothesis Hargsort : argsort_ok argsort.
Variable k : nat.
Variable key : C -> ext.
Variable pay : nat -> nat -> C -> P.
Variable fillp : P.

Notation fill := (@fill P fillp).
Notation step := (step argsort k (P := P) fillp).
Notation run := (run argsort k key pay fillp).
Notation new_entries := (new_entries key pay).

(* everything appended by the batches from batch number b on *)
Fixpoint all_new (b : nat) (batches : list (list C)) : list (ext * P) :=
  match batches with [] => [] | c :: r => new_entries b c ++ all_new (S b) r end.

Lemma map_fst_new_entries b c : map fst (new_entries b c) = map key c.
Proof.
  unfold Model.new_entries. rewrite map_map. cbn [fst].
  rewrite <- (map_map snd key). f_equal.
  generalize 0. induction c as [|x c IH]; intro s; cbn; [reflexivity|]. f_equal. apply IH.
Qed.

Lemma map_fst_all_new b batches : map fst (all_new b batches) = map key (concat batches).
Proof.
  revert b; induction batches as [|c r IH]; intro b; cbn; [reflexivity|].
  rewrite !map_app, map_fst_new_entries, IH. reflexivity.
Qed.

(* one step keeps the k smallest keys of (best ++ new) *)
Lemma step_keys best new : map fst (step best new) = ksm k (map fst best ++ map fst new).
Proof.
  unfold Model.step. rewrite gather_map. cbn [fst Model.fill].
  destruct (Hargsort (map fst (best ++ new))) as [Hperm Hsort].
  unfold gather. rewrite <- firstn_map. fold (gather Inf (map fst (best ++ new)) (argsort (map fst (best ++ new)))).
  rewrite (sorted_perm_unique _ (map fst (best ++ new)) Hsort (gather_perm _ _ _ Hperm)).
  rewrite map_app. reflexivity.
Qed.

Lemma step_perm best new : exists disc, Permutation (step best new ++ disc) (best ++ new).
Proof.
  destruct (Hargsort (map fst (best ++ new))) as [Hperm _]. rewrite map_length in Hperm.
  exists (gather fill (best ++ new) (skipn k (argsort (map fst (best ++ new))))).
  unfold Model.step. rewrite <- gather_app, firstn_skipn. apply gather_perm. exact Hperm.
Qed.

Lemma step_length best new : k <= length best -> length (step best new) = k.
Proof.
  intro H. unfold Model.step, gather. rewrite map_length, firstn_length.
  destruct (Hargsort (map fst (best ++ new))) as [Hperm _].
  rewrite (Permutation_length Hperm), seq_length, map_length, app_length. lia.
Qed.

Lemma run_keys batches : forall b best a,
  map fst best = ksm k a -> map fst (run b batches best) = ksm k (a ++ map fst (all_new b batches)).
Proof.
  induction batches as [|c r IH]; intros b best a H; cbn [Model.run all_new].
  - rewrite app_nil_r. exact H.
  - rewrite (IH (S b) _ (a ++ map fst (new_entries b c))).
    + rewrite map_app, app_assoc. reflexivity.
    + rewrite step_keys, H. apply ksm_merge.
Qed.

Lemma run_perm batches : forall b best,
  exists rest, Permutation (run b batches best ++ rest) (best ++ all_new b batches).
Proof.
  induction batches as [|c r IH]; intros b best; cbn [Model.run all_new].
  - exists []. apply Permutation_refl.
  - destruct (IH (S b) (step best (new_entries b c))) as [rest Hrest].
    destruct (step_perm best (new_entries b c)) as [disc Hdisc].
    exists (rest ++ disc). rewrite app_assoc.
    eapply Permutation_trans; [apply Permutation_app_tail, Hrest|].
    rewrite <- app_assoc. eapply Permutation_trans; [apply Permutation_app_head, Permutation_app_comm|].
    rewrite app_assoc. eapply Permutation_trans; [apply Permutation_app_tail, Hdisc|].
    rewrite <- app_assoc. apply Permutation_refl.
Qed.

Lemma run_length batches : forall b best, length best = k -> length (run b batches best) = k.
Proof.
  induction batches as [|c r IH]; intros b best H; cbn [Model.run]; [exact H|].
  apply IH. apply step_length. lia.
Qed.

Lemma ksm_fills : ksm k (repeat Inf k) = repeat Inf k.
Proof.
  unfold ksm. rewrite <- (sorted_perm_unique (repeat Inf k) (repeat Inf k)).
  - apply firstn_repeat_all.
  - apply Sorted_repeat_Inf.
  - apply Permutation_refl.
Qed.

Lemma map_fst_fills : map fst (repeat fill k) = repeat Inf k.
Proof. induction k as [|n IH]; cbn; [reflexivity | f_equal; exact IH]. Qed.

(* T1: the returned distances are the k smallest of all distances (and k fills), for any sorted arrangement *)
Theorem topk_keys B cases : 1 <= B ->
  nearest_keys k (map key cases) (map fst (topk argsort k key pay fillp (chunks B cases))).
Proof.
  intros HB S [HS HP]. unfold topk.
  rewrite (run_keys _ 0 _ (repeat Inf k)) by (rewrite map_fst_fills; symmetry; apply ksm_fills).
  rewrite map_fst_all_new, concat_chunks by exact HB.
  unfold ksm. f_equal. symmetry. apply sorted_perm_unique; [exact HS|].
  eapply Permutation_trans; [exact HP | apply Permutation_app_comm].
Qed.

Theorem topk_length batches : length (topk argsort k key pay fillp batches) = k.
Proof. unfold topk. apply run_length. apply repeat_length. Qed.
End TopK.

(* ------------------------------------------------------------------ which entries are returned *)
Lemma combine_seq_app {A} (a b : list A) s :
  combine (seq s (length (a ++ b))) (a ++ b)
  = combine (seq s (length a)) a ++ combine (seq (s + length a) (length b)) b.
Proof.
  revert s; induction a as [|x a IH]; intro s; cbn [length app seq combine].
  - rewrite Nat.add_0_r. reflexivity.
  - f_equal. rewrite IH. do 2 f_equal. f_equal. lia.
Qed.

Lemma combine_map_l {A B B'} (f : B -> B') (n : list B) (l : list A) :
  combine (map f n) l = map (fun pc => (f (fst pc), snd pc)) (combine n l).
Proof. revert l; induction n as [|i n IH]; intros [|x l]; cbn; try reflexivity. f_equal. apply IH. Qed.

Lemma combine_seq_shift {A} (l : list A) s :
  combine (seq s (length l)) l = map (fun pc => (s + fst pc, snd pc)) (combine (seq 0 (length l)) l).
Proof. rewrite (seq_shift_map s). apply combine_map_l. Qed.

Lemma map_snd_combine_seq' {A} (l : list A) s : map snd (combine (seq s (length l)) l) = l.
Proof. revert s; induction l as [|x l IH]; intro s; cbn; [reflexivity|]. f_equal. apply IH. Qed.

Lemma combine_seq_nth_error {A} (l : list A) s i c :
  In (i, c) (combine (seq s (length l)) l) -> s <= i /\ nth_error l (i - s) = Some c.
Proof.
  revert s; induction l as [|x l IH]; intros s H; [destruct H|].
  cbn [length seq combine] in H. destruct H as [H|H].
  - injection H as -> ->. split; [lia|]. rewrite Nat.sub_diag. reflexivity.
  - apply IH in H. destruct H as [H1 H2]. split; [lia|].
    replace (i - s) with (S (i - S s)) by lia. exact H2.
Qed.

Lemma nth_error_combine_seq {A} (l : list A) s i c :
  nth_error l i = Some c -> In (s + i, c) (combine (seq s (length l)) l).
Proof.
  revert s i; induction l as [|x l IH]; intros s [|i] H; cbn in H; try discriminate.
  - injection H as ->. left. f_equal. lia.
  - cbn [length seq combine]. right. replace (s + S i) with (S s + i) by lia. apply IH. exact H.
Qed.

Lemma nth_error_map2_some {A B C} (f : A -> B -> C) a b i x y :
  nth_error a i = Some x -> nth_error b i = Some y -> nth_error (map2 f a b) i = Some (f x y).
Proof.
  revert b i; induction a as [|x' a IH]; intros [|y' b] [|i] H1 H2; cbn in *; try discriminate.
  - injection H1 as ->. injection H2 as ->. reflexivity.
  - apply IH; assumption.
Qed.

Lemma NoDup_app_l {A} (a b : list A) : NoDup (a ++ b) -> NoDup a.
Proof.
  induction a as [|x a IH]; cbn; intro H; [constructor|].
  inversion H as [|? ? Hx Hn]; subst. constructor; [|apply IH, Hn].
  intro K. apply Hx. apply in_or_app; left; exact K.
Qed.

Section Structure.
Context {C P : Type}.
Variable argsort : list ext -> list nat.
Hypothesis Hargsort : argsort_ok argsort.
Variable k : nat.
Variable key : C -> ext.
Variable pay : nat -> nat -> C -> P.
Variable fillp : P.
Variable B : nat.
Hypothesis HB : 1 <= B.

Notation entry_at := (fun ic : nat * C => (key (snd ic), pay (fst ic / B) (fst ic mod B) (snd ic))).
Notation slot_entry := (slot_entry key pay fillp B).
Notation slot_key := (slot_key key pay fillp B).

Lemma new_entries_global b c : length c <= B ->
  new_entries key pay b c = map entry_at (combine (seq (b * B) (length c)) c).
Proof.
  intro Hc. unfold new_entries. rewrite (combine_seq_shift c (b * B)), map_map.
  apply map_ext_in. intros [p x] Hin. cbn [fst snd].
  apply in_combine_l, in_seq in Hin.
  assert (p < B) by lia.
  replace (b * B + p) with (p + b * B) by lia.
  rewrite Nat.div_add, Nat.mod_add by lia. rewrite Nat.div_small, Nat.mod_small by assumption.
  reflexivity.
Qed.

Lemma all_new_chunks l : forall b,
  all_new key pay b (chunks B l) = map entry_at (combine (seq (b * B) (length l)) l).
Proof.
  pattern l. apply (chunks_ind _ B HB); clear l.
  - intro b. reflexivity.
  - intros l Hl IH b. rewrite chunks_cons_step by assumption. cbn [all_new].
    rewrite IH. rewrite new_entries_global by (rewrite firstn_length; lia).
    rewrite <- (firstn_skipn B l) at 5 6. rewrite combine_seq_app, map_app. f_equal.
    destruct (Nat.le_gt_cases (length l) B) as [Hle|Hgt].
    + rewrite skipn_all2 by exact Hle. reflexivity.
    + rewrite firstn_length. replace (Nat.min B (length l)) with B by lia.
      replace (S b * B) with (b * B + B) by lia. reflexivity.
Qed.

Lemma universe_entries cases :
  map slot_entry (universe k cases)
  = repeat (@fill P fillp) k ++ all_new key pay 0 (chunks B cases).
Proof.
  unfold universe. rewrite map_app. f_equal.
  - induction k as [|n IH]; cbn; [reflexivity | f_equal; exact IH].
  - rewrite all_new_chunks, map_map. cbn [Nat.mul]. apply map_ext. intros [i c]. reflexivity.
Qed.

Lemma universe_keys cases :
  map slot_key (universe k cases) = repeat Inf k ++ map key cases.
Proof.
  unfold universe. rewrite map_app. f_equal.
  - induction k as [|n IH]; cbn; [reflexivity | f_equal; exact IH].
  - rewrite map_map. unfold Spec.slot_key. cbn [Spec.slot_entry fst].
    transitivity (map key (map snd (combine (seq 0 (length cases)) cases))).
    + rewrite map_map. apply map_ext. intros [i c]; reflexivity.
    + rewrite map_snd_combine_seq'. reflexivity.
Qed.

(* T2 + T3: the result is the image of a list of slots T1 that is part of the universe (k fills, every case
   once), and everything left out (T2) is at least as far as everything returned *)
Theorem topk_structure cases :
  exists T1 T2 : list (@slot C),
    Permutation (T1 ++ T2) (universe k cases)
    /\ topk argsort k key pay fillp (chunks B cases) = map slot_entry T1
    /\ length T1 = k
    /\ (forall a b, In a T1 -> In b T2 -> ext_le (slot_key a) (slot_key b)).
Proof.
  set (res := topk argsort k key pay fillp (chunks B cases)).
  destruct (run_perm argsort Hargsort k key pay fillp (chunks B cases) 0 (repeat (@fill P fillp) k)) as [rest Hrest].
  fold (topk argsort k key pay fillp (chunks B cases)) in Hrest. fold res in Hrest.
  rewrite <- universe_entries in Hrest.
  apply Permutation_map_inv in Hrest. destruct Hrest as [U' [Heq HU]].
  symmetry in Heq. apply map_eq_app in Heq. destruct Heq as [T1 [T2 [-> [H1 H2]]]].
  exists T1, T2. split; [apply Permutation_sym; exact HU|]. split; [symmetry; exact H1|].
  split; [rewrite <- (map_length slot_entry), H1; apply topk_length; exact Hargsort|].
  (* minimality from the keys *)
  set (S := isort (map key cases ++ repeat Inf k)).
  assert (HS : sorted_perm_of S (map key cases ++ repeat Inf k)) by (split; [apply isort_sorted | apply isort_perm]).
  pose proof (topk_keys argsort Hargsort k key pay fillp B cases HB S HS) as Hk. fold res in Hk.
  assert (Hall : Permutation (map fst res ++ map fst rest) S).
  { rewrite <- H1, <- H2, !map_map, <- map_app. fold slot_key.
    eapply Permutation_trans; [apply Permutation_map, Permutation_sym, HU|].
    rewrite universe_keys. eapply Permutation_trans; [apply Permutation_app_comm|].
    apply Permutation_sym, HS. }
  rewrite Hk in Hall. rewrite <- (firstn_skipn k S) in Hall at 2.
  apply Permutation_app_inv_l in Hall.
  intros a b Ha Hb.
  apply (StronglySorted_split ext_le S k).
  - apply Sorted_StronglySorted; [exact ext_le_trans | apply HS].
  - rewrite <- Hk, <- H1, map_map. apply (in_map slot_key) in Ha. exact Ha.
  - apply (Permutation_in _ Hall). rewrite <- H2, map_map. apply (in_map slot_key) in Hb. exact Hb.
Qed.

Lemma slot_cases_universe (cases : list C) : slot_cases (universe k cases) = seq 0 (length cases).
Proof.
  unfold slot_cases, universe. rewrite flat_map_app.
  replace (flat_map _ (repeat None k)) with (@nil nat) by (induction k as [|n IH]; cbn; auto).
  cbn [app]. rewrite <- (map_snd_combine_seq cases 0) at 2.
  generalize (seq 0 (length cases)). induction cases as [|c l IH]; intros [|i n]; cbn; try reflexivity.
  f_equal. apply IH.
Qed.

(* no case is returned twice *)
Theorem structure_nodup (cases : list C) T1 T2 :
  Permutation (T1 ++ T2) (universe k cases) -> NoDup (slot_cases T1).
Proof.
  intro H. apply (Permutation_flat_map (fun s : @slot C => match s with Some (i, _) => [i] | None => [] end)) in H.
  change (Permutation (slot_cases (T1 ++ T2)) (slot_cases (universe k cases))) in H.
  rewrite slot_cases_universe in H. unfold slot_cases in H. rewrite flat_map_app in H.
  apply Permutation_sym in H. pose proof (Permutation_NoDup H (seq_NoDup _ _)) as Hn.
  apply NoDup_app_l in Hn. exact Hn.
Qed.

(* every slot of the universe is a fill or a genuine (number, case) pair *)
Lemma universe_in (cases : list C) (s : @slot C) : In s (universe k cases) ->
  s = None \/ exists i c, s = Some (i, c) /\ nth_error cases i = Some c.
Proof.
  unfold universe. intro H. apply in_app_or in H. destruct H as [H|H].
  - left. apply repeat_spec in H. exact H.
  - right. apply in_map_iff in H. destruct H as [[i c] [<- Hin]].
    exists i, c. split; [reflexivity|]. apply combine_seq_nth_error in Hin.
    rewrite Nat.sub_0_r in Hin. apply Hin.
Qed.
End Structure.

(* ------------------------------------------------------------------ dataset_gather *)
Lemma nth_error_nil {A} i : nth_error (@nil A) i = None.
Proof. destruct i; reflexivity. Qed.

Lemma nth_error_firstn_lt {A} (l : list A) n i : i < n -> nth_error (firstn n l) i = nth_error l i.
Proof.
  revert l i; induction n as [|n IH]; intros l i H; [lia|].
  destruct l as [|x l]; [reflexivity|]. destruct i as [|i]; [reflexivity|]. cbn. apply IH. lia.
Qed.

Lemma nth_error_skipn' {A} (l : list A) n i : nth_error (skipn n l) i = nth_error l (n + i).
Proof.
  revert l; induction n as [|n IH]; intro l; [reflexivity|].
  destruct l as [|x l]; [cbn; rewrite nth_error_nil; reflexivity|]. cbn. apply IH.
Qed.

Lemma nth_error_z_nat {A} (l : list A) i : nth_error_z l (Z.of_nat i) = nth_error l i.
Proof.
  unfold nth_error_z. rewrite <- (Nat2Z.id i) at 2.
  destruct (Z.of_nat i) eqn:E; try reflexivity. pose proof (Nat2Z.is_nonneg i). lia.
Qed.

Lemma gather_from_chunks {A} B (l : list A) : 1 <= B -> forall b0 i,
  gather_from b0 (chunks B l) (Z.of_nat (b0 + i / B), Z.of_nat (i mod B)) = nth_error l i.
Proof.
  intro HB. pattern l. apply (chunks_ind _ B HB); clear l.
  - intros b0 i. cbn. rewrite nth_error_nil. reflexivity.
  - intros l Hl IH b0 i. rewrite chunks_cons_step by assumption. cbn [gather_from fst snd].
    destruct (Nat.lt_ge_cases i B) as [Hlt|Hge].
    + rewrite Nat.div_small, Nat.mod_small by exact Hlt. rewrite Nat.add_0_r, Z.eqb_refl.
      rewrite nth_error_z_nat. apply nth_error_firstn_lt. exact Hlt.
    + assert (Hi : i = 1 * B + (i - B)) by lia. set (j := i - B) in *. rewrite Hi.
      rewrite Nat.div_add_l by lia.
      replace (1 * B + j) with (j + 1 * B) at 2 by lia. rewrite Nat.mod_add by lia.
      destruct (Z.eqb_spec (Z.of_nat (b0 + (1 + j / B))) (Z.of_nat b0)) as [E|_]; [lia|].
      replace (b0 + (1 + j / B)) with (S b0 + j / B) by lia. rewrite IH.
      rewrite nth_error_skipn'. f_equal. lia.
Qed.

(* the element returned for index (i / B, i mod B) is element number i of the un-batched data *)
Theorem dataset_gather_correct {A} B (l : list A) i : 1 <= B ->
  dataset_gather (chunks B l) (Z.of_nat (i / B), Z.of_nat (i mod B)) = nth_error l i.
Proof. intro HB. unfold dataset_gather. apply (gather_from_chunks B l HB 0 i). Qed.

Theorem dataset_gather_fill {A} (batches : list (list A)) : dataset_gather batches fill_idx = None.
Proof.
  unfold dataset_gather. generalize 0. induction batches as [|c r IH]; intro b; [reflexivity|].
  cbn [gather_from]. unfold fill_idx at 1. cbn [fst].
  destruct (Z.eqb_spec (-1) (Z.of_nat b)) as [E|_]; [lia | apply IH].
Qed.

(* ------------------------------------------------------------------ batch-wise projection = projection *)
Lemma map2_nil_r {A B C} (f : A -> B -> C) a : map2 f a [] = [].
Proof. destruct a; reflexivity. Qed.

Lemma map2_firstn_skipn {A B C} (f : A -> B -> C) n a b :
  map2 f (firstn n a) (firstn n b) ++ map2 f (skipn n a) (skipn n b) = map2 f a b.
Proof.
  revert a b; induction n as [|n IH]; intros a b; [reflexivity|].
  destruct a as [|x a]; [reflexivity|]. destruct b as [|y b]; [cbn; apply map2_nil_r|].
  cbn. f_equal. apply IH.
Qed.

Lemma map2_chunks {A B C} (f : A -> B -> C) Bs a : 1 <= Bs -> forall b, length a = length b ->
  concat (map2 (map2 f) (chunks Bs a) (chunks Bs b)) = map2 f a b.
Proof.
  intro HB. pattern a. apply (chunks_ind _ Bs HB); clear a.
  - intros b _. reflexivity.
  - intros a Ha IH b Hlen.
    assert (Hb : b <> []) by (destruct a, b; cbn in *; congruence).
    rewrite (chunks_cons_step Bs a), (chunks_cons_step Bs b) by assumption.
    cbn [map2 concat]. rewrite IH by (rewrite !skipn_length; lia). apply map2_firstn_skipn.
Qed.

Lemma nth_error_map2 {A B C} (f : A -> B -> C) a b i z :
  nth_error (map2 f a b) i = Some z ->
  exists x y, nth_error a i = Some x /\ nth_error b i = Some y /\ z = f x y.
Proof.
  revert b i; induction a as [|x a IH]; intros [|y b] [|i] H; cbn in H; try discriminate.
  - injection H as <-. exists x, y. repeat split; reflexivity.
  - apply IH in H. exact H.
Qed.

(* ------------------------------------------------------------------ SimilarExamples *)
Definition bs_ok' (bs : option nat) : Prop := match bs with Some b => 1 <= b | None => True end.

Lemma eff_batch_pos bs n : bs_ok' bs -> 1 <= n -> 1 <= eff_batch bs n.
Proof. destruct bs as [b|]; cbn; intros; lia. Qed.

Section SimilarProofs.
Variable argsort : list ext -> list nat.
Hypothesis Hargsort : argsort_ok argsort.
Variable dist : list Qc -> list Qc -> Qc.
Variable proj : list Qc -> list Qc -> list Qc.
Context {L : Type}.
Variables (k : nat) (bs : option nat) (cases targets : list (list Qc)) (labels : list L) (q tq : list Qc).
Hypothesis Hbs : bs_ok' bs.
Hypothesis Hcases : 1 <= length cases.
Hypothesis Htargets : length targets = length cases.

Let B := eff_batch bs (length cases).
Let pcases := map2 proj cases targets.
Let found := knn_search argsort dist k B (chunks B pcases) (proj q tq).

Lemma HB : 1 <= B.
Proof. apply eff_batch_pos; assumption. Qed.

Lemma project_dataset_flat : project_dataset proj B cases targets = chunks B pcases.
Proof. unfold project_dataset. rewrite map2_chunks by (apply HB || (symmetry; exact Htargets)). reflexivity. Qed.

Lemma similar_one_found :
  similar_one argsort dist proj k bs cases targets labels q tq
  = map (fun e => {| ex_dist := fst e; ex_idx := snd e;
                     ex_case := dataset_gather (chunks B cases) (snd e);
                     ex_label := dataset_gather (chunks B labels) (snd e) |}) found.
Proof. unfold similar_one. fold B. rewrite project_dataset_flat. reflexivity. Qed.

Lemma keys_pcases : map (fun c => Fin (dist (proj q tq) c)) pcases = true_keys dist proj cases targets q tq.
Proof. unfold pcases, true_keys. exact (map_map2 (fun c => Fin (dist (proj q tq) c)) proj cases targets). Qed.

(* the returned distances are the k smallest true distances in the projected space *)
Theorem similar_distances :
  nearest_keys k (true_keys dist proj cases targets q tq)
               (map (@ex_dist L) (similar_one argsort dist proj k bs cases targets labels q tq)).
Proof.
  rewrite similar_one_found, map_map. cbn [ex_dist]. rewrite <- keys_pcases.
  apply (topk_keys argsort Hargsort k _ idx_pay fill_idx B pcases HB).
Qed.

Theorem similar_distances_closed :
  map (@ex_dist L) (similar_one argsort dist proj k bs cases targets labels q tq)
  = firstn k (isort (true_keys dist proj cases targets q tq) ++ repeat Inf k).
Proof.
  apply similar_distances. split.
  - apply Sorted_app_Inf, isort_sorted.
  - apply Permutation_app_tail, isort_perm.
Qed.

Theorem similar_sorted :
  Sorted ext_le (map (@ex_dist L) (similar_one argsort dist proj k bs cases targets labels q tq))
  /\ length (similar_one argsort dist proj k bs cases targets labels q tq) = k.
Proof.
  split.
  - rewrite similar_distances_closed. apply Sorted_firstn, Sorted_app_Inf, isort_sorted.
  - rewrite similar_one_found, map_length. apply topk_length. exact Hargsort.
Qed.

(* with k <= N no slot is a fill: all returned distances are finite *)
Theorem similar_all_finite : k <= length cases ->
  map (@ex_dist L) (similar_one argsort dist proj k bs cases targets labels q tq)
  = firstn k (isort (true_keys dist proj cases targets q tq))
  /\ Forall (fun d => is_fin d = true) (map (@ex_dist L) (similar_one argsort dist proj k bs cases targets labels q tq)).
Proof.
  intro Hk. rewrite similar_distances_closed.
  set (tk := true_keys dist proj cases targets q tq).
  assert (Hlen : length (isort tk) = length cases).
  { rewrite (Permutation_length (isort_perm tk)). unfold tk, true_keys. rewrite map2_length. lia. }
  rewrite firstn_app. replace (k - length (isort tk)) with 0 by lia. cbn [firstn]. rewrite app_nil_r.
  split; [reflexivity|]. rewrite Forall_forall. intros d Hd.
  rewrite <- (firstn_skipn k (isort tk)) in Hlen.
  assert (Hin : In d tk).
  { apply (Permutation_in _ (isort_perm tk)). rewrite <- (firstn_skipn k (isort tk)). apply in_or_app; left; exact Hd. }
  unfold tk, true_keys in Hin. rewrite map2_combine in Hin. apply in_map_iff in Hin.
  destruct Hin as [p [<- _]]. reflexivity.
Qed.

(* every returned example is a fill, or the ORIGINAL case number i with its label, found at index
   (i / B, i mod B), with the true distance between the projected query and the projected case *)
Theorem similar_examples_spec e :
  In e (similar_one argsort dist proj k bs cases targets labels q tq) ->
  (ex_dist e = Inf /\ ex_idx e = fill_idx /\ ex_case e = None /\ ex_label e = None)
  \/ exists i c t,
       nth_error cases i = Some c /\ nth_error targets i = Some t
       /\ ex_idx e = (Z.of_nat (i / B), Z.of_nat (i mod B)) /\ i mod B < B
       /\ ex_dist e = Fin (dist (proj q tq) (proj c t))
       /\ ex_case e = Some c /\ ex_label e = nth_error labels i.
Proof.
  rewrite similar_one_found. intro Hin. apply in_map_iff in Hin. destruct Hin as [en [<- Hen]].
  destruct (topk_structure argsort Hargsort k (fun c => Fin (dist (proj q tq) c)) idx_pay fill_idx B HB pcases)
    as [T1 [T2 [HU [Hres _]]]].
  unfold found, knn_search in Hen. rewrite Hres in Hen. apply in_map_iff in Hen. destruct Hen as [s [<- Hs]].
  assert (HsU : In s (universe k pcases)) by (apply (Permutation_in _ HU), in_or_app; left; exact Hs).
  apply universe_in in HsU. destruct HsU as [->|[i [c' [-> Hnth]]]].
  - left. cbn. rewrite !dataset_gather_fill. repeat split; reflexivity.
  - right. apply nth_error_map2 in Hnth. destruct Hnth as [c [t [Hc [Ht ->]]]].
    exists i, c, t. cbn [slot_entry ex_dist ex_idx ex_case ex_label fst snd idx_pay].
    unfold idx_pay. rewrite !dataset_gather_correct by apply HB. rewrite Hc.
    repeat split; try assumption; try reflexivity. apply Nat.mod_upper_bound. pose proof HB; lia.
Qed.

(* the returned set is exactly a set of k nearest cases: no case is returned twice and every case that is
   not returned is at least as far as every returned one *)
Theorem similar_minimal :
  exists T1 T2 : list (@slot (list Qc)),
    Permutation (T1 ++ T2) (universe k pcases)
    /\ found = map (slot_entry (fun c => Fin (dist (proj q tq) c)) idx_pay fill_idx B) T1
    /\ NoDup (slot_cases T1)
    /\ forall a b, In a T1 -> In b T2 ->
         ext_le (slot_key (fun c => Fin (dist (proj q tq) c)) idx_pay fill_idx B a)
                (slot_key (fun c => Fin (dist (proj q tq) c)) idx_pay fill_idx B b).
Proof.
  destruct (topk_structure argsort Hargsort k (fun c => Fin (dist (proj q tq) c)) idx_pay fill_idx B HB pcases)
    as [T1 [T2 [HU [Hres [_ Hmin]]]]].
  exists T1, T2. repeat split; try assumption. eapply structure_nodup; exact HU.
Qed.

(* readable form: a case is either returned (its index appears) or at least as far as every returned one *)
Theorem similar_minimal_cases i c t :
  nth_error cases i = Some c -> nth_error targets i = Some t ->
  (exists e, In e (similar_one argsort dist proj k bs cases targets labels q tq)
             /\ ex_idx e = (Z.of_nat (i / B), Z.of_nat (i mod B)))
  \/ (forall e, In e (similar_one argsort dist proj k bs cases targets labels q tq) ->
                ext_le (ex_dist e) (Fin (dist (proj q tq) (proj c t)))).
Proof.
  intros Hc Ht. rewrite similar_one_found.
  destruct similar_minimal as [T1 [T2 [HU [Hres [_ Hmin]]]]].
  assert (Hin : In (Some (i, proj c t)) (T1 ++ T2)).
  { apply (Permutation_in _ (Permutation_sym HU)). unfold universe. apply in_or_app; right.
    apply in_map. apply (nth_error_combine_seq pcases 0 i). unfold pcases.
    apply nth_error_map2_some; assumption. }
  apply in_app_or in Hin. destruct Hin as [Hin|Hin].
  - left. eexists. split.
    + apply in_map. rewrite Hres. apply in_map. exact Hin.
    + reflexivity.
  - right. intros e He. apply in_map_iff in He. destruct He as [en [<- Hen]].
    rewrite Hres in Hen. apply in_map_iff in Hen. destruct Hen as [a [<- Ha]].
    exact (Hmin a _ Ha Hin).
Qed.
End SimilarProofs.

(* the distances do not depend on the batch size *)
Theorem similar_batch_invariant argsort argsort' dist proj {L} k bs bs' cases targets (labels : list L) q tq :
  argsort_ok argsort -> argsort_ok argsort' -> bs_ok' bs -> bs_ok' bs' -> 1 <= length cases ->
  length targets = length cases ->
  map (@ex_dist L) (similar_one argsort dist proj k bs cases targets labels q tq)
  = map (@ex_dist L) (similar_one argsort' dist proj k bs' cases targets labels q tq).
Proof. intros. rewrite !similar_distances_closed by assumption. reflexivity. Qed.
