(* C16/SortX.v — ssreflect/mathcomp file: the running top-k merge lemma for any total, transitive,
   antisymmetric order.  ksmall k s = the k smallest elements of s in increasing order. *)
From mathcomp Require Import all_ssreflect.
Set Implicit Arguments. Unset Strict Implicit. Unset Printing Implicit Defensive.
Section TopK.
Variable (T : eqType) (le : rel T).
Hypothesis le_total : total le.
Hypothesis le_trans : transitive le.
Hypothesis le_anti : antisymmetric le.
Definition ksmall k (s : seq T) := take k (sort le s).

Lemma sort_perm_eq s1 s2 : perm_eq s1 s2 -> sort le s1 = sort le s2.
Proof.
move=> p; apply: (@sorted_eq _ le) => //; try exact: sort_sorted.
by rewrite perm_sort (permPl p) perm_sym perm_sort.
Qed.

Lemma nle_le x y : ~~ le x y -> le y x.
Proof. by move=> nxy; have := le_total x y; rewrite (negbTE nxy). Qed.

(* a sorted list is its "<= y" part followed by its "> y" part, and y fits in between *)
Lemma sorted_split_insert s y : sorted le s ->
  sort le (y :: s) = filter (le^~ y) s ++ y :: filter (predC (le^~ y)) s.
Proof.
move=> ss; apply: (@sorted_eq _ le) => //; first exact: sort_sorted.
- rewrite (sorted_pairwise le_trans) pairwise_cat /= -!(sorted_pairwise le_trans).
  rewrite !(sorted_filter le_trans) // andbT /=.
  apply/andP; split.
  + apply/allrelP => a b; rewrite mem_filter inE => /andP[ay _] /orP[/eqP->//|].
    by rewrite mem_filter /= => /andP[/nle_le yb _]; apply: le_trans yb.
  + by apply/allP => b; rewrite mem_filter /= => /andP[/nle_le].
- rewrite perm_sort perm_sym perm_catC /= perm_cons perm_catC.
  by rewrite perm_filterC.
Qed.

Lemma sorted_split s y : sorted le s ->
  s = filter (le^~ y) s ++ filter (predC (le^~ y)) s.
Proof.
move=> ss; apply: (@sorted_eq _ le) => //.
- rewrite (sorted_pairwise le_trans) pairwise_cat -!(sorted_pairwise le_trans).
  rewrite !(sorted_filter le_trans) // !andbT.
  apply/allrelP => a b; rewrite !mem_filter /= => /andP[ay _] /andP[/nle_le yb _].
  exact: le_trans yb.
- by rewrite perm_sym perm_filterC.
Qed.

(* S: inserting an element dominated by at least k others leaves the k smallest unchanged *)
Lemma ksmall_cons k y v : k <= count (le^~ y) v -> ksmall k (y :: v) = ksmall k v.
Proof.
move=> kc; rewrite /ksmall.
have -> : sort le (y :: v) = sort le (y :: sort le v).
  by apply: sort_perm_eq; rewrite perm_cons perm_sym perm_sort.
have ss := sort_sorted le_total v.
rewrite (sorted_split_insert y ss) [in RHS](sorted_split y ss).
have sz : k <= size (filter (le^~ y) (sort le v)).
  by rewrite size_filter; rewrite (permP (permEl (perm_sort le v))).
by rewrite !takel_cat.
Qed.

Lemma ksmall_cat_dominated k w u :
  all (fun y => k <= count (le^~ y) u) w -> ksmall k (w ++ u) = ksmall k u.
Proof.
elim: w => [//|y w IH] /= /andP[ky kw].
rewrite ksmall_cons ?IH // count_cat.
exact: leq_trans ky (leq_addl _ _).
Qed.

(* the running top-k merge: keeping only the k best of what was seen so far loses nothing *)
Theorem ksmall_merge k a b : ksmall k (ksmall k a ++ b) = ksmall k (a ++ b).
Proof.
set sa := sort le a.
have ss : sorted le sa by exact: sort_sorted.
have -> : ksmall k (a ++ b) = ksmall k (drop k sa ++ (take k sa ++ b)).
  rewrite /ksmall; congr take; apply: sort_perm_eq.
  rewrite catA perm_cat2r perm_sym perm_catC cat_take_drop; exact: permEl (perm_sort le a).
rewrite [RHS]ksmall_cat_dominated //.
apply/allP => y yd.
have ksz : k <= size sa.
  by case: (leqP k (size sa)) => // lt; move: yd; rewrite drop_oversize // ltnW.
have szt : size (take k sa) = k by rewrite size_takel.
rewrite count_cat; apply: leq_trans (leq_addr _ _).
rewrite -{1}szt -size_filter; apply: eq_leq; congr size; symmetry; apply/all_filterP.
apply/allP => x xt.
have: sorted le (take k sa ++ drop k sa) by rewrite cat_take_drop.
rewrite (sorted_pairwise le_trans) pairwise_cat => /and3P[/allrelP H _ _].
exact: H.
Qed.
End TopK.

