(* C20/Proofs.v — CRAFT: the executable model (C20/Model.v) equals the reference definitions (C20/Spec.v) for every
   batch size, shape, number of concepts, nb_design; plus the algebraic consequences listed by property C20.
   The Jansen estimator, the replicated design and their lemmas come from C08. *)
From Xpl Require Import Base.Tensor C20.Spec C08.Proofs.
From Coq Require Import Arith Lqa.
Close Scope Qc_scope. Open Scope nat_scope.

(* ================= part 1: batching and reshapes ================= *)
Lemma batch_inference_rowwise {X Y} (Fb : list X -> list Y) (f : X -> Y) bs xs :
  1 <= bs -> rowwise Fb f -> batch_inference Fb bs xs = map f xs.
Proof. intros Hb HF. unfold batch_inference. apply batched_rowwise; assumption. Qed.

(* cutting a concatenation of blocks of b elements into chunks of b gives the blocks back *)
Lemma chunks_concat {T} b (ll : list (list T)) :
  1 <= b -> (forall l, In l ll -> length l = b) -> chunks b (concat ll) = ll.
Proof.
  intros Hb. induction ll as [|l ll IH]; intro Hl; [reflexivity|].
  assert (Hlen : length l = b) by (apply Hl; left; reflexivity).
  subst b. cbn [concat]. rewrite chunks_cons_step; [| exact Hb |].
  - rewrite firstn_app, Nat.sub_diag, firstn_O, app_nil_r, firstn_all.
    rewrite skipn_app, skipn_all, Nat.sub_diag. cbn [skipn app]. f_equal.
    apply IH. intros; apply Hl; right; assumption.
  - destruct l; [cbn [length] in Hb; lia | discriminate].
Qed.

Lemma concat_length_blocks {T} b (ll : list (list T)) :
  (forall l, In l ll -> length l = b) -> length (concat ll) = length ll * b.
Proof.
  induction ll as [|l ll IH]; intro Hl; [reflexivity|].
  cbn [concat length]. rewrite app_length, IH by (intros; apply Hl; right; assumption).
  rewrite (Hl l) by (left; reflexivity). lia.
Qed.

(* np.reshape (N, H, W, K) -> (N*H*W, K) -> (N, H, W, K) is the identity *)
Lemma reshape_flatten_nhw {T} H W (a : list (list (list T))) :
  1 <= H -> 1 <= W -> shape_nhw H W a -> reshape_nhw H W (flatten_nhw a) = a.
Proof.
  intros HH HW Hs. unfold reshape_nhw, flatten_nhw.
  rewrite chunks_concat.
  - rewrite map_map. rewrite <- (map_id a) at 2. apply map_ext_in. intros x Hx.
    apply chunks_concat; [exact HW | apply (proj2 (Hs x Hx))].
  - nia.
  - intros l Hl. apply in_map_iff in Hl. destruct Hl as [x [<- Hx]].
    rewrite (concat_length_blocks W) by apply (proj2 (Hs x Hx)). rewrite (proj1 (Hs x Hx)). reflexivity.
Qed.

Lemma flatten_nhw_map {T U} (f : T -> U) (a : list (list (list T))) :
  flatten_nhw (map (map (map f)) a) = map f (flatten_nhw a).
Proof.
  unfold flatten_nhw. rewrite concat_map, !map_map. f_equal. apply map_ext. intro x.
  rewrite concat_map. reflexivity.
Qed.

Lemma shape_nhw_map {T U} (f : T -> U) H W (a : list (list (list T))) :
  shape_nhw H W a -> shape_nhw H W (map (map (map f)) a).
Proof.
  intros Hs x Hx. apply in_map_iff in Hx. destruct Hx as [x0 [<- Hx0]].
  rewrite map_length. split; [apply (Hs x0 Hx0)|].
  intros r Hr. apply in_map_iff in Hr. destruct Hr as [r0 [<- Hr0]]. rewrite map_length.
  apply (proj2 (Hs x0 Hx0)); assumption.
Qed.

Lemma chw_to_hwc_shape C H W raws : shape_nhw H W (map (chw_to_hwc C H W) raws).
Proof.
  intros x Hx. apply in_map_iff in Hx. destruct Hx as [raw [<- _]]. unfold chw_to_hwc.
  rewrite map_length, seq_length. split; [reflexivity|].
  intros r Hr. apply in_map_iff in Hr. destruct Hr as [h [<- _]]. rewrite map_length, seq_length. reflexivity.
Qed.

Lemma chw_to_hwc_at C H W raw h w : h < H -> w < W ->
  nth w (nth h (chw_to_hwc C H W raw) []) [] = act_at C H W raw h w.
Proof.
  intros Hh Hw. unfold chw_to_hwc. rewrite nth_map_seq by exact Hh. rewrite nth_map_seq by exact Hw. reflexivity.
Qed.

Lemma nth_map_map {A B} (f : A -> B) (l : list (list A)) h : nth h (map (map f) l) [] = map f (nth h l []).
Proof. exact (map_nth (map f) l [] h). Qed.

Lemma nth_map_in {A B} (F : A -> B) l n d d' : n < length l -> nth n (map F l) d' = F (nth n l d).
Proof. intro H. rewrite (nth_indep _ d' (F d)) by (rewrite map_length; exact H). apply map_nth. Qed.

(* ================= part 2: transform ================= *)
Section TransformProofs.
Context {X : Type}.
Variables (G : list X -> list (list Qc)) (g : X -> list Qc) (nmf : list (list Qc) -> list (list Qc)).
Hypothesis HG : rowwise G g.

(* the batch size of the extractor is invisible, whatever scikit-learn's transform does with the matrix *)
Lemma transform_2d_batch_invariant bs bs' xs : 1 <= bs -> 1 <= bs' ->
  transform_2d G nmf bs xs = transform_2d G nmf bs' xs.
Proof. intros H1 H2. unfold transform_2d. rewrite !(batch_inference_rowwise G g) by assumption. reflexivity. Qed.

Lemma transform_4d_batch_invariant bs bs' C H W xs : 1 <= bs -> 1 <= bs' ->
  transform_4d G nmf bs C H W xs = transform_4d G nmf bs' C H W xs.
Proof.
  intros H1 H2. unfold transform_4d, latent_predict_4d.
  rewrite !(batch_inference_rowwise G g) by assumption. reflexivity.
Qed.

(* what scikit-learn receives: one row per (input, location), image-major then row-major *)
Lemma transform_4d_matrix bs C H W xs : 1 <= bs ->
  transform_4d G nmf bs C H W xs
  = reshape_nhw H W (nmf (flatten_nhw (map (fun x => chw_to_hwc C H W (g x)) xs))).
Proof.
  intro Hb. unfold transform_4d, latent_predict_4d. rewrite (batch_inference_rowwise G g) by assumption.
  rewrite map_map. reflexivity.
Qed.

Variable f : list Qc -> list Qc.
Hypothesis Hnmf : rowwise nmf f.

Lemma transform_2d_rowwise bs xs : 1 <= bs -> transform_2d G nmf bs xs = map (fun x => f (g x)) xs.
Proof. intro Hb. unfold transform_2d. rewrite (batch_inference_rowwise G g), Hnmf, map_map by assumption. reflexivity. Qed.

Lemma transform_4d_rowwise bs C H W xs : 1 <= bs -> 1 <= H -> 1 <= W ->
  transform_4d G nmf bs C H W xs = map (fun x => map (map f) (chw_to_hwc C H W (g x))) xs.
Proof.
  intros Hb HH HW. rewrite transform_4d_matrix by exact Hb. rewrite Hnmf.
  rewrite <- flatten_nhw_map. rewrite reshape_flatten_nhw; [rewrite map_map; reflexivity | exact HH | exact HW |].
  apply shape_nhw_map. rewrite <- (map_map g). apply chw_to_hwc_shape.
Qed.

(* location (n, h, w) of the result holds the coefficients of the activation at (n, h, w) *)
Lemma transform_reshape_roundtrip bs C H W xs n h w d : 1 <= bs -> n < length xs -> h < H -> w < W ->
  nth w (nth h (nth n (transform_4d G nmf bs C H W xs) []) []) [] = f (act_at C H W (g (nth n xs d)) h w).
Proof.
  intros Hb Hn Hh Hw. rewrite transform_4d_rowwise by lia.
  rewrite (nth_map_in _ xs n d []) by exact Hn. rewrite nth_map_map.
  assert (Hrow : length (nth h (chw_to_hwc C H W (g (nth n xs d))) []) = W).
  { unfold chw_to_hwc. rewrite nth_map_seq by exact Hh. rewrite map_length, seq_length. reflexivity. }
  rewrite (nth_map_in f _ w [] []) by (rewrite Hrow; exact Hw).
  rewrite chw_to_hwc_at by assumption. reflexivity.
Qed.
End TransformProofs.

(* ================= part 3: the crops of fit ================= *)
Lemma stride_pos p : 2 <= p -> 1 <= stride p.
Proof. intro Hp. unfold stride. apply Nat.div_le_lower_bound; lia. Qed.

Lemma crop_anchors_length H W p : length (crop_anchors H W p) = nblocks H p * nblocks W p.
Proof.
  unfold crop_anchors. rewrite flat_map_concat_map.
  rewrite (concat_length_blocks (nblocks W p)).
  - rewrite map_length, seq_length. reflexivity.
  - intros l Hl. apply in_map_iff in Hl. destruct Hl as [i [<- _]]. rewrite map_length, seq_length. reflexivity.
Qed.

(* one crop per (image, block row, block column) *)
Lemma crop_count_correct C H W p imgs :
  length (extract_patches C H W p imgs) = crop_count (length imgs) H W p.
Proof.
  unfold extract_patches, crop_count. rewrite flat_map_concat_map.
  rewrite (concat_length_blocks (nblocks H p * nblocks W p)).
  - rewrite map_length. reflexivity.
  - intros l Hl. apply in_map_iff in Hl. destruct Hl as [img [<- _]]. rewrite map_length. apply crop_anchors_length.
Qed.

(* block i exists along an axis of size d exactly when its window fits *)
Lemma nblocks_spec d p i : p <= d -> 1 <= stride p -> (i < nblocks d p <-> i * stride p + p <= d).
Proof.
  intros Hp Hs. unfold nblocks. set (s := stride p) in *.
  pose proof (Nat.div_mod (d - p) s ltac:(lia)) as E.
  pose proof (Nat.mod_upper_bound (d - p) s ltac:(lia)) as U.
  set (k := (d - p) / s) in *. set (r := (d - p) mod s) in *. split; intro K; nia.
Qed.

Lemma crop_anchors_spec H W p a b : p <= H -> p <= W -> 1 <= stride p ->
  (In (a, b) (crop_anchors H W p) <-> is_anchor H W p a b).
Proof.
  intros HpH HpW Hs. unfold crop_anchors, is_anchor. rewrite in_flat_map. split.
  - intros [i [Hi Hin]]. apply in_seq in Hi. apply in_map_iff in Hin. destruct Hin as [j [E Hj]].
    apply in_seq in Hj. injection E as <- <-.
    assert (Ki : i < nblocks H p) by lia. assert (Kj : j < nblocks W p) by lia.
    apply (nblocks_spec H p i HpH Hs) in Ki. apply (nblocks_spec W p j HpW Hs) in Kj.
    repeat split; [exists i; reflexivity | exists j; reflexivity | lia | lia].
  - intros [[i ->] [[j ->] [Ka Kb]]].
    apply (nblocks_spec H p i HpH Hs) in Ka. apply (nblocks_spec W p j HpW Hs) in Kb.
    exists i. split; [apply in_seq; lia|]. apply in_map_iff. exists j. split; [reflexivity | apply in_seq; lia].
Qed.

(* a crop is a (C, p, p) block and pixel (c, y, x) of the crop anchored at (a, b) is pixel (c, a + y, b + x) of the image *)
Lemma crop_as_seq C H W p img a b :
  crop C H W p img a b
  = map (fun k => nthq img ((k / (p * p)) * (H * W) + (a + (k mod (p * p)) / p) * W + (b + (k mod (p * p)) mod p)))
        (seq 0 (C * (p * p))).
Proof.
  unfold crop.
  rewrite (flat_map_ext _ (fun c => map (fun pos => nthq img (c * (H * W) + (a + pos / p) * W + (b + pos mod p)))
                                        (seq 0 (p * p)))).
  - apply (grid_flat (fun c pos => nthq img (c * (H * W) + (a + pos / p) * W + (b + pos mod p)))).
  - intro c. apply (grid_flat (fun y x => nthq img (c * (H * W) + (a + y) * W + (b + x)))).
Qed.

Lemma crop_length C H W p img a b : length (crop C H W p img a b) = C * (p * p).
Proof. rewrite crop_as_seq, map_length, seq_length. reflexivity. Qed.

Lemma crop_pixel C H W p img a b c y x : c < C -> y < p -> x < p ->
  nthq (crop C H W p img a b) (c * (p * p) + y * p + x) = nthq img (c * (H * W) + (a + y) * W + (b + x)).
Proof.
  intros Hc Hy Hx. rewrite crop_as_seq. unfold nthq at 1. rewrite nth_map_seq by nia.
  assert (Hpp : p * p <> 0) by nia. assert (Hp : p <> 0) by lia.
  replace (c * (p * p) + y * p + x) with (y * p + x + c * (p * p)) by lia.
  rewrite Nat.div_add, Nat.mod_add by exact Hpp.
  rewrite (Nat.div_small (y * p + x)), (Nat.mod_small (y * p + x)) by nia.
  replace (y * p + x) with (x + y * p) by lia.
  rewrite Nat.div_add, Nat.mod_add by exact Hp. rewrite Nat.div_small, Nat.mod_small by lia.
  reflexivity.
Qed.

(* ================= part 4: estimate_importance ================= *)
Open Scope Qc_scope.

Lemma flat_map_ext_in {A B} (f g : A -> list B) l : (forall a, In a l -> f a = g a) -> flat_map f l = flat_map g l.
Proof. intro H. rewrite !flat_map_concat_map. f_equal. apply map_ext_in. exact H. Qed.

(* the Jansen estimator applied to the values of a function on the replicated design A ++ B ++ C_0 ++ ... *)
Lemma jansen_on_design (f : list Qc -> Qc) n d A B : is_matrix n d A -> is_matrix n d B ->
  jansen (map f (replicated_design d A B)) n d = map (total_index f A B) (seq 0 d).
Proof.
  intros HA HB. pose proof HA as [HAl _]. pose proof HB as [HBl _].
  unfold replicated_design. rewrite build_as_concat, !map_app, concat_map, map_map.
  rewrite (jansen_formula (map f A) (map f B) (map (fun i => map f (c_block i A B)) (seq 0 d)) n d).
  - rewrite map_map. reflexivity.
  - rewrite map_length. exact HAl.
  - rewrite map_length. exact HBl.
  - rewrite map_length, seq_length. reflexivity.
  - intros c Hc. apply in_map_iff in Hc. destruct Hc as [i [<- _]]. rewrite map_length, c_block_length; lia.
Qed.

Lemma mean_axis0_map {T} R (g : T -> nat -> Qc) (l : list T) :
  mean_axis0 R (map (fun t => map (g t) (seq 0 R)) l)
  = map (fun i => qsum (map (fun t => g t i) l) / qn (length l)) (seq 0 R).
Proof.
  unfold mean_axis0. rewrite map_length. apply map_ext_in. intros i Hi. apply in_seq in Hi.
  rewrite map_map. f_equal. f_equal. apply map_ext. intro t. unfold nthq. apply nth_map_seq. lia.
Qed.

(* ---------- facts about the reference definition ---------- *)
Lemma total_index_nonneg f A B i : (2 <= length A)%nat -> 0 <= total_index f A B i.
Proof. intro H. apply jansen_nonneg. apply Vhat_nonneg. rewrite map_length. exact H. Qed.

Lemma importance_spec_nonneg fs A B i : (2 <= length A)%nat -> 0 <= importance_spec fs A B i.
Proof.
  intro H. unfold importance_spec. apply Qc_div_nonneg; [| apply qn_nonneg].
  apply qsum_nonneg. intros x Hx. apply in_map_iff in Hx. destruct Hx as [f [<- _]].
  apply total_index_nonneg. exact H.
Qed.

Lemma total_index_affine f f' k b A B i : (forall m, f' m = k * f m + b) -> k <> 0 -> A <> [] ->
  total_index f' A B i = total_index f A B i.
Proof.
  intros Hf Hk HA. unfold total_index.
  rewrite !(map_ext f' (fun m => k * f m + b) Hf). rewrite <- !(map_map f (fun y => k * y + b)).
  apply jansen_affine; [exact Hk | destruct A; [congruence | discriminate]].
Qed.

Lemma map2_const_l {X Y Z} (g : X -> Z) (a : list X) (b : list Y) : length a = length b ->
  map2 (fun x _ => g x) a b = map g a.
Proof. revert b; induction a as [|x a IH]; intros [|y b] H; cbn [length] in H; try lia; cbn [map2 map]; [reflexivity|].
  f_equal. apply IH. lia. Qed.

Lemma total_index_ignored f A B j : length A = length B -> ignores f j -> total_index f A B j = 0.
Proof.
  intros HL Hig. unfold total_index, c_block. rewrite map_map2.
  rewrite (map2_ext _ (fun ra _ => f ra)) by (intros; apply Hig).
  rewrite map2_const_l by exact HL. apply jansen_zero_inert.
Qed.

(* a zero row of the bank makes the rebuilt activation blind to the mask of that concept *)
Lemma dot_vmul_set_nth c u m j v : nthq c j = 0 -> dot (vmul u (set_nth j v m)) c = dot (vmul u m) c.
Proof.
  unfold dot, vmul, nthq. revert c u m. induction j as [|j IH]; intros c u m Hc.
  - destruct m as [|x m]; [reflexivity|]. destruct u as [|a u]; [reflexivity|]. destruct c as [|c0 c]; [reflexivity|].
    cbn [nth] in Hc. subst c0. cbn [set_nth map2 qsum]. ring.
  - destruct m as [|x m]; [reflexivity|]. destruct u as [|a u]; [reflexivity|]. destruct c as [|c0 c]; [reflexivity|].
    cbn [nth] in Hc. cbn [set_nth map2 qsum]. f_equal. apply IH. exact Hc.
Qed.

Lemma col_zero_row Wb j k : (forall k', nthq (nth j Wb []) k' = 0) -> nthq (col k Wb) j = 0.
Proof.
  intro Hz. unfold col, nthq. destruct (Nat.lt_ge_cases j (length Wb)) as [Hlt|Hge].
  - rewrite (nth_map_in _ Wb j [] 0) by exact Hlt. apply Hz.
  - apply nth_overflow. rewrite map_length. exact Hge.
Qed.

Lemma vecmat_zero_row F Wb u m j v : (forall k, nthq (nth j Wb []) k = 0) ->
  vecmat F (vmul u (set_nth j v m)) Wb = vecmat F (vmul u m) Wb.
Proof. intro Hz. unfold vecmat. apply map_ext. intro k. apply dot_vmul_set_nth. apply col_zero_row. exact Hz. Qed.

Lemma logit_2d_zero_row head Wb F cls u j : (forall k, nthq (nth j Wb []) k = 0) -> ignores (logit_2d head Wb F cls u) j.
Proof. intros Hz m v. unfold logit_2d. rewrite vecmat_zero_row by exact Hz. reflexivity. Qed.

Lemma logit_4d_zero_row head Wb F H W cls u j : (forall k, nthq (nth j Wb []) k = 0) ->
  ignores (logit_4d head Wb F H W cls u) j.
Proof.
  intros Hz m v. unfold logit_4d, masked_map. f_equal. f_equal.
  apply flat_map_ext. intro f. apply flat_map_ext. intro h. apply map_ext. intro w.
  rewrite vecmat_zero_row by exact Hz. reflexivity.
Qed.

(* ---------- model = reference definition ---------- *)
Section ImportanceProofs.
Variables (Hd : list (list Qc) -> list (list Qc)) (head : list Qc -> list Qc).
Hypothesis HHd : rowwise Hd head.
Variables (bs : nat) (Wb : list (list Qc)) (F cls n R : nat) (A B : list (list Qc)).
Hypothesis Hbs : (1 <= bs)%nat.
Hypothesis HA : is_matrix n R A.
Hypothesis HB : is_matrix n R B.
Let masks := replicated_design R A B.

Lemma stis_2d_spec coeff :
  stis_2d Hd bs Wb F cls n R masks coeff = map (total_index (logit_2d head Wb F cls coeff) A B) (seq 0 R).
Proof.
  unfold stis_2d, perturbed_2d. rewrite (batch_inference_rowwise Hd head) by assumption. rewrite !map_map.
  apply (jansen_on_design (logit_2d head Wb F cls coeff)); assumption.
Qed.

Lemma importance_2d_is_jansen coeffs :
  importance_2d Hd bs Wb F cls n R masks coeffs
  = map (importance_spec (map (logit_2d head Wb F cls) coeffs) A B) (seq 0 R).
Proof.
  unfold importance_2d. rewrite (map_ext _ _ stis_2d_spec).
  rewrite (mean_axis0_map R (fun coeff i => total_index (logit_2d head Wb F cls coeff) A B i)).
  apply map_ext. intro i. unfold importance_spec. rewrite map_map, map_length. reflexivity.
Qed.

(* 4-D: what the head receives is the map rebuilt location by location, every location masked by the same row *)
Lemma head_inputs_4d_spec H W coeff : (1 <= H)%nat -> (1 <= W)%nat ->
  length coeff = H -> (forall r, In r coeff -> length r = W) ->
  head_inputs_4d Wb F masks H W coeff = map (masked_map F H W Wb coeff) masks.
Proof.
  intros HH HW Hc Hr. unfold head_inputs_4d, perturbed_4d.
  set (P := fun m : list Qc => map (map (fun u => vmul u m)) coeff).
  rewrite <- (flatten_nhw_map (fun u => vecmat F u Wb)).
  rewrite reshape_flatten_nhw; [| exact HH | exact HW |].
  - rewrite !map_map. apply map_ext. intro m. unfold hwc_to_chw, masked_map, P.
    apply flat_map_ext. intro f. apply flat_map_ext_in. intros h Hh. apply in_seq in Hh.
    apply map_ext_in. intros w Hw. apply in_seq in Hw. f_equal.
    rewrite !nth_map_map.
    assert (Hrow : length (nth h coeff []) = W) by (apply Hr; apply nth_In; lia).
    rewrite map_map. apply (nth_map_in (fun x => vecmat F (vmul x m) Wb) (nth h coeff []) w [] []). lia.
  - apply shape_nhw_map. intros x Hx. apply in_map_iff in Hx. destruct Hx as [m [<- _]]. unfold P.
    rewrite map_length. split; [exact Hc|]. intros r Hin. apply in_map_iff in Hin. destruct Hin as [r0 [<- Hr0]].
    rewrite map_length. apply Hr. exact Hr0.
Qed.

Lemma stis_4d_spec H W coeff : (1 <= H)%nat -> (1 <= W)%nat ->
  length coeff = H -> (forall r, In r coeff -> length r = W) ->
  stis_4d Hd bs Wb F cls n R masks H W coeff = map (total_index (logit_4d head Wb F H W cls coeff) A B) (seq 0 R).
Proof.
  intros HH HW Hc Hr. unfold stis_4d. rewrite head_inputs_4d_spec by assumption.
  rewrite (batch_inference_rowwise Hd head) by assumption. rewrite !map_map.
  apply (jansen_on_design (logit_4d head Wb F H W cls coeff)); assumption.
Qed.

Lemma importance_4d_is_jansen H W coeffs : (1 <= H)%nat -> (1 <= W)%nat -> coeffs <> [] -> shape_nhw H W coeffs ->
  importance_4d Hd bs Wb F cls n R masks coeffs
  = map (importance_spec (map (logit_4d head Wb F H W cls) coeffs) A B) (seq 0 R).
Proof.
  intros HH HW Hne Hs. unfold importance_4d.
  assert (E1 : length (hd [] coeffs) = H).
  { destruct coeffs as [|c0 cs]; [congruence|]. apply (Hs c0). left. reflexivity. }
  assert (E2 : length (hd [] (hd [] coeffs)) = W).
  { destruct coeffs as [|c0 cs]; [congruence|]. cbn [hd] in *. destruct c0 as [|r0 c0]; [cbn [length] in E1; lia|].
    apply (proj2 (Hs (r0 :: c0) (or_introl eq_refl))). left. reflexivity. }
  rewrite E1, E2.
  rewrite (map_ext_in _ (fun coeff => map (total_index (logit_4d head Wb F H W cls coeff) A B) (seq 0 R))).
  - rewrite (mean_axis0_map R (fun coeff i => total_index (logit_4d head Wb F H W cls coeff) A B i)).
    apply map_ext. intro i. unfold importance_spec. rewrite map_map, map_length. reflexivity.
  - intros coeff Hin. apply stis_4d_spec; [exact HH | exact HW | apply (Hs coeff Hin) | apply (Hs coeff Hin)].
Qed.
End ImportanceProofs.

(* ---------- consequences, first on the reference definition (any family L of masked logits) ---------- *)
Lemma spec_affine {T} (L L' : T -> list Qc -> Qc) coeffs k b A B i :
  (forall u m, L' u m = k * L u m + b) -> k <> 0 -> A <> [] ->
  importance_spec (map L' coeffs) A B i = importance_spec (map L coeffs) A B i.
Proof.
  intros HL Hk HA. unfold importance_spec. rewrite !map_map, !map_length. f_equal. f_equal.
  apply map_ext. intro u. apply (total_index_affine (L u) (L' u) k b); [apply HL | exact Hk | exact HA].
Qed.

Lemma spec_zero {T} (L : T -> list Qc -> Qc) coeffs A B j :
  length A = length B -> (forall u, In u coeffs -> ignores (L u) j) -> importance_spec (map L coeffs) A B j = 0.
Proof.
  intros HL Hig. unfold importance_spec. rewrite map_map.
  rewrite (qsum_map_ext _ (fun _ => 0)) by (intros u Hu; apply total_index_ignored; [exact HL | apply Hig; exact Hu]).
  rewrite qsum_zero. unfold Qcdiv. ring.
Qed.

Lemma is_matrix_nonempty n d (A : list (list Qc)) : (1 <= n)%nat -> is_matrix n d A -> A <> [].
Proof. intros Hn [HA _] E. subst A. cbn [length] in HA. lia. Qed.

(* ---------- 2-D ---------- *)
Lemma importance_2d_nonneg Hd head bs Wb F cls n R A B coeffs v :
  rowwise Hd head -> (1 <= bs)%nat -> (2 <= n)%nat -> is_matrix n R A -> is_matrix n R B ->
  In v (importance_2d Hd bs Wb F cls n R (replicated_design R A B) coeffs) -> 0 <= v.
Proof.
  intros HHd Hbs Hn HA HB Hin. rewrite (importance_2d_is_jansen Hd head HHd bs Wb F cls n R A B Hbs HA HB) in Hin.
  apply in_map_iff in Hin. destruct Hin as [i [<- _]]. apply importance_spec_nonneg. destruct HA as [-> _]. exact Hn.
Qed.

Lemma importance_2d_affine Hd head Hd' head' k b bs Wb F cls n R A B coeffs :
  rowwise Hd head -> rowwise Hd' head' -> (forall a, nthq (head' a) cls = k * nthq (head a) cls + b) -> k <> 0 ->
  (1 <= bs)%nat -> (1 <= n)%nat -> is_matrix n R A -> is_matrix n R B ->
  importance_2d Hd' bs Wb F cls n R (replicated_design R A B) coeffs
  = importance_2d Hd bs Wb F cls n R (replicated_design R A B) coeffs.
Proof.
  intros HHd HHd' Hh Hk Hbs Hn HA HB.
  rewrite (importance_2d_is_jansen Hd head HHd bs Wb F cls n R A B Hbs HA HB).
  rewrite (importance_2d_is_jansen Hd' head' HHd' bs Wb F cls n R A B Hbs HA HB).
  apply map_ext. intro i. apply (spec_affine _ _ coeffs k b); [| exact Hk | exact (is_matrix_nonempty n R A Hn HA)].
  intros u m. unfold logit_2d. apply Hh.
Qed.

Lemma importance_2d_zero_ignored Hd head bs Wb F cls n R A B coeffs j :
  rowwise Hd head -> (1 <= bs)%nat -> is_matrix n R A -> is_matrix n R B -> (j < R)%nat ->
  (forall u, In u coeffs -> ignores (logit_2d head Wb F cls u) j) ->
  nthq (importance_2d Hd bs Wb F cls n R (replicated_design R A B) coeffs) j = 0.
Proof.
  intros HHd Hbs HA HB Hj Hig. rewrite (importance_2d_is_jansen Hd head HHd bs Wb F cls n R A B Hbs HA HB).
  unfold nthq. rewrite nth_map_seq by exact Hj. apply spec_zero; [destruct HA as [-> _]; destruct HB as [-> _]; reflexivity | exact Hig].
Qed.

Lemma importance_2d_zero_bank_row Hd head bs Wb F cls n R A B coeffs j :
  rowwise Hd head -> (1 <= bs)%nat -> is_matrix n R A -> is_matrix n R B -> (j < R)%nat ->
  (forall k, nthq (nth j Wb []) k = 0) ->
  nthq (importance_2d Hd bs Wb F cls n R (replicated_design R A B) coeffs) j = 0.
Proof.
  intros HHd Hbs HA HB Hj Hz. apply (importance_2d_zero_ignored Hd head); try assumption.
  intros u _. apply logit_2d_zero_row. exact Hz.
Qed.

(* ---------- 4-D ---------- *)
Lemma importance_4d_nonneg Hd head bs Wb F cls n R A B H W coeffs v :
  rowwise Hd head -> (1 <= bs)%nat -> (2 <= n)%nat -> is_matrix n R A -> is_matrix n R B ->
  (1 <= H)%nat -> (1 <= W)%nat -> coeffs <> [] -> shape_nhw H W coeffs ->
  In v (importance_4d Hd bs Wb F cls n R (replicated_design R A B) coeffs) -> 0 <= v.
Proof.
  intros HHd Hbs Hn HA HB HH HW Hne Hs Hin.
  rewrite (importance_4d_is_jansen Hd head HHd bs Wb F cls n R A B Hbs HA HB H W coeffs HH HW Hne Hs) in Hin.
  apply in_map_iff in Hin. destruct Hin as [i [<- _]]. apply importance_spec_nonneg. destruct HA as [-> _]. exact Hn.
Qed.

Lemma importance_4d_affine Hd head Hd' head' k b bs Wb F cls n R A B H W coeffs :
  rowwise Hd head -> rowwise Hd' head' -> (forall a, nthq (head' a) cls = k * nthq (head a) cls + b) -> k <> 0 ->
  (1 <= bs)%nat -> (1 <= n)%nat -> is_matrix n R A -> is_matrix n R B ->
  (1 <= H)%nat -> (1 <= W)%nat -> coeffs <> [] -> shape_nhw H W coeffs ->
  importance_4d Hd' bs Wb F cls n R (replicated_design R A B) coeffs
  = importance_4d Hd bs Wb F cls n R (replicated_design R A B) coeffs.
Proof.
  intros HHd HHd' Hh Hk Hbs Hn HA HB HH HW Hne Hs.
  rewrite (importance_4d_is_jansen Hd head HHd bs Wb F cls n R A B Hbs HA HB H W coeffs HH HW Hne Hs).
  rewrite (importance_4d_is_jansen Hd' head' HHd' bs Wb F cls n R A B Hbs HA HB H W coeffs HH HW Hne Hs).
  apply map_ext. intro i. apply (spec_affine _ _ coeffs k b); [| exact Hk | exact (is_matrix_nonempty n R A Hn HA)].
  intros u m. unfold logit_4d. apply Hh.
Qed.

Lemma importance_4d_zero_ignored Hd head bs Wb F cls n R A B H W coeffs j :
  rowwise Hd head -> (1 <= bs)%nat -> is_matrix n R A -> is_matrix n R B ->
  (1 <= H)%nat -> (1 <= W)%nat -> coeffs <> [] -> shape_nhw H W coeffs -> (j < R)%nat ->
  (forall u, In u coeffs -> ignores (logit_4d head Wb F H W cls u) j) ->
  nthq (importance_4d Hd bs Wb F cls n R (replicated_design R A B) coeffs) j = 0.
Proof.
  intros HHd Hbs HA HB HH HW Hne Hs Hj Hig.
  rewrite (importance_4d_is_jansen Hd head HHd bs Wb F cls n R A B Hbs HA HB H W coeffs HH HW Hne Hs).
  unfold nthq. rewrite nth_map_seq by exact Hj. apply spec_zero; [destruct HA as [-> _]; destruct HB as [-> _]; reflexivity | exact Hig].
Qed.

Lemma importance_4d_zero_bank_row Hd head bs Wb F cls n R A B H W coeffs j :
  rowwise Hd head -> (1 <= bs)%nat -> is_matrix n R A -> is_matrix n R B ->
  (1 <= H)%nat -> (1 <= W)%nat -> coeffs <> [] -> shape_nhw H W coeffs -> (j < R)%nat ->
  (forall k, nthq (nth j Wb []) k = 0) ->
  nthq (importance_4d Hd bs Wb F cls n R (replicated_design R A B) coeffs) j = 0.
Proof.
  intros HHd Hbs HA HB HH HW Hne Hs Hj Hz. apply (importance_4d_zero_ignored Hd head) with (H := H) (W := W); try assumption.
  intros u _. apply logit_4d_zero_row. exact Hz.
Qed.

(* ---------- the whole of estimate_importance: extractor, NMF transform, Halton draw AB, head ---------- *)
Lemma estimate_importance_2d_correct {X} (G : list X -> list (list Qc)) g nmf Hd head bs Wb F cls n R AB xs :
  rowwise G g -> rowwise Hd head -> (1 <= bs)%nat -> is_matrix n (2 * R) AB ->
  estimate_importance_2d G nmf Hd bs Wb F cls n R AB xs
  = map (importance_spec (map (logit_2d head Wb F cls) (nmf (map g xs))) (map (firstn R) AB) (map (skipn R) AB))
        (seq 0 R).
Proof.
  intros HG HHd Hbs HAB. destruct (sampler_halves n R AB HAB) as [HA HB].
  unfold estimate_importance_2d, replicated_sampler, transform_2d.
  rewrite (batch_inference_rowwise G g) by assumption.
  apply (importance_2d_is_jansen Hd head HHd bs Wb F cls n R _ _ Hbs HA HB).
Qed.

Lemma estimate_importance_4d_correct {X} (G : list X -> list (list Qc)) g nmf f Hd head bs C H W Wb F cls n R AB xs :
  rowwise G g -> rowwise nmf f -> rowwise Hd head -> (1 <= bs)%nat -> is_matrix n (2 * R) AB ->
  (1 <= H)%nat -> (1 <= W)%nat -> xs <> [] ->
  estimate_importance_4d G nmf Hd bs C H W Wb F cls n R AB xs
  = map (importance_spec (map (fun x => logit_4d head Wb F H W cls (map (map f) (chw_to_hwc C H W (g x)))) xs)
                         (map (firstn R) AB) (map (skipn R) AB))
        (seq 0 R).
Proof.
  intros HG Hnmf HHd Hbs HAB HH HW Hne. destruct (sampler_halves n R AB HAB) as [HA HB].
  unfold estimate_importance_4d, replicated_sampler.
  rewrite (transform_4d_rowwise G g nmf HG f Hnmf) by assumption.
  rewrite (importance_4d_is_jansen Hd head HHd bs Wb F cls n R _ _ Hbs HA HB H W).
  - rewrite map_map. reflexivity.
  - exact HH.
  - exact HW.
  - destruct xs; [congruence | discriminate].
  - rewrite <- (map_map (fun x => chw_to_hwc C H W (g x)) (map (map f))). apply shape_nhw_map.
    rewrite <- (map_map g). apply chw_to_hwc_shape.
Qed.

Close Scope Qc_scope. Open Scope nat_scope.
(* ================= part 5: locations of a reshaped matrix (no assumption on scikit-learn's transform) ================= *)
Lemma nth_skipn {T} (l : list T) k j d : nth j (skipn k l) d = nth (k + j) l d.
Proof. revert l; induction k as [|k IH]; intro l; [reflexivity|]. destruct l as [|x l]; [destruct j; reflexivity|]. cbn [skipn plus nth]. apply IH. Qed.

Lemma nth_firstn_lt {T} (l : list T) b j d : j < b -> nth j (firstn b l) d = nth j l d.
Proof. revert l j; induction b as [|b IH]; intros l j Hj; [lia|]. destruct l as [|x l]; [reflexivity|].
  destruct j as [|j]; [reflexivity|]. cbn [firstn nth]. apply IH. lia. Qed.

Lemma skipn_add {T} (l : list T) a b : skipn a (skipn b l) = skipn (b + a) l.
Proof. revert l; induction b as [|b IH]; intro l; [reflexivity|]. destruct l as [|x l]; [rewrite !skipn_nil; reflexivity|]. cbn [skipn plus]. apply IH. Qed.

Lemma nth_chunks {T} b (l : list T) i : 1 <= b -> i * b < length l ->
  nth i (chunks b l) [] = firstn b (skipn (i * b) l).
Proof.
  intro Hb. revert l. induction i as [|i IH]; intros l Hi.
  - rewrite chunks_cons_step by first [exact Hb | destruct l; [cbn [length] in Hi; lia | discriminate]]. reflexivity.
  - rewrite chunks_cons_step by first [exact Hb | destruct l; [cbn [length] in Hi; lia | discriminate]].
    cbn [nth]. rewrite IH by (rewrite skipn_length; lia). rewrite skipn_add. f_equal.
Qed.

Lemma reshape_nhw_location {T} H W (rows : list T) n h w d : 1 <= H -> 1 <= W ->
  (n + 1) * (H * W) <= length rows -> h < H -> w < W ->
  nth w (nth h (nth n (reshape_nhw H W rows) []) []) d = nth (n * (H * W) + h * W + w) rows d.
Proof.
  intros HH HW Hlen Hh Hw. unfold reshape_nhw.
  rewrite (map_nth (chunks W) (chunks (H * W) rows) [] n : nth n (map (chunks W) (chunks (H * W) rows)) [] = _).
  assert (Hhw : 1 <= H * W) by nia.
  assert (Hn : n * (H * W) < length rows) by lia.
  rewrite (nth_chunks (H * W) rows n Hhw Hn).
  assert (Hblk : length (firstn (H * W) (skipn (n * (H * W)) rows)) = H * W).
  { rewrite firstn_length, skipn_length. lia. }
  assert (Hh2 : h * W < length (firstn (H * W) (skipn (n * (H * W)) rows))) by (rewrite Hblk; nia).
  rewrite (nth_chunks W _ h HW Hh2).
  rewrite nth_firstn_lt by exact Hw. rewrite nth_skipn. rewrite nth_firstn_lt by nia. rewrite nth_skipn.
  f_equal. lia.
Qed.

Lemma flatten_nhw_length {T} H W (a : list (list (list T))) : shape_nhw H W a -> length (flatten_nhw a) = length a * (H * W).
Proof.
  intro Hs. unfold flatten_nhw. rewrite (concat_length_blocks (H * W)); [rewrite map_length; reflexivity|].
  intros l Hl. apply in_map_iff in Hl. destruct Hl as [x [<- Hx]].
  rewrite (concat_length_blocks W) by apply (proj2 (Hs x Hx)). rewrite (proj1 (Hs x Hx)). reflexivity.
Qed.

(* for ANY matrix function nmf that returns one row per row: location (n, h, w) of transform(x) is the row of the result
   at the position where the activation vector of (n, h, w) was handed over *)
Lemma transform_4d_location {X} (G : list X -> list (list Qc)) g nmf bs C H W (xs : list X) n h w d :
  rowwise G g -> (forall M, length (nmf M) = length M) ->
  1 <= bs -> 1 <= H -> 1 <= W -> n < length xs -> h < H -> w < W ->
  let M := flatten_nhw (map (fun x => chw_to_hwc C H W (g x)) xs) in
  let k := n * (H * W) + h * W + w in
  nth w (nth h (nth n (transform_4d G nmf bs C H W xs) []) []) [] = nth k (nmf M) [] /\
  nth k M [] = act_at C H W (g (nth n xs d)) h w.
Proof.
  intros HG Hlen Hb HH HW Hn Hh Hw M k.
  assert (Hs : shape_nhw H W (map (fun x => chw_to_hwc C H W (g x)) xs))
    by (rewrite <- (map_map g); apply chw_to_hwc_shape).
  assert (HM : length M = length xs * (H * W)) by (unfold M; rewrite (flatten_nhw_length H W), map_length by exact Hs; reflexivity).
  split.
  - rewrite (transform_4d_matrix G g nmf HG) by exact Hb. fold M. unfold k.
    apply reshape_nhw_location; try assumption. rewrite Hlen, HM. nia.
  - unfold k. rewrite <- (reshape_nhw_location H W M n h w []) by first [assumption | rewrite HM; nia].
    unfold M. rewrite reshape_flatten_nhw by assumption.
    rewrite (nth_map_in _ xs n d []) by exact Hn. apply chw_to_hwc_at; assumption.
Qed.
