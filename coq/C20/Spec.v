(* C20/Spec.v — property C20 in its own words: no batching, no reshape, no stacked output vector.

   transform : location (n, h, w) of the result holds the NMF coefficients of the activation at (n, h, w).
   importance: the importance of concept i is the mean, over the inputs, of Jansen's total Sobol index (C08/Spec.v:
               jansen_spec) of the function  mask |-> class logit of the activation rebuilt from the masked coefficients,
               with respect to coordinate i of the mask, on the replicated design (A, B): f(A) against f(C_i), C_i = A with
               column i taken from B (C08: c_block, characterised by C08_design_structure).
   crops     : the p x p windows anchored at the multiples of s = floor(0.8 p) that fit in the image. *)
From Xpl Require Export C20.Model C08.Spec.
Open Scope Qc_scope.

(* ------------------------------------------------------------------ transform *)
(* the activation vector at location (h, w) of one channels-first (C, H, W) flat tensor *)
Definition act_at (C H W : nat) (raw : list Qc) (h w : nat) : list Qc :=
  map (fun c => nthq raw (c * (H * W) + h * W + w)%nat) (seq 0 C).

(* a matrix function that treats every row on its own *)
Definition rowwise {A B} (Fb : list A -> list B) (f : A -> B) : Prop := forall c, Fb c = map f c.

(* a (N, H, W, _) nested array *)
Definition shape_nhw {T} (H W : nat) (a : list (list (list T))) : Prop :=
  forall x, In x a -> length x = H /\ forall r, In r x -> length r = W.

(* ------------------------------------------------------------------ the masked logit *)
(* 2-D: the class logit of the activation rebuilt from the coefficients u masked by m: head((u * m) @ W)[cls] *)
Definition logit_2d (head : list Qc -> list Qc) (Wb : list (list Qc)) (F cls : nat) (u m : list Qc) : Qc :=
  nthq (head (vecmat F (vmul u m) Wb)) cls.

(* 4-D: the activation map rebuilt from the coefficient map u (H, W, R), every location masked by the same m;
   entry (f, h, w) = sum_r u[h][w][r] m[r] W[r][f], in the channels-first layout the head receives *)
Definition masked_map (F H W : nat) (Wb : list (list Qc)) (u : list (list (list Qc))) (m : list Qc) : list Qc :=
  flat_map (fun f => flat_map (fun h => map (fun w =>
     nthq (vecmat F (vmul (nth w (nth h u []) []) m) Wb) f) (seq 0 W)) (seq 0 H)) (seq 0 F).
Definition logit_4d (head : list Qc -> list Qc) (Wb : list (list Qc)) (F H W cls : nat)
  (u : list (list (list Qc))) (m : list Qc) : Qc :=
  nthq (head (masked_map F H W Wb u m)) cls.

(* ------------------------------------------------------------------ total Sobol index, importance *)
(* Jansen's estimate of the total index of f w.r.t. coordinate i on the replicated design (A, B) *)
Definition total_index (f : list Qc -> Qc) (A B : list (list Qc)) (i : nat) : Qc :=
  jansen_spec (map f A) (map f (c_block i A B)).

(* mean over the inputs (each input gives its own function of the mask) *)
Definition importance_spec (fs : list (list Qc -> Qc)) (A B : list (list Qc)) (i : nat) : Qc :=
  qsum (map (fun f => total_index f A B i) fs) / qn (length fs).

(* f does not look at coordinate j of the mask *)
Definition ignores (f : list Qc -> Qc) (j : nat) : Prop := forall m v, f (set_nth j v m) = f m.

(* ------------------------------------------------------------------ crops *)
Close Scope Qc_scope. Open Scope nat_scope.
(* (a, b) is the top-left corner of a crop: multiples of the stride, window inside the image *)
Definition is_anchor (H W p a b : nat) : Prop :=
  (exists i, a = i * stride p) /\ (exists j, b = j * stride p) /\ a + p <= H /\ b + p <= W.
