(* C20/Model.v — executable transcription of xplique/concepts/craft.py + craft_torch.py (no proofs here)

   craft_torch.py
     _batch_inference(model, dataset, batch_size, resize, device):
        nb_batchs = ceil(len(dataset) / batch_size); start_ids = [i*batch_size for i in range(nb_batchs)]
        for i in start_ids: batch = dataset[i:i+batch_size]; (resize: library bilinear) results.append(model(batch))
        return torch.cat(results)
     _latent_predict(inputs, resize=None):
        activations = _batch_inference(input_to_latent_model, inputs, batch_size, resize)
        if len(activations.shape) == 4: activations = activations.permute(0, 2, 3, 1)    # (N,C,H,W) -> (N,H,W,C)
     _logit_predict(activations):
        a = torch.from_numpy(activations)
        if len(a.shape) == 4: a = a.permute(0, 3, 1, 2)                                  # (N,H,W,C) -> (N,C,H,W)
        return _batch_inference(latent_to_logit_model, a, batch_size, None)
     _extract_patches(inputs):
        strides = int(patch_size * 0.80)
        patches = unfold(inputs, kernel_size=patch_size, stride=strides)                 # (N, C*p*p, L)
        patches = patches.transpose(1, 2).contiguous().view(-1, C, patch_size, patch_size)
        activations = _latent_predict(patches, resize=image_size); (4-D: mean over (1, 2))
   craft.py
     fit(inputs, class_id): crops, activations = _extract_patches(inputs)
        reducer = NMF(n_components=number_of_concepts, alpha_W=1e-2); crops_u = reducer.fit_transform(activations)
        concept_bank_w = reducer.components_.astype(np.float32)                          # library (scikit-learn)
     transform(inputs):
        activations = _latent_predict(inputs); is_4d = len(activations.shape) == 4
        if is_4d: original_shape = activations.shape[:-1]; activations = np.reshape(activations, (-1, C))
        coeffs_u = reducer.transform(activations)                                        # library (scikit-learn)
        if is_4d: coeffs_u = np.reshape(coeffs_u, original_shape + (coeffs_u.shape[-1],))
     estimate_importance(inputs, nb_design):
        coeffs_u = self.transform(inputs)
        masks = HaltonSequenceRS()(number_of_concepts, nb_design = nb_design)            # C08: replicated design
        2-D: for coeff in coeffs_u:
               u_perturbated = coeff[None, :] * masks;  a_perturbated = u_perturbated @ concept_bank_w
               y_pred = _logit_predict(a_perturbated)[:, class_id];  stis = JansenEstimator()(masks, y_pred, nb_design)
        4-D: for coeff in coeffs_u:
               u_perturbated = coeff[None, :] * masks[:, None, None, :]
               a_perturbated = np.reshape(u_perturbated, (-1, coeff.shape[-1])) @ concept_bank_w
               a_perturbated = np.reshape(a_perturbated, (len(masks), coeffs_u.shape[1], coeffs_u.shape[2], -1))
               y_pred = _logit_predict(a_perturbated)[:, class_id];  stis = estimator(masks, y_pred, nb_design)
        importances = np.mean(importances, 0)

   Library calls that are arguments here: the two torch models (batch functions G and Hd on flat per-sample tensors, in
   the memory layout torch hands them: channels-first), scikit-learn's NMF transform (a matrix function), the NMF fit
   (its outputs U, W are inputs), the Halton draw AB (n rows, 2R columns), the bilinear resize of the crops (the model
   of fit stops at the crops).  The replicated design and the Jansen estimator are those of C08/Model.v. *)
From Xpl Require Export Base.ListX Base.Families C08.Model.
Close Scope Qc_scope. Open Scope nat_scope.

(* ------------------------------------------------------------------ batching, layouts *)
(* _batch_inference: consecutive slices of batch_size samples, results concatenated *)
Definition batch_inference {X Y} (F : list X -> list Y) (bs : nat) (xs : list X) : list Y :=
  concat (map F (chunks bs xs)).

(* one sample (C,H,W) flat, channels-first --permute(0,2,3,1)--> nested [h][w][c] *)
Definition chw_to_hwc (C H W : nat) (raw : list Qc) : list (list (list Qc)) :=
  map (fun h => map (fun w => map (fun c => nthq raw (c * (H * W) + h * W + w)) (seq 0 C)) (seq 0 W)) (seq 0 H).

(* one sample nested [h][w][c] --permute(0,3,1,2)--> (C,H,W) flat, channels-first *)
Definition hwc_to_chw (C H W : nat) (a : list (list (list Qc))) : list Qc :=
  flat_map (fun c => flat_map (fun h => map (fun w => nthq (nth w (nth h a []) []) c) (seq 0 W)) (seq 0 H)) (seq 0 C).

(* np.reshape of an (M, K) matrix to (M / (H*W), H, W, K) *)
Definition reshape_nhw {T} (H W : nat) (rows : list T) : list (list (list T)) :=
  map (chunks W) (chunks (H * W) rows).
(* np.reshape of (N, H, W, K) to (N*H*W, K) *)
Definition flatten_nhw {T} (a : list (list (list T))) : list T := concat (map (@concat T) a).

(* ------------------------------------------------------------------ fit: the crops *)
(* int(patch_size * 0.80): 0.8 in binary floating point is slightly above 4/5 and p * 0.8 is rounded to nearest, so the
   truncation is floor(4p/5) for every p < 2^50 *)
Definition stride (p : nat) : nat := (4 * p) / 5.
(* torch unfold: floor((d - p) / stride) + 1 block positions along an axis of size d *)
Definition nblocks (d p : nat) : nat := (d - p) / stride p + 1.
(* the crop with top-left corner (a, b): (C, p, p) flat, read from a (C, H, W) flat image *)
Definition crop (C H W p : nat) (img : list Qc) (a b : nat) : list Qc :=
  flat_map (fun c => flat_map (fun y => map (fun x => nthq img (c * (H * W) + (a + y) * W + (b + x))) (seq 0 p))
                                       (seq 0 p)) (seq 0 C).
(* top-left corners in the order of unfold: block rows, then block columns *)
Definition crop_anchors (H W p : nat) : list (nat * nat) :=
  flat_map (fun i => map (fun j => (i * stride p, j * stride p)) (seq 0 (nblocks W p))) (seq 0 (nblocks H p)).
(* unfold -> transpose(1,2) -> view(-1, C, p, p): image-major, then block position *)
Definition extract_patches (C H W p : nat) (imgs : list (list Qc)) : list (list Qc) :=
  flat_map (fun img => map (fun ab => crop C H W p img (fst ab) (snd ab)) (crop_anchors H W p)) imgs.
Definition crop_count (N H W p : nat) : nat := N * (nblocks H p * nblocks W p).

(* ------------------------------------------------------------------ transform *)
Section Transform.
Context {X : Type}.                                   (* an input image: opaque, only the extractor reads it *)
Variable G : list X -> list (list Qc).                (* input_to_latent_model on a batch: one flat activation per sample *)
Variable nmf : list (list Qc) -> list (list Qc).      (* reducer.transform on an (M, C) matrix: (M, R) matrix *)

(* 2-D activations (N, C) *)
Definition transform_2d (bs : nat) (xs : list X) : list (list Qc) := nmf (batch_inference G bs xs).

(* 4-D activations: the extractor returns (N, C, H, W) *)
Definition latent_predict_4d (bs C H W : nat) (xs : list X) : list (list (list (list Qc))) :=
  map (chw_to_hwc C H W) (batch_inference G bs xs).
Definition transform_4d (bs C H W : nat) (xs : list X) : list (list (list (list Qc))) :=
  let acts := latent_predict_4d bs C H W xs in
  (* original_shape = (N, H, W) *)
  reshape_nhw H W (nmf (flatten_nhw acts)).
End Transform.

(* ------------------------------------------------------------------ estimate_importance *)
Open Scope Qc_scope.

(* row vector times matrix: u @ Wb, Wb given by rows (R rows of F columns) *)
Definition vecmat (F : nat) (u : list Qc) (Wb : list (list Qc)) : list Qc :=
  map (fun k => dot u (col k Wb)) (seq 0 F).

(* np.mean(importances, 0) for a list of vectors of length R *)
Definition mean_axis0 (R : nat) (vs : list (list Qc)) : list Qc :=
  map (fun i => qsum (map (fun v => nthq v i) vs) / qn (length vs)) (seq 0 R).

Section Importance.
Variable Hd : list (list Qc) -> list (list Qc).       (* latent_to_logit_model on a batch of flat activations: logits *)
Variable bs : nat.                                    (* batch_size *)
Variable Wb : list (list Qc).                         (* concept_bank_w: R rows of F columns *)
Variable F : nat.                                     (* concept_bank_w.shape[1] *)
Variable cls : nat.                                   (* factorization.class_id *)
Variable n R : nat.                                   (* nb_design, number_of_concepts *)
Variable masks : list (list Qc).                      (* the replicated design: n * (R + 2) rows of R columns *)

(* a_perturbated for one coefficient vector: (M, F) *)
Definition perturbed_2d (coeff : list Qc) : list (list Qc) :=
  let u_perturbated := map (fun m => vmul coeff m) masks in
  map (fun u => vecmat F u Wb) u_perturbated.

Definition stis_2d (coeff : list Qc) : list Qc :=
  let y_pred := map (fun l => nthq l cls) (batch_inference Hd bs (perturbed_2d coeff)) in
  jansen y_pred n R.

Definition importance_2d (coeffs : list (list Qc)) : list Qc := mean_axis0 R (map stis_2d coeffs).

(* a_perturbated for one coefficient map coeff (H, W, R): (M, H, W, F), H and W read on coeffs_u *)
Definition perturbed_4d (H W : nat) (coeff : list (list (list Qc))) : list (list (list (list Qc))) :=
  let u_perturbated := map (fun m => map (map (fun u => vmul u m)) coeff) masks in           (* (M, H, W, R) *)
  let a_flat := map (fun u => vecmat F u Wb) (flatten_nhw u_perturbated) in                  (* (M*H*W, F) *)
  reshape_nhw H W a_flat.
(* what the head receives: channels-first flat tensors *)
Definition head_inputs_4d (H W : nat) (coeff : list (list (list Qc))) : list (list Qc) :=
  map (hwc_to_chw F H W) (perturbed_4d H W coeff).

Definition stis_4d (H W : nat) (coeff : list (list (list Qc))) : list Qc :=
  let y_pred := map (fun l => nthq l cls) (batch_inference Hd bs (head_inputs_4d H W coeff)) in
  jansen y_pred n R.

Definition importance_4d (coeffs : list (list (list (list Qc)))) : list Qc :=
  let H := length (hd [] coeffs) in                   (* coeffs_u.shape[1] *)
  let W := length (hd [] (hd [] coeffs)) in           (* coeffs_u.shape[2] *)
  mean_axis0 R (map (stis_4d H W) coeffs).
End Importance.

(* the whole of estimate_importance(inputs, nb_design): AB is the (n, 2R) Halton draw *)
Definition estimate_importance_2d {X} (G : list X -> list (list Qc)) (nmf Hd : list (list Qc) -> list (list Qc))
  (bs : nat) (Wb : list (list Qc)) (F cls n R : nat) (AB : list (list Qc)) (xs : list X) : list Qc :=
  importance_2d Hd bs Wb F cls n R (replicated_sampler R AB) (transform_2d G nmf bs xs).

Definition estimate_importance_4d {X} (G : list X -> list (list Qc)) (nmf Hd : list (list Qc) -> list (list Qc))
  (bs C H W : nat) (Wb : list (list Qc)) (F cls n R : nat) (AB : list (list Qc)) (xs : list X) : list Qc :=
  importance_4d Hd bs Wb F cls n R (replicated_sampler R AB) (transform_4d G nmf bs C H W xs).

(* ------------------------------------------------------------------ helpers for executions (harness) *)
(* a row-wise library function recorded as a table (argument row, result row); a missing key gives [] *)
Definition row_table (tab : list (list Qc * list Qc)) (r : list Qc) : list Qc :=
  match find (fun p => qlist_eqb (fst p) r) tab with Some p => snd p | None => [] end.
(* largest entry of a non-negative table (scale of the float32 comparison of a_perturbated) *)
Definition qmax_list (l : list Qc) : Qc := fold_left Qcmax l 0.
