(* C18/Model.v — executable transcription of the prototype searches (no proofs here)
   xplique/example_based/search_methods/{proto_greedy_search,mmd_critic_search,proto_dash_search}.py,
   xplique/example_based/prototypes.py (+ search_methods/knn.py for the local search over the prototypes).

   The dense kernel matrix K (n x n, K[r][c] = kernel_fn(x_r, x_c)) is an INPUT; the code only ever evaluates
   kernel_fn on pairs of batches / on (batch, last selected case), i.e. reads entries of K.
   The dataset is range(n) cut in batches of bs consecutive cases (tf.data batch, remainder batch kept).

   ---- ProtoGreedySearch.__set_kernel_matrix_column_means_and_diagonal
     col_sums = []; diag = []; row_sums = [0]; nb_samples = 0
     for bc, batch_col_cases in enumerate(cases_dataset):
         batch_col_sums = zeros(len(batch_col_cases))
         for br, batch_row_cases in enumerate(cases_dataset):
             if bc > br: continue
             batch_kernel = kernel_fn(batch_row_cases, batch_col_cases)          # (n_b_row, n_b_col)
             batch_col_sums = batch_col_sums + reduce_sum(batch_kernel, axis=0)
             if bc == br:
                 diag.append(diag_part(batch_kernel))
                 batch_col_sums = batch_col_sums + row_sums[br]
                 continue
             current_batch_row_sums = reduce_sum(batch_kernel, axis=1)
             if bc == 0: row_sums.append(current_batch_row_sums)
             else:       row_sums[br] += current_batch_row_sums
         col_sums.append(batch_col_sums); nb_samples += len(batch_col_cases)
     col_sums[-1] = pad(col_sums[-1], batch_size - len);  kernel_col_means = stack(col_sums) / nb_samples
     diag[-1] = pad(diag[-1], ...);                       kernel_diag = stack(diag)

   ---- ProtoGreedySearch.find_global_prototypes(nb_prototypes)
     selection_selection_kernel (np,np) = 0; samples_selection_kernel (nb,b,np) = 0; mask_of_selected (nb,b) = False
     selection_kernel_col_means (np) = 0; prototypes_weights (np) = 0
     for nb_selected in range(nb_prototypes):
         best_objective = -inf
         for batch_index, cases in enumerate(cases_dataset):
             candidates_batch_mask = not mask_of_selected[batch_index]
             if len(cases) < batch_size: candidates_batch_mask &= range(batch_size) < len(cases)
             if not any(candidates_batch_mask): continue
             if nb_selected > 0:
                 samples_selection_kernel[batch_index, :len, nb_selected-1] = kernel_fn(cases, last_selected)[:, 0]
                 batch_candidates_selection_kernel =
                     boolean_mask(samples_selection_kernel[batch_index, :len, :nb_selected], candidates_batch_mask[:len])
             else: batch_candidates_selection_kernel = None
             objectives, objectives_weights = _compute_batch_objectives(
                 kernel_diag[batch_index][mask], kernel_col_means[batch_index][mask],
                 selection_kernel_col_means[:nb_selected], batch_candidates_selection_kernel,
                 selection_selection_kernel[:nb_selected, :nb_selected])
             objectives_argmax = argmax(objectives); batch_best_objective = objectives[objectives_argmax]
             if batch_best_objective > best_objective:
                 best_objective = batch_best_objective; best_batch_index = batch_index
                 best_index = range(batch_size)[mask][objectives_argmax]; best_case = cases[best_index]
                 if objectives_weights is not None: best_weights = objectives_weights[objectives_argmax]
         last_selected = best_case; mask_of_selected[best_batch_index, best_index] = True
         prototypes_indices[nb_selected] = [best_batch_index, best_index]
         selection_selection_kernel[nb_selected, nb_selected] = kernel_diag[best_batch_index, best_index]
         if nb_selected > 0:
             new_selected = samples_selection_kernel[best_batch_index, best_index, :nb_selected]
             selection_selection_kernel[nb_selected, :nb_selected] = new_selected
             selection_selection_kernel[:nb_selected, nb_selected] = new_selected
         selection_kernel_col_means[nb_selected] = kernel_col_means[best_batch_index, best_index]
         if no _update_selection_weights: prototypes_weights[:nb_selected+1] = best_weights
         else: _update_selection_weights(selection_kernel_col_means[:nb_selected+1],
                     selection_selection_kernel[:nb_selected+1, :nb_selected+1], kernel_diag[best...], best_objective)
     prototypes_weights = prototypes_weights / reduce_sum(prototypes_weights)

   ---- _compute_batch_objectives (row-wise over the candidates of the batch)
     MMDCritic : objectives = 2*col_means - (diag + 2*sum(candidates_selection_kernel, axis=1)) / (|S|+1)
                 (|S| = 0, None: (.. = diag) / 1);  weights = ones(|S|+1)
     ProtoDash : objectives = col_means - matvec(candidates_selection_kernel, selection_kernel_col_means)
                 (None: col_means);   weights None;  _update_selection_weights:
                    if best_objective <= 0: prototypes_weights[nb-1] = 0
                    else prototypes_weights[:nb] = maximum(inv(K_SS + EPSILON*I) @ u, 0)      (non-exact update)
     ProtoGreedy: K = [[K_SS, k_c], [k_c^T, diag]];  mu = [selection_col_means, col_mean]
                  w = maximum(inv(K + EPSILON*I) @ mu, 0);  objectives = w.mu - 0.5 * w^T K w;  weights = w

   Representation choices (same values): the (np,np) / (np) zero-initialised variables read through [:nb_selected]
   slices are lists that grow by one entry per step; samples_selection_kernel keeps its (nb, b, np) table shape
   with explicit column assignment; `row_sums[0] = 0` (a scalar placeholder) is a zero vector; -inf is [None].
   Library calls: kernel_fn (the input K), tf.linalg.inv (exact Gauss-Jordan [qinv]), tf.argmax (first maximiser),
   tf.argsort of the local KNN (stable insertion sort; ties are guarded in the check). *)
From Xpl Require Export Base.ListX Base.Families.
Close Scope Qc_scope. Open Scope nat_scope.

(* ------------------------------------------------------------------ small list tools *)
Definition kent (K : list (list Qc)) (r c : nat) : Qc := nthq (nth r K []) c.
Definition enum {A} (l : list A) : list (nat * A) := combine (seq 0 (length l)) l.
(* l[i] = v (no effect out of range) *)
Fixpoint upd {A} (i : nat) (v : A) (l : list A) : list A :=
  match l with
  | [] => []
  | x :: r => match i with O => v :: r | S j => x :: upd j v r end
  end.
(* tf.boolean_mask / x[mask] *)
Fixpoint bmask {A} (l : list A) (m : list bool) : list A :=
  match l, m with
  | x :: l', b :: m' => if b then x :: bmask l' m' else bmask l' m'
  | _, _ => []
  end.
(* tf.pad(v, [[0, bs - len]]) *)
Definition pad (bs : nat) (v : list Qc) : list Qc := v ++ repeat 0%Qc (bs - length v).
(* only the last row is padded *)
Fixpoint pad_last (bs : nat) (t : list (list Qc)) : list (list Qc) :=
  match t with
  | [] => []
  | [x] => [pad bs x]
  | x :: r => x :: pad_last bs r
  end.
(* dataset.batch(bs) over the indices 0..n-1 *)
Definition batches (bs n : nat) : list (list nat) := chunks bs (seq 0 n).

(* tf.argmax: index of the first maximiser *)
Fixpoint argmax_from (l : list Qc) (i bi : nat) (bv : Qc) : nat :=
  match l with
  | [] => bi
  | x :: r => if Qcltb bv x then argmax_from r (S i) i x else argmax_from r (S i) bi bv
  end.
Definition argmax (l : list Qc) : nat := match l with [] => 0 | x :: r => argmax_from r 1 0 x end.

(* ------------------------------------------------------------------ triangular traversal *)
Open Scope Qc_scope.
Definition block_colsum (K : list (list Qc)) (rows cols : list nat) : list Qc :=
  map (fun c => qsum (map (fun r => kent K r c) rows)) cols.          (* reduce_sum(batch_kernel, axis=0) *)
Definition block_rowsum (K : list (list Qc)) (rows cols : list nat) : list Qc :=
  map (fun r => qsum (map (fun c => kent K r c) cols)) rows.          (* reduce_sum(batch_kernel, axis=1) *)
Definition block_diag (K : list (list Qc)) (rows cols : list nat) : list Qc := map2 (kent K) rows cols.

(* state of the double loop: (batch_col_sums, row_sums, diag) *)
Definition tri_inner (K : list (list Qc)) (bc : nat) (cols : list nat)
  (st : list Qc * list (list Qc) * list (list Qc)) (e : nat * list nat) :=
  let '(acc, rs, dg) := st in
  let (br, rows) := e in
  if (br <? bc)%nat then st                                             (* bc > br: continue *)
  else
    let acc1 := vadd acc (block_colsum K rows cols) in
    if (br =? bc)%nat then (vadd acc1 (nth br rs []), rs, dg ++ [block_diag K rows cols])
    else
      let cur := block_rowsum K rows cols in
      (acc1, (if (bc =? 0)%nat then rs ++ [cur] else upd br (vadd (nth br rs []) cur) rs), dg).

(* state of the outer loop: (col_sums, row_sums, diag) *)
Definition tri_outer (K : list (list Qc)) (B : list (list nat))
  (st : list (list Qc) * list (list Qc) * list (list Qc)) (e : nat * list nat) :=
  let '(cs, rs, dg) := st in
  let (bc, cols) := e in
  let '(acc, rs', dg') := fold_left (tri_inner K bc cols) (enum B) (vzero (length cols), rs, dg) in
  (cs ++ [acc], rs', dg').

Definition traverse (K : list (list Qc)) (B : list (list nat)) :=
  fold_left (tri_outer K B) (enum B) ([], [vzero (length (hd [] B))], []).

(* kernel_col_means, kernel_diag : (nb, b) tables *)
Definition col_means_table (K : list (list Qc)) (bs n : nat) : list (list Qc) :=
  let '(cs, _, _) := traverse K (batches bs n) in
  map (map (fun x => x / qn n)) (pad_last bs cs).
Definition diag_table (K : list (list Qc)) (bs n : nat) : list (list Qc) :=
  let '(_, _, dg) := traverse K (batches bs n) in pad_last bs dg.

(* ------------------------------------------------------------------ exact inverse (tf.linalg.inv) *)
Definition vaxpy (a : Qc) (x y : list Qc) : list Qc := map2 (fun xi yi => yi - a * xi) x y.  (* y - a x *)
(* Gauss-Jordan on an augmented matrix; [done] rows are already reduced, the pivot of column j is the first
   remaining row with a non-zero entry.  Returns None on a singular matrix. *)
Fixpoint pick_pivot (j : nat) (rows : list (list Qc)) : option (list Qc * list (list Qc)) :=
  match rows with
  | [] => None
  | r :: rest =>
      if Qceqb (nthq r j) 0 then
        match pick_pivot j rest with Some (p, others) => Some (p, r :: others) | None => None end
      else Some (r, rest)
  end.
Fixpoint gauss_jordan (fuel j : nat) (done todo : list (list Qc)) : option (list (list Qc)) :=
  match fuel with
  | O => Some done
  | S f =>
      match pick_pivot j todo with
      | None => None
      | Some (p, others) =>
          let p' := vscale (/ nthq p j) p in
          let elim := fun r => vaxpy (nthq r j) p' r in
          gauss_jordan f (S j) (map elim done ++ [p']) (map elim others)
      end
  end.
Definition identity (m : nat) : list (list Qc) :=
  map (fun i => map (fun j => if (i =? j)%nat then 1 else 0) (seq 0 m)) (seq 0 m).
Definition qinv (A : list (list Qc)) : option (list (list Qc)) :=
  let m := length A in
  match gauss_jordan m 0 [] (map2 (fun r e => r ++ e) A (identity m)) with
  | Some R => Some (map (skipn m) R)
  | None => None
  end.
Definition matvec (A : list (list Qc)) (v : list Qc) : list Qc := map (fun r => dot r v) A.
Definition add_eps (eps : Qc) (A : list (list Qc)) : list (list Qc) :=
  map2 (fun i r => map2 (fun j x => if (i =? j)%nat then x + eps else x) (seq 0 (length r)) r) (seq 0 (length A)) A.
(* maximum(inv(A + eps I) @ u, 0); zeros of the right length if singular (cannot happen for PSD A, eps > 0) *)
Definition opt_weights (eps : Qc) (A : list (list Qc)) (u : list Qc) : list Qc :=
  match qinv (add_eps eps A) with
  | Some Ai => map (Qcmax 0) (matvec Ai u)
  | None => map (fun _ => 0) u
  end.

(* K_(S u c) from K_SS, the candidate's kernel row to the selection and its diagonal value *)
Definition extend_kernel (ssK : list (list Qc)) (krow : list Qc) (dg : Qc) : list (list Qc) :=
  map2 (fun row x => row ++ [x]) ssK krow ++ [krow ++ [dg]].

(* ------------------------------------------------------------------ the three objectives, per candidate:
   diag, col mean, selection col means, kernel row candidate->selection, K_SS  |->  (objective, objectives_weights) *)
Definition objective := Qc -> Qc -> list Qc -> list Qc -> list (list Qc) -> Qc * list Qc.

Definition mmd_obj : objective := fun dg cm selcm krow ssK =>
  (two * cm - (dg + two * qsum krow) / qn (length selcm + 1), repeat 1 (length selcm + 1)).

Definition dash_obj : objective := fun dg cm selcm krow ssK => (cm - dot krow selcm, []).

Definition greedy_obj (eps : Qc) : objective := fun dg cm selcm krow ssK =>
  let Kx := extend_kernel ssK krow dg in
  let mu := selcm ++ [cm] in
  let w := opt_weights eps Kx mu in
  (dot w mu - half * dot w (matvec Kx w), w).

(* weight update after a selection: old weights, new selection col means, new K_SS, diag of the new prototype,
   best objective, best objectives_weights |-> prototypes_weights[:nb_selected+1] *)
Definition weight_update := list Qc -> list Qc -> list (list Qc) -> Qc -> Qc -> list Qc -> list Qc.
Definition take_best_weights : weight_update := fun old selcm ssK dg v w => w.
Definition dash_update (eps : Qc) : weight_update := fun old selcm ssK dg v w =>
  if Qcleb v 0 then old ++ [0] else opt_weights eps ssK selcm.

(* ------------------------------------------------------------------ greedy selection *)
Close Scope Qc_scope.

(* samples_selection_kernel[b, :len, j] = vals *)
Fixpoint assign_col (j : nat) (vals : list Qc) (rows : list (list Qc)) : list (list Qc) :=
  match vals, rows with
  | v :: vs, r :: rs => upd j v r :: assign_col j vs rs
  | _, _ => rows
  end.

Record gstate := {
  g_mask : list (list bool);          (* mask_of_selected (nb, b) *)
  g_ssk : list (list (list Qc));      (* samples_selection_kernel (nb, b, np) *)
  g_selcm : list Qc;                  (* selection_kernel_col_means[:nb_selected] *)
  g_ssK : list (list Qc);             (* selection_selection_kernel[:nb_selected, :nb_selected] *)
  g_sel : list (nat * nat);           (* prototypes_indices[:nb_selected] *)
  g_w : list Qc;                      (* prototypes_weights[:nb_selected] *)
  g_last : nat                        (* dataset position of last_selected *)
}.

Section Greedy.
Variable K : list (list Qc).
Variables bs n np : nat.
Variable obj : objective.
Variable updw : weight_update.
Variables cmT dgT : list (list Qc).      (* kernel_col_means, kernel_diag *)

Definition best_t := option (Qc * nat * nat * list Qc).    (* objective, batch index, index in batch, weights *)

(* the candidates of a batch: (position in batch, diag, col mean, kernel row to the selection) *)
Definition candidates (t b : nat) (cmask : list bool) (sskb : list (list Qc)) :=
  bmask (combine (seq 0 bs) (combine (nth b dgT []) (combine (nth b cmT []) (map (firstn t) sskb)))) cmask.

Definition batch_step (t : nat) (s : gstate) (st : best_t * list (list (list Qc))) (e : nat * list nat) :=
  let (best, ssk) := st in
  let (b, cases) := e in
  let len := length cases in
  let m0 := map negb (nth b (g_mask s) []) in
  let cmask := if len <? bs then map2 andb m0 (map (fun p => p <? len) (seq 0 bs)) else m0 in
  if negb (existsb (fun x => x) cmask) then st else
  let ssk' := if 0 <? t
              then upd b (assign_col (t - 1) (map (fun i => kent K i (g_last s)) cases) (nth b ssk [])) ssk
              else ssk in
  let cands := candidates t b cmask (nth b ssk' []) in
  let outs := map (fun c => let '(p, (dg, (cm, krow))) := c in obj dg cm (g_selcm s) krow (g_ssK s)) cands in
  let am := argmax (map fst outs) in
  match nth_error (combine cands outs) am with
  | None => (best, ssk')              (* unreachable: the batch has a candidate, argmax is in range *)
  | Some (c, (bv, bw)) =>
      let better := match best with None => true | Some (v, _, _, _) => Qcltb v bv end in
      if better then (Some (bv, b, fst c, bw), ssk') else (best, ssk')
  end.

Definition upd2 {A} (b p : nat) (v : A) (t : list (list A)) : list (list A) := upd b (upd p v (nth b t [])) t.

Definition select_step (s : gstate) : gstate :=
  let t := length (g_sel s) in
  let '(best, ssk) := fold_left (batch_step t s) (enum (batches bs n)) (None, g_ssk s) in
  match best with
  | None => s       (* no candidate left (nb_prototypes > n): the Python code fails; excluded by hypothesis *)
  | Some (v, bb, bi, w) =>
      let dg := nthq (nth bb dgT []) bi in
      let new_selected := firstn t (nth bi (nth bb ssk []) []) in
      let ssK' := extend_kernel (g_ssK s) new_selected dg in
      let selcm' := g_selcm s ++ [nthq (nth bb cmT []) bi] in
      {| g_mask := upd2 bb bi true (g_mask s);
         g_ssk := ssk;
         g_selcm := selcm';
         g_ssK := ssK';
         g_sel := g_sel s ++ [(bb, bi)];
         g_w := updw (g_w s) selcm' ssK' dg v w;
         g_last := bb * bs + bi |}
  end.

Definition init_state : gstate :=
  let nb := length (batches bs n) in
  {| g_mask := repeat (repeat false bs) nb;
     g_ssk := repeat (repeat (repeat 0%Qc np) bs) nb;
     g_selcm := []; g_ssK := []; g_sel := []; g_w := []; g_last := 0 |}.

Definition run_greedy : gstate := Nat.iter np select_step init_state.
End Greedy.

Open Scope Qc_scope.
(* prototypes_weights / reduce_sum(prototypes_weights) *)
Definition normalise (w : list Qc) : list Qc := map (fun x => x / qsum w) w.
Close Scope Qc_scope.

Inductive method := MMDCritic | ProtoDash | ProtoGreedy.
Definition method_obj (eps : Qc) (m : method) : objective :=
  match m with MMDCritic => mmd_obj | ProtoDash => dash_obj | ProtoGreedy => greedy_obj eps end.
Definition method_updw (eps : Qc) (m : method) : weight_update :=
  match m with ProtoDash => dash_update eps | _ => take_best_weights end.

(* find_global_prototypes: (prototypes_indices, prototypes_weights) *)
Definition find_prototypes (m : method) (eps : Qc) (K : list (list Qc)) (bs np : nat)
  : list (nat * nat) * list Qc :=
  let n := length K in
  let s := run_greedy K bs n np (method_obj eps m) (method_updw eps m)
                      (col_means_table K bs n) (diag_table K bs n) in
  (g_sel s, normalise (g_w s)).

(* ------------------------------------------------------------------ local explanations
   KNN(cases_dataset = prototypes (np, d), batch_size = bs, k): per query, over the batches of prototypes,
     concatenated = best ++ new;  order = argsort(distances)[:k];  best = gather(concatenated, order)
   with best initialised to k entries (inf, (-1,-1)).  Distances query -> prototype are an input row [drow]
   (distance_fn is a library call).  Prototypes.format_search_output:
     flatten = indices[:,:,0] * batch_size + indices[:,:,1]
     indices = gather(prototypes_indices, flatten); labels = gather(prototypes_labels, flatten)
   get_global_prototypes: prototypes_labels = dataset_gather(labels_dataset, prototypes_indices). *)
Definition dist := option Qc.                     (* None = +inf fill value *)
Definition dist_lt (a b : dist) : bool :=
  match a, b with
  | Some x, Some y => Qcltb x y
  | Some _, None => true
  | None, _ => false
  end.
Definition entry := (dist * option (nat * nat))%type.     (* distance, (batch, position) or (-1,-1) *)
Fixpoint insert_sorted (e : entry) (l : list entry) : list entry :=
  match l with
  | [] => [e]
  | x :: r => if dist_lt (fst e) (fst x) then e :: l else x :: insert_sorted e r
  end.
(* stable ascending sort *)
Definition sort_entries (l : list entry) : list entry := fold_right insert_sorted [] l.

Definition knn_step (k : nat) (best : list entry) (e : nat * list Qc) : list entry :=
  let (b, ds) := e in
  let new := map (fun pd => (Some (snd pd), Some (b, fst pd))) (enum ds) in
  firstn k (sort_entries (best ++ new)).
Definition knn_row (bs k : nat) (drow : list Qc) : list entry :=
  fold_left (knn_step k) (enum (chunks bs drow)) (repeat (None, None) k).

(* one query: (distance, dataset index (batch, position) of the prototype, its label) *)
Definition local_row (bs k : nat) (protos : list (nat * nat)) (plabels : list nat) (drow : list Qc)
  : list (dist * option (nat * nat) * option nat) :=
  map (fun e : entry =>
         match snd e with
         | Some (b, p) => let flat := b * bs + p in (fst e, nth_error protos flat, nth_error plabels flat)
         | None => (fst e, None, None)
         end) (knn_row bs k drow).
(* prototypes_labels: labels of the dataset at the prototypes' (batch, position) indices *)
Definition proto_labels (bs : nat) (labels : list nat) (protos : list (nat * nat)) : list nat :=
  map (fun bp => nth (snd bp) (nth (fst bp) (chunks bs labels) []) 0) protos.   (* dataset_gather *)

(* ------------------------------------------------------------------ correspondence helpers (used by harness/c18.py) *)
Definition pair_eqb (a b : nat * nat) : bool := (fst a =? fst b) && (snd a =? snd b).
Definition flat_idx (bs : nat) (bp : nat * nat) : nat := fst bp * bs + snd bp.
Definition qtable_close (tol : Qc) (a b : list (list Qc)) : bool :=
  (length a =? length b) && forallb (fun p => qlist_close tol 1%Qc (fst p) (snd p)) (combine a b).
Definition opt_eqb {A} (eqb : A -> A -> bool) (a b : option A) : bool :=
  match a, b with Some x, Some y => eqb x y | None, None => true | _, _ => false end.

(* global prototypes: the first ncmp selected indices are compared (the later ones follow a near-tie and are
   not determined up to float rounding); weights only when the whole selection is compared and well conditioned *)
Definition check_global (m : method) (eps : Qc) (K : list (list Qc)) (bs np ncmp : nat)
  (isel : list (nat * nat)) (cmpw : bool) (tolw : Qc) (iw : list Qc)
  (cmpt : bool) (tolt : Qc) (icm idg : list (list Qc)) : bool :=
  let n := length K in
  let '(sel, w) := find_prototypes m eps K bs np in
  (length isel =? np) && list_eqb pair_eqb (firstn ncmp sel) (firstn ncmp isel)
  && (if cmpw then qlist_close tolw 1%Qc w iw else true)
  && (if cmpt then qtable_close tolt (col_means_table K bs n) icm && qtable_close tolt (diag_table K bs n) idg
      else true).

(* the same selection (dataset positions) and weights under another batch size *)
Definition check_cross (bs bs2 ncmp : nat) (isel isel2 : list (nat * nat)) (cmpw : bool) (tolw : Qc)
  (iw iw2 : list Qc) : bool :=
  list_eqb Nat.eqb (firstn ncmp (map (flat_idx bs) isel)) (firstn ncmp (map (flat_idx bs2) isel2))
  && (if cmpw then qlist_close tolw 1%Qc iw iw2 else true).

(* local explanations for the model's own selection: indices and labels exact, distances close *)
Definition check_local (m : method) (eps : Qc) (K : list (list Qc)) (bs np k : nat) (labels : list nat)
  (iplabels : list nat) (D : list (list Qc)) (told : Qc)
  (iidx : list (list (nat * nat))) (ilab : list (list nat)) (idist : list (list Qc)) : bool :=
  let '(sel, _) := find_prototypes m eps K bs np in
  let pl := proto_labels bs labels sel in
  let rows := map (local_row bs k sel pl) D in
  list_eqb Nat.eqb pl iplabels
  && list_eqb (list_eqb (opt_eqb pair_eqb)) (map (map (fun r => snd (fst r))) rows) (map (map Some) iidx)
  && list_eqb (list_eqb (opt_eqb Nat.eqb)) (map (map (fun r => snd r)) rows) (map (map Some) ilab)
  && list_eqb (fun a b => qlist_close told 1%Qc a b)
       (map (map (fun r => match fst (fst r) with Some d => d | None => (-(1))%Qc end)) rows) idist.
