(* C18/Spec.v — placeholder, completed below *)
From Xpl Require Export C18.Model.
