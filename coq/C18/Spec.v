(* C18/Spec.v — the property's own words: no batches, no padded tables, no accumulators.
   Everything is read directly from the full kernel matrix K (n x n). *)
From Xpl Require Export C18.Model.
Open Scope Qc_scope.

(* K is a symmetric n x n matrix (kernel functions are symmetric) *)
Definition symmetric (K : list (list Qc)) (n : nat) : Prop :=
  forall r c, (r < n)%nat -> (c < n)%nat -> kent K r c = kent K c r.

(* dense column sums / means and diagonal of the kernel matrix *)
Definition colsum (K : list (list Qc)) (n c : nat) : Qc := qsum (map (fun r => kent K r c) (seq 0 n)).
Definition colmean (K : list (list Qc)) (n c : nat) : Qc := colsum K n c / qn n.
Definition dense_col_means (K : list (list Qc)) (n : nat) : list Qc := map (colmean K n) (seq 0 n).
Definition dense_diag (K : list (list Qc)) (n : nat) : list Qc := map (fun c => kent K c c) (seq 0 n).

(* a (nb, b) table is the row-major cut of a flat vector, zero padded *)
Definition table_of (bs : nat) (v : list Qc) : list (list Qc) := pad_last bs (chunks bs v).

(* ---- first maximiser of a list of (candidate, value): the documented greedy choice, first index on ties *)
Fixpoint first_max {A} (l : list (A * Qc)) : option (A * Qc) :=
  match l with
  | [] => None
  | x :: r => match first_max r with
              | None => Some x
              | Some y => if Qcltb (snd x) (snd y) then Some y else Some x
              end
  end.

(* what it means: a maximiser, and strictly better than everything before it *)
Definition is_first_max {A} (l : list (A * Qc)) (x : A * Qc) : Prop :=
  exists l1 l2, l = l1 ++ x :: l2 /\ (forall y, In y l1 -> snd y < snd x) /\ (forall y, In y l2 -> snd y <= snd x).

(* ---- dense greedy selection (dataset positions), for any objective of the family the code uses *)
Definition submat (K : list (list Qc)) (S : list nat) : list (list Qc) :=
  map (fun i => map (fun j => kent K i j) S) S.
Definition dense_value (obj : objective) (K : list (list Qc)) (n : nat) (S : list nat) (c : nat) : Qc * list Qc :=
  obj (kent K c c) (colmean K n c) (map (colmean K n) S) (map (fun s => kent K c s) S) (submat K S).
Definition dense_candidates (n : nat) (S : list nat) : list nat :=
  filter (fun c => negb (existsb (Nat.eqb c) S)) (seq 0 n).
Definition dense_step (obj : objective) (K : list (list Qc)) (n : nat) (S : list nat) : list nat :=
  match first_max (map (fun c => (c, fst (dense_value obj K n S c))) (dense_candidates n S)) with
  | Some (c, _) => S ++ [c]
  | None => S
  end.
Definition dense_select (obj : objective) (K : list (list Qc)) (n np : nat) : list nat :=
  Nat.iter np (dense_step obj K n) [].

(* ---- documented objectives, written on the full kernel matrix *)
(* MMDCritic docstring: (2/n) sum_i k(x_i, c) - 1/(|S|+1) [k(c,c) + 2 sum_{j in S} k(x_j, c)] *)
Definition mmd_documented (K : list (list Qc)) (n : nat) (S : list nat) (c : nat) : Qc :=
  two / qn n * qsum (map (fun i => kent K i c) (seq 0 n))
  - (kent K c c + two * qsum (map (fun j => kent K j c) S)) / qn (length S + 1).

(* ProtoGreedy docstring: max_w w^T mu - w^T K w / 2 on S u {c}, at w = max(K^-1 mu, 0) (K regularised by eps) *)
Definition quad_objective (Ksub : list (list Qc)) (mu w : list Qc) : Qc := dot w mu - half * dot w (matvec Ksub w).
Definition greedy_documented (eps : Qc) (K : list (list Qc)) (n : nat) (S : list nat) (c : nat) : Qc :=
  let T := S ++ [c] in
  let mu := map (colmean K n) T in
  quad_objective (submat K T) mu (opt_weights eps (submat K T) mu).

(* weights: non-negative, summing to one *)
Definition weights_ok (w : list Qc) : Prop := (forall x, In x w -> 0 <= x) /\ qsum w = 1.

(* ---- executable link Model = Spec, evaluated on every generated case by the correspondence check
   (a TEST of the two statements that are not proved in Proofs.v: colmeans_triangular and
   greedy_batch_invariant): the padded tables are the row-major cut of the dense column means / diagonal, and the
   batched selection is the dense greedy selection with first-index tie-breaking *)
Definition check_spec (m : method) (eps : Qc) (K : list (list Qc)) (bs np : nat) : bool :=
  let n := length K in
  qlist2_eqb (col_means_table K bs n) (table_of bs (dense_col_means K n))
  && qlist2_eqb (diag_table K bs n) (table_of bs (dense_diag K n))
  && list_eqb Nat.eqb (map (flat_idx bs) (fst (find_prototypes m eps K bs np)))
                      (dense_select (method_obj eps m) K n np).
