(* C18/Proofs.v — lemmas about the model of the prototype searches *)
From Xpl Require Import Base.Tensor C18.Spec.
From Coq Require Import Lqa Arith.
Open Scope Qc_scope.

(* ================================================================= weights *)
Lemma qsum_map_div (w : list Qc) (s : Qc) : qsum (map (fun x => x / s) w) = qsum w / s.
Proof. induction w as [|x w IH]; cbn [map qsum]; [unfold Qcdiv; ring | rewrite IH; unfold Qcdiv; ring]. Qed.

Lemma normalise_sum w : qsum w <> 0 -> qsum (normalise w) = 1.
Proof. intro H. unfold normalise. rewrite qsum_map_div. field. exact H. Qed.

Lemma div_nonneg (x s : Qc) : 0 <= x -> 0 < s -> 0 <= x / s.
Proof. intros Hx Hs. qc2q.
  assert (H: (0 < / this s)%Q) by (apply Qinv_lt_0_compat; exact Hs).
  unfold Qdiv. generalize dependent (/ this s)%Q. intros i Hi. cbn in *. nra. Qed.

Definition all_nonneg (w : list Qc) : Prop := forall x, In x w -> 0 <= x.

Lemma qsum_nonneg w : all_nonneg w -> 0 <= qsum w.
Proof. induction w as [|x w IH]; intro H; cbn [qsum]; [apply Qcle_refl|].
  assert (0 <= x) by (apply H; left; reflexivity).
  assert (0 <= qsum w) by (apply IH; intros y Hy; apply H; right; exact Hy).
  qc2q. lra. Qed.

Lemma qsum_pos w : all_nonneg w -> (exists x, In x w /\ 0 < x) -> 0 < qsum w.
Proof. induction w as [|y w IH]; intros H [x [Hin Hx]]; [destruct Hin|]. cbn [qsum].
  assert (Hy : 0 <= y) by (apply H; left; reflexivity).
  assert (Hw : all_nonneg w) by (intros z Hz; apply H; right; exact Hz).
  pose proof (qsum_nonneg w Hw) as Hs.
  destruct Hin as [->|Hin].
  - qc2q. lra.
  - assert (0 < qsum w) by (apply IH; [exact Hw | exists x; split; assumption]). qc2q. lra. Qed.

Lemma normalise_ok w : all_nonneg w -> (exists x, In x w /\ 0 < x) -> weights_ok (normalise w).
Proof. intros Hn Hp. pose proof (qsum_pos w Hn Hp) as Hs. split.
  - intros x Hx. unfold normalise in Hx. apply in_map_iff in Hx. destruct Hx as [y [<- Hy]].
    apply div_nonneg; [apply Hn; exact Hy | exact Hs].
  - apply normalise_sum. intro E. rewrite E in Hs. apply Qclt_not_le in Hs. apply Hs. apply Qcle_refl. Qed.

Lemma Qcmax_nonneg x : 0 <= Qcmax 0 x.
Proof. unfold Qcmax. destruct (Qclt_le_dec 0 x) as [H|H]; [apply Qclt_le_weak; exact H | apply Qcle_refl]. Qed.

Lemma opt_weights_nonneg eps A u : all_nonneg (opt_weights eps A u).
Proof. unfold opt_weights. intros x Hx. destruct (qinv (add_eps eps A)); apply in_map_iff in Hx;
  destruct Hx as [y [<- _]]; [apply Qcmax_nonneg | apply Qcle_refl]. Qed.

Definition obj_nonneg (obj : objective) : Prop :=
  forall dg cm selcm krow ssK, all_nonneg (snd (obj dg cm selcm krow ssK)).
Definition updw_nonneg (u : weight_update) : Prop :=
  forall old selcm ssK dg v w, all_nonneg old -> all_nonneg w -> all_nonneg (u old selcm ssK dg v w).

Lemma method_obj_nonneg eps m : obj_nonneg (method_obj eps m).
Proof. intros dg cm selcm krow ssK. destruct m; cbn [method_obj].
  - unfold mmd_obj. cbn [snd]. intros x Hx. apply repeat_spec in Hx. subst x. discriminate.
  - unfold dash_obj. cbn [snd]. intros x [].
  - unfold greedy_obj. cbn [snd]. apply opt_weights_nonneg. Qed.

Lemma method_updw_nonneg eps m : updw_nonneg (method_updw eps m).
Proof. intros old selcm ssK dg v w Ho Hw. destruct m; cbn [method_updw]; try exact Hw.
  unfold dash_update. destruct (Qcleb v 0); [|apply opt_weights_nonneg].
  intros x Hx. apply in_app_or in Hx. destruct Hx as [Hx|[<-|[]]]; [apply Ho; exact Hx | apply Qcle_refl]. Qed.

Section GreedyInv.
Variable K : list (list Qc).
Variables bs n np : nat.
Variable obj : objective.
Variable updw : weight_update.
Variables cmT dgT : list (list Qc).

Definition best_nonneg (b : best_t) : Prop :=
  match b with Some (_, _, _, w) => all_nonneg w | None => True end.

Lemma batch_step_best_nonneg t s st e : obj_nonneg obj -> best_nonneg (fst st) ->
  best_nonneg (fst (batch_step K bs obj cmT dgT t s st e)).
Proof.
  intros Ho Hb. destruct st as [best ssk]. destruct e as [b cases]. unfold batch_step.
  cbv zeta. match goal with |- context [if negb ?c then _ else _] => destruct (negb c) end; [exact Hb|].
  match goal with |- context [nth_error ?l ?i] => destruct (nth_error l i) as [[c [bv bw]]|] eqn:E end; [|exact Hb].
  apply nth_error_In in E. apply in_combine_r in E. apply in_map_iff in E.
  destruct E as [[p [dg [cm krow]]] [E _]].
  assert (Hw : all_nonneg bw).
  { pose proof (Ho dg cm (g_selcm s) krow (g_ssK s)) as H. rewrite E in H. exact H. }
  match goal with |- context [if ?c then _ else _] => destruct c end; cbn [fst best_nonneg]; [exact Hw | exact Hb].
Qed.

Lemma fold_batch_best_nonneg t s l st : obj_nonneg obj -> best_nonneg (fst st) ->
  best_nonneg (fst (fold_left (batch_step K bs obj cmT dgT t s) l st)).
Proof. intro Ho. revert st. induction l as [|e l IH]; intros st Hb; cbn [fold_left]; [exact Hb|].
  apply IH. apply batch_step_best_nonneg; assumption. Qed.

Lemma select_step_w_nonneg s : obj_nonneg obj -> updw_nonneg updw -> all_nonneg (g_w s) ->
  all_nonneg (g_w (select_step K bs n obj updw cmT dgT s)).
Proof.
  intros Ho Hu Hs. unfold select_step.
  pose proof (fold_batch_best_nonneg (length (g_sel s)) s (enum (batches bs n)) (None, g_ssk s) Ho I) as H.
  destruct (fold_left _ _ _) as [best ssk]. cbn [fst] in H.
  destruct best as [[[[v bb] bi] w]|]; [|exact Hs]. cbn [g_w]. apply Hu; [exact Hs | exact H].
Qed.

Lemma iter_w_nonneg s0 k : obj_nonneg obj -> updw_nonneg updw -> all_nonneg (g_w s0) ->
  all_nonneg (g_w (Nat.iter k (select_step K bs n obj updw cmT dgT) s0)).
Proof. intros Ho Hu H0. induction k as [|k IH]; [exact H0|].
  change (Nat.iter (S k) ?f ?x) with (f (Nat.iter k f x)). apply select_step_w_nonneg; assumption. Qed.

Lemma run_greedy_w_nonneg : obj_nonneg obj -> updw_nonneg updw ->
  all_nonneg (g_w (run_greedy K bs n np obj updw cmT dgT)).
Proof. intros Ho Hu. unfold run_greedy. apply iter_w_nonneg; [exact Ho | exact Hu | intros x []]. Qed.
End GreedyInv.

(* prototypes_weights are non-negative and sum to one as soon as one unnormalised weight is positive *)
Theorem weights_normalised m eps K bs np :
  let n := length K in
  let s := run_greedy K bs n np (method_obj eps m) (method_updw eps m) (col_means_table K bs n) (diag_table K bs n) in
  (exists x, In x (g_w s) /\ 0 < x) -> weights_ok (snd (find_prototypes m eps K bs np)).
Proof. intros n s Hp. unfold find_prototypes. cbn [snd]. apply normalise_ok; [|exact Hp].
  apply run_greedy_w_nonneg; [apply method_obj_nonneg | apply method_updw_nonneg]. Qed.

(* ================================================================= first maximiser: batches vs dense *)
Section FirstMax.
Context {A : Type}.

(* keep the earlier one unless the later one is strictly better *)
Definition comb (a b : option (A * Qc)) : option (A * Qc) :=
  match a, b with
  | None, _ => b
  | _, None => a
  | Some x, Some y => if Qcltb (snd x) (snd y) then Some y else Some x
  end.

Lemma first_max_cons x (r : list (A * Qc)) : first_max (x :: r) = comb (Some x) (first_max r).
Proof. cbn [first_max comb]. destruct (first_max r); reflexivity. Qed.

Lemma comb_assoc a b c : comb (comb a b) c = comb a (comb b c).
Proof.
  destruct a as [x|], b as [y|], c as [z|]; cbn [comb]; try reflexivity;
    try (destruct (Qcltb (snd x) (snd y)); reflexivity).
  destruct (Qcltb (snd x) (snd y)) eqn:Exy; destruct (Qcltb (snd y) (snd z)) eqn:Eyz; cbn [comb];
    rewrite ?Exy, ?Eyz; try reflexivity.
  - (* x<y, y<z: x<z *)
    assert (E : Qcltb (snd x) (snd z) = true).
    { apply Qcltb_lt. apply Qcltb_lt in Exy, Eyz. eapply Qclt_trans; eassumption. }
    rewrite E. reflexivity.
  - (* not x<y, not y<z: not x<z *)
    destruct (Qcltb (snd x) (snd z)) eqn:Exz; [|reflexivity].
    exfalso. apply Qcltb_lt in Exz.
    assert (H1 : ~ snd x < snd y) by (intro H; apply Qcltb_lt in H; congruence).
    assert (H2 : ~ snd y < snd z) by (intro H; apply Qcltb_lt in H; congruence).
    apply Qcnot_lt_le in H1, H2. apply (Qclt_not_le _ _ Exz). eapply Qcle_trans; eassumption.
Qed.

Lemma first_max_app (l1 l2 : list (A * Qc)) : first_max (l1 ++ l2) = comb (first_max l1) (first_max l2).
Proof. induction l1 as [|x l1 IH]; [reflexivity|].
  rewrite <- app_comm_cons, !first_max_cons, IH, comb_assoc. reflexivity. Qed.

(* the loop of the code: per-batch first maximiser, replaced only by a STRICTLY better batch *)
Definition merge_best (best : option (A * Qc)) (batch : list (A * Qc)) : option (A * Qc) :=
  comb best (first_max batch).

Lemma fold_merge_best (bl : list (list (A * Qc))) acc :
  fold_left merge_best bl acc = comb acc (first_max (concat bl)).
Proof. revert acc. induction bl as [|b bl IH]; intro acc; cbn [fold_left concat].
  - destruct acc; reflexivity.
  - rewrite IH. unfold merge_best. rewrite first_max_app, comb_assoc. reflexivity. Qed.

(* batched arg-max = dense first arg-max, whatever the cut into batches (empty batches included) *)
Lemma batched_first_max (bl : list (list (A * Qc))) :
  fold_left merge_best bl None = first_max (concat bl).
Proof. rewrite fold_merge_best. reflexivity. Qed.

Lemma batched_first_max_invariant (bl bl' : list (list (A * Qc))) : concat bl = concat bl' ->
  fold_left merge_best bl None = fold_left merge_best bl' None.
Proof. intro E. rewrite !batched_first_max, E. reflexivity. Qed.

(* first_max returns a maximiser that is strictly better than everything before it *)
Lemma first_max_spec (l : list (A * Qc)) x : first_max l = Some x -> is_first_max l x.
Proof.
  revert x. induction l as [|y l IH]; intros x H; [discriminate|].
  cbn [first_max] in H. destruct (first_max l) as [z|] eqn:E.
  - specialize (IH z eq_refl). destruct IH as [l1 [l2 [El [H1 H2]]]].
    destruct (Qcltb (snd y) (snd z)) eqn:Eyz; injection H as <-.
    + exists (y :: l1), l2. split; [rewrite El; reflexivity|]. split; [|exact H2].
      intros w [<-|Hw]; [apply Qcltb_lt; exact Eyz | apply H1; exact Hw].
    + exists [], l. split; [reflexivity|]. split; [intros w []|].
      assert (Hzy : snd z <= snd y).
      { apply Qcnot_lt_le. intro H. apply Qcltb_lt in H. congruence. }
      intros w Hw. rewrite El in Hw. apply in_app_or in Hw. destruct Hw as [Hw|[<-|Hw]].
      * apply Qclt_le_weak. eapply Qclt_le_trans; [apply H1; exact Hw | exact Hzy].
      * exact Hzy.
      * eapply Qcle_trans; [apply H2; exact Hw | exact Hzy].
  - injection H as <-. destruct l; [|cbn [first_max] in E; destruct (first_max l); [destruct (Qcltb _ _)|]; discriminate].
    exists [], []. split; [reflexivity|]. split; intros w [].
Qed.

(* tf.argmax as modelled ([argmax], index of the first maximiser) reads the first maximiser *)
Lemma argmax_from_spec (val : A -> Qc) (r pre : list A) x bi : nth_error (pre ++ r) bi = Some x ->
  option_map (fun a => (a, val a)) (nth_error (pre ++ r) (argmax_from (map val r) (length pre) bi (val x)))
  = comb (Some (x, val x)) (first_max (map (fun a => (a, val a)) r)).
Proof.
  revert pre x bi. induction r as [|y r IH]; intros pre x bi H.
  - cbn [map argmax_from first_max comb]. rewrite H. reflexivity.
  - cbn [map argmax_from]. rewrite first_max_cons, <- comb_assoc.
    assert (Hy : nth_error ((pre ++ [y]) ++ r) (length pre) = Some y).
    { rewrite <- app_assoc. rewrite nth_error_app2 by lia. rewrite Nat.sub_diag. reflexivity. }
    assert (Hx : nth_error ((pre ++ [y]) ++ r) bi = Some x) by (rewrite <- app_assoc; exact H).
    replace (pre ++ y :: r) with ((pre ++ [y]) ++ r) by (rewrite <- app_assoc; reflexivity).
    replace (S (length pre)) with (length (pre ++ [y])) by (rewrite app_length; cbn [length]; lia).
    cbn [comb snd]. destruct (Qcltb (val x) (val y)); apply IH; assumption.
Qed.

Lemma argmax_first_max (val : A -> Qc) (l : list A) :
  option_map (fun a => (a, val a)) (nth_error l (argmax (map val l))) = first_max (map (fun a => (a, val a)) l).
Proof.
  destruct l as [|x r]; [reflexivity|]. cbn [map argmax]. rewrite first_max_cons.
  apply (argmax_from_spec val r [x] x 0). reflexivity.
Qed.
End FirstMax.

(* ================================================================= documented objectives on the full kernel matrix *)
Lemma qn_nonzero n : (n <> 0)%nat -> qn n <> 0.
Proof. intros Hn E. apply Qc_eq_iff in E. unfold qn in E. rewrite Qc_Q2Qc_q in E.
  unfold Qeq in E. cbn in E. lia. Qed.

Lemma dense_value_mmd K n S c : (n <> 0)%nat -> symmetric K n -> (c < n)%nat -> (forall s, In s S -> (s < n)%nat) ->
  fst (dense_value mmd_obj K n S c) = mmd_documented K n S c.
Proof.
  intros Hn Hs Hc HS. unfold dense_value, mmd_obj, mmd_documented, colmean, colsum. cbn [fst].
  rewrite map_length.
  rewrite (qsum_map_ext (fun s => kent K c s) (fun j => kent K j c)) by (intros s Hin; apply Hs; auto).
  field. split; [|apply qn_nonzero; exact Hn].
  apply qn_nonzero. lia.
Qed.

Lemma dense_value_dash_first K n c : fst (dense_value dash_obj K n [] c) = colmean K n c.
Proof. unfold dense_value, dash_obj. cbn [fst map]. unfold dot, vmul. cbn [map2 qsum]. ring. Qed.

Lemma extend_submat K n S c : symmetric K n -> (c < n)%nat -> (forall s, In s S -> (s < n)%nat) ->
  extend_kernel (submat K S) (map (fun s => kent K c s) S) (kent K c c) = submat K (S ++ [c]).
Proof.
  intros Hs Hc HS. unfold extend_kernel, submat.
  rewrite map2_map_l, map2_map_r, map2_same, map_app. cbn [map]. f_equal.
  - apply map_ext_in. intros i Hi. rewrite map_app. cbn [map]. f_equal. f_equal. apply Hs; auto.
  - rewrite map_app. reflexivity.
Qed.

Lemma dense_value_greedy eps K n S c : symmetric K n -> (c < n)%nat -> (forall s, In s S -> (s < n)%nat) ->
  fst (dense_value (greedy_obj eps) K n S c) = greedy_documented eps K n S c.
Proof.
  intros Hs Hc HS. unfold dense_value, greedy_obj, greedy_documented, quad_objective. cbn [fst].
  rewrite (extend_submat K n S c Hs Hc HS), map_app. reflexivity.
Qed.

(* the dense greedy step picks a first maximiser of the objective among the cases not yet selected *)
Lemma dense_step_spec obj K n S c : dense_step obj K n S = S ++ [c] ->
  dense_candidates n S <> [] ->
  is_first_max (map (fun c => (c, fst (dense_value obj K n S c))) (dense_candidates n S))
               (c, fst (dense_value obj K n S c)).
Proof.
  unfold dense_step. intros H Hne.
  destruct (first_max _) as [[c' v]|] eqn:E.
  - apply app_inv_head in H. injection H as ->. pose proof (first_max_spec _ _ E) as Hf.
    assert (Hv : v = fst (dense_value obj K n S c)).
    { destruct Hf as [l1 [l2 [El _]]].
      assert (Hin : In (c, v) (map (fun c0 => (c0, fst (dense_value obj K n S c0))) (dense_candidates n S)))
        by (rewrite El; apply in_or_app; right; left; reflexivity).
      apply in_map_iff in Hin. destruct Hin as [c0 [Hc0 _]]. injection Hc0 as -> <-. reflexivity. }
    rewrite <- Hv. exact Hf.
  - exfalso. destruct (dense_candidates n S) as [|x r]; [congruence|].
    cbn [map] in E. rewrite first_max_cons in E. destruct (first_max _) in E; cbn [comb] in E;
      [destruct (Qcltb _ _) in E|]; discriminate.
Qed.

Lemma dense_candidates_spec n S c : In c (dense_candidates n S) <-> (c < n)%nat /\ ~ In c S.
Proof.
  unfold dense_candidates. rewrite filter_In, in_seq, negb_true_iff. split.
  - intros [[_ Hc] He]. split; [exact Hc|]. intro Hin.
    assert (existsb (Nat.eqb c) S = true) by (apply existsb_exists; exists c; split; [exact Hin | apply Nat.eqb_refl]).
    congruence.
  - intros [Hc Hn]. split; [lia|]. destruct (existsb (Nat.eqb c) S) eqn:E; [|reflexivity].
    apply existsb_exists in E. destruct E as [x [Hx Ex]]. apply Nat.eqb_eq in Ex. subst x. contradiction.
Qed.

(* ================================================================= index translation (batch, position) <-> flat *)
Close Scope Qc_scope. Open Scope nat_scope.

Lemma nth_firstn' {A} (l : list A) k p d : p < k -> nth p (firstn k l) d = nth p l d.
Proof. revert k p. induction l as [|x l IH]; intros k p H; [rewrite firstn_nil; reflexivity|].
  destruct k; [lia|]. destruct p; [reflexivity|]. cbn [firstn nth]. apply IH. lia. Qed.

Lemma nth_skipn' {A} (l : list A) k i d : nth i (skipn k l) d = nth (k + i) l d.
Proof. revert l. induction k as [|k IH]; intro l; [reflexivity|].
  destruct l as [|x l]; [destruct i; reflexivity|]. cbn [skipn plus nth]. apply IH. Qed.

(* element p of batch b of a batched list is element b*bs+p of the list *)
Lemma nth_chunks {A} (l : list A) bs b p d : 1 <= bs -> p < bs ->
  nth p (nth b (chunks bs l) []) d = nth (b * bs + p) l d.
Proof.
  intros Hbs Hp. revert l.
  assert (Hnil : forall B (i : nat) (x : B), nth i [] x = x) by (intros B [|i] x; reflexivity).
  induction b as [|b IH]; intro l.
  - destruct l as [|x l]; [rewrite chunks_nil, !Hnil; reflexivity|].
    rewrite chunks_cons_step by (auto; discriminate). change (0 * bs + p) with p.
    change (nth 0 (?a :: ?r) []) with a. apply nth_firstn'. exact Hp.
  - destruct l as [|x l]; [rewrite chunks_nil, !Hnil; reflexivity|].
    rewrite chunks_cons_step by (auto; discriminate).
    change (nth (S b) (?a :: ?r) []) with (nth b r []). rewrite IH, nth_skipn'.
    f_equal. lia.
Qed.

Lemma proto_labels_flat bs labels protos : 1 <= bs -> (forall bp, In bp protos -> snd bp < bs) ->
  proto_labels bs labels protos = map (fun bp => nth (flat_idx bs bp) labels 0) protos.
Proof. intros Hbs Hp. unfold proto_labels, flat_idx. apply map_ext_in. intros bp Hin.
  apply nth_chunks; [exact Hbs | apply Hp; exact Hin]. Qed.

(* local explanations: the dataset index returned for a neighbour is one of the prototypes' indices and the
   label returned with it is the label of the dataset at that very index *)
Lemma local_row_labels_indices bs k protos labels drow d idx lab : 1 <= bs ->
  (forall bp, In bp protos -> snd bp < bs) ->
  In (d, Some idx, Some lab) (local_row bs k protos (proto_labels bs labels protos) drow) ->
  In idx protos /\ lab = nth (flat_idx bs idx) labels 0.
Proof.
  intros Hbs Hp Hin. unfold local_row in Hin. apply in_map_iff in Hin. destruct Hin as [[dd o] [He _]].
  cbn [fst snd] in He. destruct o as [[b p]|]; [|discriminate].
  injection He as _ Hi Hl.
  rewrite (proto_labels_flat bs labels protos Hbs Hp) in Hl.
  rewrite nth_error_map, Hi in Hl. cbn [option_map] in Hl. injection Hl as <-.
  split; [eapply nth_error_In; exact Hi | reflexivity].
Qed.

(* ================================================================= selected cases are distinct *)
Lemma upd_length {A} i (v : A) l : length (upd i v l) = length l.
Proof. revert i. induction l as [|x l IH]; intros [|i]; cbn [upd length]; auto. Qed.
Lemma nth_upd_same {A} i (v : A) l d : i < length l -> nth i (upd i v l) d = v.
Proof. revert i. induction l as [|x l IH]; intros [|i] H; cbn [upd nth length] in *; try lia; auto.
  apply IH. lia. Qed.
Lemma nth_upd_other {A} i j (v : A) l d : i <> j -> nth j (upd i v l) d = nth j l d.
Proof. revert i j. induction l as [|x l IH]; intros [|i] [|j] H; cbn [upd nth]; try reflexivity; try lia.
  apply IH. lia. Qed.

Lemma NoDup_snoc {A} (l : list A) x : NoDup l -> ~ In x l -> NoDup (l ++ [x]).
Proof. induction l as [|y l IH]; intros Hn Hx; cbn [app]; [constructor; [intros []|constructor]|].
  inversion Hn as [|? ? Hy Hl]; subst. constructor.
  - intro Hin. apply in_app_or in Hin. destruct Hin as [Hin|[E|[]]]; [contradiction|]. subst. apply Hx. left. reflexivity.
  - apply IH; [exact Hl|]. intro Hin. apply Hx. right. exact Hin. Qed.

Definition mask_at (m : list (list bool)) (b p : nat) : bool := nth p (nth b m []) false.

Lemma mask_at_upd2_same m b p : p < length (nth b m []) -> mask_at (upd2 b p true m) b p = true.
Proof. intro H. unfold mask_at, upd2.
  assert (Hb : b < length m).
  { destruct (Nat.lt_ge_cases b (length m)) as [Hl|Hl]; [exact Hl|].
    rewrite nth_overflow in H by exact Hl. cbn [length] in H. lia. }
  rewrite nth_upd_same by exact Hb. apply nth_upd_same. exact H. Qed.

Lemma mask_at_upd2_keep m b p b' p' : mask_at m b' p' = true -> mask_at (upd2 b p true m) b' p' = true.
Proof. intro H. unfold mask_at, upd2 in *.
  destruct (Nat.eq_dec b b') as [<-|Hb].
  - destruct (Nat.lt_ge_cases b (length m)) as [Hl|Hl].
    + rewrite nth_upd_same by exact Hl.
      destruct (Nat.eq_dec p p') as [<-|Hp]; [|rewrite nth_upd_other by exact Hp; exact H].
      apply nth_upd_same.
      destruct (Nat.lt_ge_cases p (length (nth b m []))) as [Hq|Hq]; [exact Hq|].
      rewrite nth_overflow in H by exact Hq. discriminate.
    + rewrite (nth_overflow m []) in H by exact Hl. destruct p'; discriminate.
  - rewrite nth_upd_other by exact Hb. exact H. Qed.

Lemma bmask_in {A} (l : list (nat * A)) (m : list bool) p x : In (p, x) (bmask l m) ->
  forall k, map fst l = seq k (length l) -> k <= p /\ nth (p - k) m false = true.
Proof.
  revert m. induction l as [|[q y] l IH]; intros m Hin k Hs; [destruct m; destruct Hin|].
  destruct m as [|b m]; [destruct Hin|]. cbn [map length seq fst] in Hs. injection Hs as -> Hs.
  cbn [bmask] in Hin. destruct b.
  - destruct Hin as [E|Hin].
    + injection E as <- _. rewrite Nat.sub_diag. split; [lia | reflexivity].
    + destruct (IH m Hin (S k) Hs) as [H1 H2]. split; [lia|].
      replace (p - k) with (S (p - S k)) by lia. exact H2.
  - destruct (IH m Hin (S k) Hs) as [H1 H2]. split; [lia|].
    replace (p - k) with (S (p - S k)) by lia. exact H2.
Qed.

Lemma map_fst_combine_seq {B} k n (l : list B) : n <= length l ->
  map fst (combine (seq k n) l) = seq k (length (combine (seq k n) l)).
Proof. revert k l. induction n as [|n IH]; intros k l H; [reflexivity|].
  destruct l as [|x l]; [cbn [length] in H; lia|]. cbn [seq combine map fst length]. f_equal.
  apply IH. cbn [length] in H. lia. Qed.

Lemma map_fst_combine_seq' {B} k n (l : list B) :
  map fst (combine (seq k n) l) = seq k (length (combine (seq k n) l)).
Proof. revert k l. induction n as [|n IH]; intros k l; [reflexivity|].
  destruct l as [|x l]; [reflexivity|]. cbn [seq combine map fst length]. f_equal. apply IH. Qed.

Section Distinct.
Variable K : list (list Qc).
Variables bs n : nat.
Variable obj : objective.
Variable updw : weight_update.
Variables cmT dgT : list (list Qc).

(* the best candidate so far is a position whose mask_of_selected entry is (in range and) False *)
Definition best_free (m : list (list bool)) (b : best_t) : Prop :=
  match b with
  | Some (_, bb, bi, _) => nth bi (map negb (nth bb m [])) false = true /\ bi < bs
  | None => True
  end.

Lemma batch_step_best_free t s st e : best_free (g_mask s) (fst st) ->
  best_free (g_mask s) (fst (batch_step K bs obj cmT dgT t s st e)).
Proof.
  intros Hb. destruct st as [best ssk]. destruct e as [b cases]. unfold batch_step. cbv zeta.
  match goal with |- context [if negb ?c then _ else _] => destruct (negb c) end; [exact Hb|].
  match goal with |- context [nth_error ?l ?i] => destruct (nth_error l i) as [[c [bv bw]]|] eqn:E end; [|exact Hb].
  match goal with |- context [if ?c then _ else _] => destruct c end; [|exact Hb].
  cbn [fst best_free]. apply nth_error_In in E. apply in_combine_l in E.
  destruct c as [p x]. cbn [fst]. unfold candidates in E.
  pose proof (bmask_in _ _ p x E 0 (map_fst_combine_seq' 0 bs _)) as [_ H]. rewrite Nat.sub_0_r in H.
  assert (Hp : p < bs).
  { assert (Hin : In p (map fst (combine (seq 0 bs)
        (combine (nth b dgT []) (combine (nth b cmT []) (map (firstn t)
           (nth b (if 0 <? t then upd b (assign_col (t - 1) (map (fun i => kent K i (g_last s)) cases) (nth b ssk [])) ssk else ssk) []))))))).
    { clear H. revert E. generalize (combine (seq 0 bs)
        (combine (nth b dgT []) (combine (nth b cmT []) (map (firstn t)
           (nth b (if 0 <? t then upd b (assign_col (t - 1) (map (fun i => kent K i (g_last s)) cases) (nth b ssk [])) ssk else ssk) []))))).
      intros L. generalize (if length cases <? bs
         then map2 andb (map negb (nth b (g_mask s) [])) (map (fun p0 => p0 <? length cases) (seq 0 bs))
         else map negb (nth b (g_mask s) [])). intros M. revert M.
      induction L as [|[q y] L IH]; intros [|mb M] Hin; try destruct Hin.
      - cbn [bmask] in Hin. destruct mb; [destruct Hin as [Eq|Hin]|].
        + injection Eq as -> _. left. reflexivity.
        + right. eapply IH. exact Hin.
        + right. eapply IH. exact Hin. }
    rewrite map_fst_combine_seq' in Hin. apply in_seq in Hin.
    rewrite combine_length, seq_length in Hin. lia. }
  split; [|exact Hp].
  destruct (length cases <? bs); [|exact H].
  (* masked by range(bs) < len: still implies the unselected flag *)
  clear E Hp. revert H. generalize (map negb (nth b (g_mask s) [])). intro M.
  generalize (map (fun p0 => p0 <? length cases) (seq 0 bs)). intro R. revert M R.
  induction p as [|p IHp]; intros [|m0 M] [|r0 R] H; cbn [map2 nth] in *; try discriminate.
  - apply andb_true_iff in H. tauto.
  - apply IHp with (R := R). exact H.
Qed.

Lemma fold_batch_best_free t s l st : best_free (g_mask s) (fst st) ->
  best_free (g_mask s) (fst (fold_left (batch_step K bs obj cmT dgT t s) l st)).
Proof. revert st. induction l as [|e l IH]; intros st Hb; cbn [fold_left]; [exact Hb|].
  apply IH. apply batch_step_best_free; assumption. Qed.

Definition sel_inv (s : gstate) : Prop :=
  NoDup (g_sel s) /\ (forall b p, In (b, p) (g_sel s) -> mask_at (g_mask s) b p = true /\ p < bs).

Lemma select_step_inv s : sel_inv s -> sel_inv (select_step K bs n obj updw cmT dgT s).
Proof.
  intros [Hnd Hm]. unfold select_step.
  pose proof (fold_batch_best_free (length (g_sel s)) s (enum (batches bs n)) (None, g_ssk s) I) as H.
  destruct (fold_left _ _ _) as [best ssk]. cbn [fst] in H.
  destruct best as [[[[v bb] bi] w]|]; [|split; assumption].
  cbn [best_free] in H. destruct H as [H Hbi]. unfold sel_inv. cbn [g_sel g_mask].
  assert (Hlen : bi < length (nth bb (g_mask s) [])).
  { destruct (Nat.lt_ge_cases bi (length (nth bb (g_mask s) []))) as [Hl|Hl]; [exact Hl|].
    rewrite nth_overflow in H by (rewrite map_length; exact Hl). discriminate. }
  assert (Hfree : mask_at (g_mask s) bb bi = false).
  { unfold mask_at. rewrite (nth_indep _ false (negb false)) in H by (rewrite map_length; exact Hlen).
    rewrite map_nth in H. apply negb_true_iff in H. exact H. }
  split.
  - apply NoDup_snoc; [exact Hnd|]. intro Hin. destruct (Hm _ _ Hin) as [Ht _]. congruence.
  - intros b p Hin. apply in_app_or in Hin. destruct Hin as [Hin|[E|[]]].
    + destruct (Hm _ _ Hin) as [Ht Hp]. split; [apply mask_at_upd2_keep; exact Ht | exact Hp].
    + injection E as <- <-. split; [apply mask_at_upd2_same; exact Hlen | exact Hbi].
Qed.
End Distinct.

Lemma NoDup_map_inj {A B} (f : A -> B) (l : list A) :
  NoDup l -> (forall x y, In x l -> In y l -> f x = f y -> x = y) -> NoDup (map f l).
Proof. induction l as [|x l IH]; intros Hn Hf; cbn [map]; [constructor|].
  inversion Hn as [|? ? Hx Hl]; subst. constructor.
  - intro Hin. apply in_map_iff in Hin. destruct Hin as [y [E Hy]].
    assert (y = x) by (apply Hf; [right; exact Hy | left; reflexivity | exact E]). subst. contradiction.
  - apply IH; [exact Hl|]. intros a b Ha Hb. apply Hf; right; assumption. Qed.

Lemma flat_idx_inj bs a b : snd a < bs -> snd b < bs -> flat_idx bs a = flat_idx bs b -> a = b.
Proof. destruct a as [b1 p1], b as [b2 p2]. unfold flat_idx. cbn [fst snd]. intros H1 H2 E.
  assert (b1 = b2) by nia. subst. f_equal. lia. Qed.

Lemma iter_sel_inv K bs n obj updw cmT dgT s0 k : sel_inv bs s0 ->
  sel_inv bs (Nat.iter k (select_step K bs n obj updw cmT dgT) s0).
Proof. intro H0. induction k as [|k IH]; [exact H0|].
  change (Nat.iter (S k) ?f ?x) with (f (Nat.iter k f x)). apply select_step_inv. exact IH. Qed.

(* the prototypes are distinct cases of the dataset: distinct (batch, position) pairs with position < batch size,
   hence distinct dataset positions batch * bs + position *)
Theorem selected_distinct m eps K bs np :
  let sel := fst (find_prototypes m eps K bs np) in
  NoDup sel /\ (forall bp, In bp sel -> snd bp < bs) /\ NoDup (map (flat_idx bs) sel).
Proof.
  cbv zeta. unfold find_prototypes. cbn [fst]. unfold run_greedy.
  match goal with |- context [Nat.iter np ?f ?s0] =>
    assert (H : sel_inv bs (Nat.iter np f s0)) by (apply iter_sel_inv; split; [constructor | intros b p []]) end.
  destruct H as [Hn Hm]. split; [exact Hn|].
  assert (Hp : forall bp, In bp (g_sel (Nat.iter np
     (select_step K bs (length K) (method_obj eps m) (method_updw eps m) (col_means_table K bs (length K))
        (diag_table K bs (length K))) (init_state bs (length K) np))) -> snd bp < bs).
  { intros [b p] Hin. apply (Hm b p Hin). }
  split; [exact Hp|].
  apply NoDup_map_inj; [exact Hn|]. intros x y Hx Hy. apply flat_idx_inj; apply Hp; assumption.
Qed.

Open Scope Qc_scope.
Lemma dense_candidates_nil n : dense_candidates n [] = seq 0 n.
Proof. unfold dense_candidates. cbn [existsb negb]. induction (seq 0 n) as [|x l IH]; cbn [filter]; [reflexivity|].
  rewrite IH. reflexivity. Qed.

(* ProtoDash starts from the case with the largest mean kernel value (first one on ties) *)
Theorem protodash_first K n c : (n <> 0)%nat -> dense_select dash_obj K n 1 = [c] ->
  is_first_max (map (fun c => (c, colmean K n c)) (seq 0 n)) (c, colmean K n c).
Proof.
  intros Hn H. unfold dense_select in H. cbn [Nat.iter] in H.
  change (dense_step dash_obj K n [] = [] ++ [c]) in H.
  assert (Hne : dense_candidates n [] <> []).
  { rewrite dense_candidates_nil. destruct n; [congruence | discriminate]. }
  pose proof (dense_step_spec dash_obj K n [] c H Hne) as Hs.
  rewrite dense_candidates_nil in Hs. rewrite dense_value_dash_first in Hs.
  erewrite map_ext in Hs; [exact Hs|]. intro a. cbn beta. rewrite dense_value_dash_first. reflexivity.
Qed.

(* ================================================================= triangular traversal = dense column sums *)
Definition enum_from {A} (k : nat) (l : list A) : list (nat * A) := combine (seq k (length l)) l.

Lemma enum_from_cons {A} k (x : A) l : enum_from k (x :: l) = (k, x) :: enum_from (S k) l.
Proof. reflexivity. Qed.
Lemma enum_from_app {A} k (a b : list A) : enum_from k (a ++ b) = enum_from k a ++ enum_from (k + length a) b.
Proof. revert k. induction a as [|x a IH]; intro k; [cbn [app length]; rewrite Nat.add_0_r; reflexivity|].
  rewrite <- app_comm_cons, !enum_from_cons, IH. cbn [app length].
  replace (k + S (length a))%nat with (S k + length a)%nat by lia. reflexivity. Qed.

Lemma vadd_maps {A} (f g : A -> Qc) l : vadd (map f l) (map g l) = map (fun x => f x + g x) l.
Proof. unfold vadd. rewrite map2_map_l, map2_map_r, map2_same. reflexivity. Qed.
Lemma vzero_map {A} (l : list A) : vzero (length l) = map (fun _ => 0) l.
Proof. unfold vzero. induction l as [|x l IH]; cbn [length repeat map]; [reflexivity | rewrite IH; reflexivity]. Qed.

Section Tri.
Variable K : list (list Qc).

Definition rsum (X : list nat) (r : nat) : Qc := qsum (map (fun c => kent K r c) X).
Definition csum (X : list nat) (c : nat) : Qc := qsum (map (fun r => kent K r c) X).

Lemma rsum_app X Y r : rsum (X ++ Y) r = rsum X r + rsum Y r.
Proof. unfold rsum. rewrite map_app, qsum_app. reflexivity. Qed.
Lemma csum_app X Y c : csum (X ++ Y) c = csum X c + csum Y c.
Proof. unfold csum. rewrite map_app, qsum_app. reflexivity. Qed.

Lemma fold_vadd_maps {A} (h : A -> nat -> Qc) (g : nat -> Qc) (post : list A) (cols : list nat) :
  fold_left vadd (map (fun a => map (h a) cols) post) (map g cols)
  = map (fun c => g c + qsum (map (fun a => h a c) post)) cols.
Proof.
  revert g. induction post as [|a post IH]; intro g; cbn [map fold_left qsum].
  - apply map_ext. intro c. ring.
  - rewrite vadd_maps, IH. apply map_ext. intro c. ring.
Qed.

Lemma inner_skip bc cols pre k st : (k + length pre <= bc)%nat ->
  fold_left (tri_inner K bc cols) (enum_from k pre) st = st.
Proof.
  revert k. induction pre as [|x pre IH]; intros k H; [reflexivity|].
  rewrite enum_from_cons. cbn [fold_left length] in *. destruct st as [[acc rs] dg].
  unfold tri_inner at 2. assert (E : (k <? bc)%nat = true) by (apply Nat.ltb_lt; lia). rewrite E.
  apply IH. lia.
Qed.

Fixpoint post_rs (bc : nat) (cols : list nat) (k : nat) (post : list (list nat)) (rs : list (list Qc)) :=
  match post with
  | [] => rs
  | rows :: post' =>
      post_rs bc cols (S k) post'
        (if (bc =? 0)%nat then rs ++ [block_rowsum K rows cols]
         else upd k (vadd (nth k rs []) (block_rowsum K rows cols)) rs)
  end.

Lemma inner_post bc cols post k acc rs dg : (bc < k)%nat ->
  fold_left (tri_inner K bc cols) (enum_from k post) (acc, rs, dg)
  = (fold_left vadd (map (fun rows => block_colsum K rows cols) post) acc, post_rs bc cols k post rs, dg).
Proof.
  revert k acc rs. induction post as [|rows post IH]; intros k acc rs H; [reflexivity|].
  rewrite enum_from_cons. cbn [fold_left map post_rs]. unfold tri_inner at 2.
  assert (E1 : (k <? bc)%nat = false) by (apply Nat.ltb_ge; lia).
  assert (E2 : (k =? bc)%nat = false) by (apply Nat.eqb_neq; lia).
  rewrite E1, E2. apply IH. lia.
Qed.

Lemma post_rs_zero cols k post rs :
  post_rs 0 cols k post rs = rs ++ map (fun rows => block_rowsum K rows cols) post.
Proof. revert k rs. induction post as [|rows post IH]; intros k rs; cbn [post_rs map Nat.eqb];
  [rewrite app_nil_r; reflexivity | rewrite IH, <- app_assoc; reflexivity]. Qed.

Lemma post_rs_pos bc cols post k rs : (bc <> 0)%nat -> (k + length post <= length rs)%nat ->
  length (post_rs bc cols k post rs) = length rs /\
  forall j, nth j (post_rs bc cols k post rs) []
            = if ((k <=? j) && (j <? k + length post))%nat
              then vadd (nth j rs []) (block_rowsum K (nth (j - k) post []) cols)
              else nth j rs [].
Proof.
  intro Hbc. revert k rs. induction post as [|rows post IH]; intros k rs H.
  - split; [reflexivity|]. intro j. cbn [post_rs length]. rewrite Nat.add_0_r.
    destruct (k <=? j)%nat eqn:E1; destruct (j <? k)%nat eqn:E2; cbn [andb]; try reflexivity.
    apply Nat.leb_le in E1. apply Nat.ltb_lt in E2. lia.
  - cbn [post_rs length] in *. assert (E : (bc =? 0)%nat = false) by (apply Nat.eqb_neq; exact Hbc). rewrite E.
    set (rs1 := upd k (vadd (nth k rs []) (block_rowsum K rows cols)) rs).
    assert (Hl : length rs1 = length rs) by apply upd_length.
    destruct (IH (S k) rs1) as [IH1 IH2]; [rewrite Hl; clear - H; lia|].
    split; [rewrite IH1; exact Hl|]. intro j. rewrite IH2.
    destruct (Nat.eq_dec j k) as [->|Hjk].
    + assert (E1 : (S k <=? k)%nat = false) by (apply Nat.leb_gt; lia). rewrite E1. cbn [andb].
      assert (E2 : (k <=? k)%nat = true) by (apply Nat.leb_le; lia).
      assert (E3 : (k <? k + S (length post))%nat = true) by (apply Nat.ltb_lt; lia).
      rewrite E2, E3. cbn [andb]. rewrite Nat.sub_diag. cbn [nth]. unfold rs1. apply nth_upd_same. lia.
    + assert (Hn : nth j rs1 [] = nth j rs []) by (unfold rs1; apply nth_upd_other; lia). rewrite Hn.
      destruct (S k <=? j)%nat eqn:E1.
      * apply Nat.leb_le in E1. assert (E2 : (k <=? j)%nat = true) by (apply Nat.leb_le; lia). rewrite E2.
        replace (k + S (length post))%nat with (S k + length post)%nat by lia.
        destruct (j <? S k + length post)%nat; cbn [andb]; [|reflexivity].
        replace (j - k)%nat with (S (j - S k)) by lia. reflexivity.
      * apply Nat.leb_gt in E1. assert (E2 : (k <=? j)%nat = false) by (apply Nat.leb_gt; lia). rewrite E2.
        reflexivity.
Qed.

(* one column batch: inner loop over all the batches of B = pre ++ cols :: post *)
Lemma inner_all pre cols post rs dg :
  fold_left (tri_inner K (length pre) cols) (enum (pre ++ cols :: post)) (vzero (length cols), rs, dg)
  = (fold_left vadd (map (fun rows => block_colsum K rows cols) post)
       (vadd (vadd (vzero (length cols)) (block_colsum K cols cols)) (nth (length pre) rs [])),
     post_rs (length pre) cols (S (length pre)) post rs,
     dg ++ [block_diag K cols cols]).
Proof.
  change (enum (pre ++ cols :: post)) with (enum_from 0 (pre ++ cols :: post)).
  rewrite enum_from_app, fold_left_app. rewrite (inner_skip (length pre) cols pre 0) by lia. cbn [plus]. rewrite enum_from_cons.
  cbn [fold_left]. unfold tri_inner at 2.
  assert (E1 : (length pre <? length pre)%nat = false) by (apply Nat.ltb_ge; lia).
  rewrite E1, Nat.eqb_refl. apply inner_post. lia.
Qed.

Variable B : list (list nat).
(* K is symmetric on the indices of the dataset *)
Hypothesis Hsym : forall r c, In r (concat B) -> In c (concat B) -> kent K r c = kent K c r.

Definition rs_inv (bc : nat) (rs : list (list Qc)) : Prop :=
  ((bc = 0)%nat \/ length rs = length B) /\
  forall j, (bc <= j < length B)%nat -> ((bc = 0)%nat -> (j = 0)%nat) ->
            nth j rs [] = block_rowsum K (nth j B []) (concat (firstn bc B)).

Lemma in_concat_nth j x : In x (nth j B []) -> In x (concat B).
Proof. intro H. apply in_concat. exists (nth j B []). split; [|exact H].
  destruct (Nat.lt_ge_cases j (length B)) as [Hl|Hl]; [apply nth_In; exact Hl|].
  rewrite nth_overflow in H by exact Hl. destruct H. Qed.

Lemma outer_all rest pre cs rs dg : B = pre ++ rest -> rs_inv (length pre) rs ->
  (pre = [] -> rs = [vzero (length (hd [] B))]) ->
  exists rsf, fold_left (tri_outer K B) (enum_from (length pre) rest) (cs, rs, dg)
    = (cs ++ map (fun cols => map (csum (concat B)) cols) rest, rsf,
       dg ++ map (fun cols => map (fun c => kent K c c) cols) rest).
Proof.
  revert pre cs rs dg. induction rest as [|cols rest IH]; intros pre cs rs dg HB Hinv H0.
  - exists rs. cbn [enum_from length seq combine fold_left map]. rewrite !app_nil_r. reflexivity.
  - rewrite enum_from_cons. cbn [fold_left]. unfold tri_outer at 2.
    replace (enum B) with (enum (pre ++ cols :: rest)) by (rewrite <- HB; reflexivity). rewrite inner_all.
    set (bc := length pre) in *.
    (* the value read on the diagonal: row sums over the previous column batches *)
    assert (Hcols : nth bc B [] = cols).
    { rewrite HB. unfold bc. rewrite app_nth2 by lia. rewrite Nat.sub_diag. reflexivity. }
    assert (Hbc : (bc < length B)%nat) by (rewrite HB, app_length; cbn [length]; unfold bc; lia).
    assert (Hfirst : firstn bc B = pre).
    { rewrite HB. unfold bc. rewrite firstn_app, Nat.sub_diag, firstn_all. cbn [firstn]. apply app_nil_r. }
    assert (Hd : nth bc rs [] = map (rsum (concat pre)) cols).
    { destruct Hinv as [_ Hn]. rewrite (Hn bc); [rewrite Hcols, Hfirst; reflexivity | lia | auto]. }
    (* column sums of the batch *)
    assert (Hacc : fold_left vadd (map (fun rows => block_colsum K rows cols) rest)
                     (vadd (vadd (vzero (length cols)) (block_colsum K cols cols)) (nth bc rs []))
                   = map (csum (concat B)) cols).
    { rewrite Hd, vzero_map. unfold block_colsum. fold (csum cols).
      rewrite (vadd_maps (fun _ => 0) (fun c => csum cols c)), vadd_maps.
      rewrite (fold_vadd_maps (fun rows c => qsum (map (fun r => kent K r c) rows))).
      apply map_ext_in. intros c Hc. rewrite HB, concat_app. cbn [concat]. rewrite !csum_app.
      assert (Hsw : rsum (concat pre) c = csum (concat pre) c).
      { unfold rsum, csum. apply qsum_map_ext. intros x Hx. apply Hsym.
        - rewrite HB, concat_app. apply in_or_app. right. cbn [concat]. apply in_or_app. left. exact Hc.
        - rewrite HB, concat_app. apply in_or_app. left. exact Hx. }
      rewrite Hsw.
      assert (Hrest : qsum (map (fun a => qsum (map (fun r => kent K r c) a)) rest) = csum (concat rest) c).
      { unfold csum. clear. induction rest as [|a l IHl]; cbn [map qsum concat]; [reflexivity|].
        rewrite map_app, qsum_app, IHl. reflexivity. }
      rewrite Hrest. ring. }
    rewrite Hacc.
    assert (Hdiag : block_diag K cols cols = map (fun c => kent K c c) cols).
    { unfold block_diag. apply map2_same. }
    rewrite Hdiag.
    (* invariant for the next column batch *)
    set (rs' := post_rs bc cols (S bc) rest rs).
    destruct (IH (pre ++ [cols]) (cs ++ [map (csum (concat B)) cols]) rs'
                 (dg ++ [map (fun c => kent K c c) cols])) as [rsf Hf].
    + rewrite <- app_assoc. exact HB.
    + rewrite app_length. cbn [length]. fold bc. replace (bc + 1)%nat with (S bc) by lia.
      assert (Hfirst' : concat (firstn (S bc) B) = concat pre ++ cols).
      { rewrite HB. replace (pre ++ cols :: rest) with ((pre ++ [cols]) ++ rest) by (rewrite <- app_assoc; reflexivity).
        replace (S bc) with (length (pre ++ [cols])) by (rewrite app_length; cbn [length]; unfold bc; lia).
        rewrite firstn_app, Nat.sub_diag, firstn_all. cbn [firstn]. rewrite app_nil_r, concat_app.
        cbn [concat]. rewrite app_nil_r. reflexivity. }
      assert (HnthB : forall j, (S bc <= j)%nat -> nth j B [] = nth (j - S bc) rest []).
      { intros j Hj. rewrite HB. rewrite app_nth2 by (fold bc; lia). fold bc.
        replace (j - bc)%nat with (S (j - S bc)) by lia. reflexivity. }
      destruct (Nat.eq_dec bc 0) as [Hz|Hnz].
      * (* first column batch: row sums are appended *)
        assert (Hpre : pre = []) by (destruct pre; [reflexivity | unfold bc in Hz; discriminate]).
        specialize (H0 Hpre). unfold rs'. rewrite Hz, post_rs_zero, H0. split.
        -- right. rewrite app_length, map_length. cbn [length]. rewrite HB, Hpre. reflexivity.
        -- intros j Hj _. rewrite Hz in Hfirst'. rewrite Hfirst', Hpre. cbn [concat app].
           destruct j as [|j]; [lia|]. cbn [app nth]. rewrite HnthB by lia. rewrite Hz.
           cbn [Nat.sub]. rewrite Nat.sub_0_r.
           destruct (Nat.lt_ge_cases j (length rest)) as [Hl|Hl].
           ++ rewrite (nth_indep _ [] (block_rowsum K [] cols)) by (rewrite map_length; exact Hl).
              rewrite (map_nth (fun rows => block_rowsum K rows cols)). reflexivity.
           ++ rewrite HB, Hpre in Hj. cbn [app length] in Hj. lia.
      * destruct Hinv as [[Hc|Hlen] Hn]; [contradiction|].
        assert (Hk : (S bc + length rest <= length rs)%nat).
        { rewrite Hlen, HB, app_length. cbn [length]. fold bc. lia. }
        destruct (post_rs_pos bc cols rest (S bc) rs Hnz Hk) as [P1 P2]. split.
        -- right. unfold rs'. rewrite P1. exact Hlen.
        -- intros j Hj _. unfold rs'. rewrite P2.
           assert (E1 : (S bc <=? j)%nat = true) by (apply Nat.leb_le; lia).
           assert (E2 : (j <? S bc + length rest)%nat = true).
           { apply Nat.ltb_lt. rewrite HB, app_length in Hj. cbn [length] in Hj. fold bc in Hj. lia. }
           rewrite E1, E2. cbn [andb]. rewrite Hn by (auto; lia). rewrite <- HnthB by lia.
           rewrite Hfirst', Hfirst. unfold block_rowsum. fold (rsum (concat pre)) (rsum cols).
           rewrite vadd_maps. apply map_ext. intro r. fold (rsum (concat pre ++ cols) r).
           rewrite rsum_app. reflexivity.
    + intro E. destruct pre; discriminate.
    + exists rsf. rewrite app_length in Hf. cbn [length] in Hf. fold bc in Hf.
      replace (bc + 1)%nat with (S bc) in Hf by lia. fold rs'. rewrite Hf.
      cbn [map]. rewrite <- !app_assoc. reflexivity.
Qed.

Lemma traverse_dense : exists rsf,
  traverse K B = (map (fun cols => map (csum (concat B)) cols) B, rsf,
                  map (fun cols => map (fun c => kent K c c) cols) B).
Proof.
  unfold traverse. change (enum B) with (enum_from (length (@nil (list nat))) B).
  apply (outer_all B [] [] [vzero (length (hd [] B))] []); [reflexivity | | auto].
  split; [left; reflexivity|]. intros j Hj Hz. rewrite (Hz eq_refl). cbn [length firstn concat nth].
  unfold block_rowsum. cbn [map qsum]. destruct B as [|b0 B']; [cbn in Hj; lia|].
  cbn [nth hd]. apply vzero_map.
Qed.
End Tri.

(* ---- instantiation to dataset.batch(bs) *)
Lemma chunks_fuel_map {A B} (f : A -> B) fuel b l :
  chunks_fuel fuel b (map f l) = map (map f) (chunks_fuel fuel b l).
Proof. revert l. induction fuel as [|fu IH]; intro l; [reflexivity|].
  destruct l as [|x l]; [reflexivity|]. cbn [chunks_fuel map].
  change (f x :: map f l) with (map f (x :: l)). rewrite firstn_map, skipn_map, IH. reflexivity. Qed.
Lemma chunks_map {A B} (f : A -> B) b l : chunks b (map f l) = map (map f) (chunks b l).
Proof. unfold chunks. rewrite map_length. apply chunks_fuel_map. Qed.

Lemma pad_map (g : Qc -> Qc) bs v : g 0 = 0 -> map g (pad bs v) = pad bs (map g v).
Proof. intro H. unfold pad. rewrite map_app, map_length. f_equal.
  induction (bs - length v)%nat as [|k IH]; cbn [repeat map]; [reflexivity | rewrite H, IH; reflexivity]. Qed.
Lemma pad_last_map (g : Qc -> Qc) bs t : g 0 = 0 -> map (map g) (pad_last bs t) = pad_last bs (map (map g) t).
Proof. intro H. induction t as [|x t IH]; [reflexivity|].
  destruct t as [|y t]; [cbn [pad_last map]; rewrite pad_map by exact H; reflexivity|].
  change (pad_last bs (x :: y :: t)) with (x :: pad_last bs (y :: t)).
  change (map (map g) (x :: y :: t)) with (map g x :: map g y :: map (map g) t).
  change (pad_last bs (map g x :: map g y :: map (map g) t)) with (map g x :: pad_last bs (map g y :: map (map g) t)).
  cbn [map]. f_equal. exact IH. Qed.

(* colmeans_triangular: for a symmetric kernel matrix and EVERY batch size, the tables accumulated over the lower
   block triangle are the row-major cut of the dense column means / dense diagonal, zero padded *)
Theorem colmeans_triangular K n bs : symmetric K n -> (1 <= bs)%nat ->
  col_means_table K bs n = table_of bs (dense_col_means K n) /\
  diag_table K bs n = table_of bs (dense_diag K n).
Proof.
  intros Hs Hbs.
  assert (Hc : concat (batches bs n) = seq 0 n) by (apply concat_chunks; exact Hbs).
  destruct (traverse_dense K (batches bs n)) as [rsf E].
  { intros r c Hr Hcc. rewrite Hc in Hr, Hcc. apply in_seq in Hr, Hcc. apply Hs; lia. }
  unfold col_means_table, diag_table, table_of. rewrite E, Hc. split.
  - rewrite pad_last_map by (unfold Qcdiv; ring). f_equal.
    unfold batches, dense_col_means. rewrite chunks_map, !map_map. apply map_ext. intro cols.
    rewrite map_map. reflexivity.
  - f_equal. unfold batches, dense_diag. rewrite chunks_map. reflexivity.
Qed.

Close Scope Qc_scope. Open Scope nat_scope.
(* ================================================================= greedy loop = dense greedy *)
Lemma bmask_all_false {A} (l : list A) m : existsb (fun x => x) m = false -> bmask l m = [].
Proof. revert m. induction l as [|x l IH]; intros [|b m] H; try reflexivity.
  cbn [existsb] in H. apply orb_false_iff in H. destruct H as [-> H]. cbn [bmask]. apply IH. exact H. Qed.

Lemma bmask_map_filter {A B} (g : A -> B) (m : A -> bool) (l : list A) :
  bmask (map g l) (map m l) = map g (filter m l).
Proof. induction l as [|x l IH]; [reflexivity|]. cbn [map bmask filter]. destruct (m x); cbn [map]; rewrite IH; reflexivity. Qed.

Lemma combine_nth_seq {A B} (a : list A) (b : list B) n da db : length a = n -> length b = n ->
  combine a b = map (fun p => (nth p a da, nth p b db)) (seq 0 n).
Proof. revert b n. induction a as [|x a IH]; intros [|y b] n Ha Hb; cbn [length] in *; subst n; try discriminate; [reflexivity|].
  cbn [combine seq map nth]. f_equal. rewrite <- seq_shift, map_map. apply IH; [reflexivity | lia]. Qed.

Section Fold.
Variable K : list (list Qc).
Variables bs n : nat.
Variable obj : objective.
Variables cmT dgT : list (list Qc).
Variable t : nat.
Variable s : gstate.
Variable ssk0 : list (list (list Qc)).

Notation cand := (nat * (Qc * (Qc * list Qc)))%type (only parsing).
Definition Fobj (c : cand) : Qc * list Qc :=
  let '(p, (dg, (cm, krow))) := c in obj dg cm (g_selcm s) krow (g_ssK s).
Definition cmask_of (b : nat) (cases : list nat) : list bool :=
  let m0 := map negb (nth b (g_mask s) []) in
  if length cases <? bs then map2 andb m0 (map (fun p => p <? length cases) (seq 0 bs)) else m0.
Definition prow (b : nat) (cases : list nat) : list (list Qc) :=
  if negb (existsb (fun x => x) (cmask_of b cases)) then nth b ssk0 []
  else if 0 <? t then assign_col (t - 1) (map (fun i => kent K i (g_last s)) cases) (nth b ssk0 [])
       else nth b ssk0 [].
Definition VC (e : nat * list nat) : list ((nat * cand) * Qc) :=
  let (b, cases) := e in
  map (fun c => ((b, c), fst (Fobj c))) (candidates bs cmT dgT t b (cmask_of b cases) (prow b cases)).
Definition best_of (x : (nat * cand) * Qc) : Qc * nat * nat * list Qc :=
  let '((b, c), v) := x in (v, b, fst c, snd (Fobj c)).

Lemma batch_step_merge acc cur b cases : nth b cur [] = nth b ssk0 [] ->
  batch_step K bs obj cmT dgT t s (option_map best_of acc, cur) (b, cases)
  = (option_map best_of (merge_best acc (VC (b, cases))),
     if negb (existsb (fun x => x) (cmask_of b cases)) then cur
     else if 0 <? t then upd b (prow b cases) cur else cur).
Proof.
  intro Hrow. unfold batch_step. cbv zeta. fold (cmask_of b cases).
  unfold VC, prow. destruct (negb (existsb (fun x => x) (cmask_of b cases))) eqn:Eany.
  - (* no candidate: skipped *)
    apply negb_true_iff in Eany. unfold candidates. rewrite (bmask_all_false _ _ Eany). cbn [map].
    unfold merge_best. cbn [first_max]. destruct acc; reflexivity.
  - set (cur' := if 0 <? t then upd b (assign_col (t - 1) (map (fun i => kent K i (g_last s)) cases) (nth b cur [])) cur else cur).
    assert (Hr : nth b cur' [] = if 0 <? t then assign_col (t - 1) (map (fun i => kent K i (g_last s)) cases) (nth b ssk0 []) else nth b ssk0 []).
    { unfold cur'. destruct (0 <? t); [|exact Hrow]. rewrite Hrow.
      destruct (Nat.lt_ge_cases b (length cur)) as [Hl|Hl]; [apply nth_upd_same; exact Hl|].
      (* out of range: the row is [] and assign_col on [] is [] *)
      assert (E0 : nth b ssk0 [] = []) by (rewrite <- Hrow; apply nth_overflow; exact Hl).
      rewrite E0. assert (Hu : upd b (assign_col (t - 1) (map (fun i => kent K i (g_last s)) cases) []) cur = cur).
      { clear - Hl. revert b Hl. induction cur as [|x l IH]; intros b Hl; [destruct b; reflexivity|].
        destruct b; [cbn [length] in Hl; lia|]. cbn [upd]. f_equal. apply IH. cbn [length] in Hl. lia. }
      rewrite Hu, nth_overflow by exact Hl. destruct (map _ cases); reflexivity. }
    rewrite Hr.
    set (cands := candidates bs cmT dgT t b (cmask_of b cases)
                   (if 0 <? t then assign_col (t - 1) (map (fun i => kent K i (g_last s)) cases) (nth b ssk0 []) else nth b ssk0 [])).
    change (map (fun c : nat * (Qc * (Qc * list Qc)) => let '(_, (dg, (cm, krow))) := c in
                  obj dg cm (g_selcm s) krow (g_ssK s)) cands) with (map Fobj cands).
    assert (Hcomb : combine cands (map Fobj cands) = map (fun c => (c, Fobj c)) cands).
    { clear. induction cands as [|c l IH]; [reflexivity|]. cbn [map combine]. rewrite IH. reflexivity. }
    rewrite Hcomb, map_map.
    pose proof (argmax_first_max (fun c => fst (Fobj c)) cands) as Hfm.
    rewrite nth_error_map.
    assert (Hcur : (if 0 <? t then upd b (if 0 <? t then assign_col (t - 1) (map (fun i => kent K i (g_last s)) cases) (nth b ssk0 []) else nth b ssk0 []) cur else cur) = cur').
    { unfold cur'. destruct (0 <? t); [rewrite Hrow|]; reflexivity. }
    rewrite Hcur.
    unfold merge_best.
    assert (Hfm2 : first_max (map (fun c => ((b, c), fst (Fobj c))) cands)
                   = option_map (fun c => ((b, c), fst (Fobj c))) (nth_error cands (argmax (map (fun c => fst (Fobj c)) cands)))).
    { generalize (argmax (map (fun c => fst (Fobj c)) cands)) Hfm. clear. intros am Hfm.
      assert (G : forall l : list cand, first_max (map (fun c => ((b, c), fst (Fobj c))) l)
                  = option_map (fun x : cand * Qc => ((b, fst x), snd x)) (first_max (map (fun c => (c, fst (Fobj c))) l))).
      { induction l as [|c l IH]; [reflexivity|]. cbn [map first_max]. rewrite IH.
        destruct (first_max (map (fun c0 => (c0, fst (Fobj c0))) l)) as [[c' v']|]; cbn [option_map snd fst]; [|reflexivity].
        destruct (Qcltb (fst (Fobj c)) v'); reflexivity. }
      rewrite G, <- Hfm. destruct (nth_error cands am); reflexivity. }
    rewrite Hfm2.
    destruct (nth_error cands (argmax (map (fun c => fst (Fobj c)) cands))) as [c|]; cbn [option_map].
    + destruct (Fobj c) as [bv bw] eqn:EF. destruct acc as [[[b0 c0] v0]|]; cbn [option_map best_of comb snd fst].
      * destruct (Qcltb v0 bv); cbn [option_map best_of]; rewrite ?EF; reflexivity.
      * rewrite EF. reflexivity.
    + destruct acc; reflexivity.
Qed.

Lemma fold_batches_merge rest : forall k acc cur,
  (forall b, k <= b -> nth b cur [] = nth b ssk0 []) ->
  exists cur',
    fold_left (batch_step K bs obj cmT dgT t s) (enum_from k rest) (option_map best_of acc, cur)
    = (option_map best_of (fold_left merge_best (map VC (enum_from k rest)) acc), cur')
    /\ length cur' = length cur
    /\ (forall b, k + length rest <= b -> nth b cur' [] = nth b cur [])
    /\ (forall b, b < k -> nth b cur' [] = nth b cur [])
    /\ (forall j cases, nth_error rest j = Some cases -> k + j < length cur -> nth (k + j) cur' [] = prow (k + j) cases).
Proof.
  induction rest as [|cases rest IH]; intros k acc cur Hrow.
  - exists cur. cbn [enum_from length seq combine fold_left map]. repeat split; auto.
    intros j cases Hj. destruct j; discriminate.
  - rewrite enum_from_cons. cbn [fold_left map]. rewrite batch_step_merge by (apply Hrow; lia).
    set (cur1 := if negb (existsb (fun x => x) (cmask_of k cases)) then cur
                 else if 0 <? t then upd k (prow k cases) cur else cur).
    assert (Hl1 : length cur1 = length cur).
    { unfold cur1. destruct (negb _); [reflexivity|]. destruct (0 <? t); [apply upd_length | reflexivity]. }
    assert (Ho1 : forall b, b <> k -> nth b cur1 [] = nth b cur []).
    { intros b Hb. unfold cur1. destruct (negb _); [reflexivity|]. destruct (0 <? t); [|reflexivity].
      apply nth_upd_other. lia. }
    assert (Hk1 : k < length cur -> nth k cur1 [] = prow k cases).
    { intro Hk. unfold cur1. destruct (negb (existsb (fun x => x) (cmask_of k cases))) eqn:E.
      - unfold prow. rewrite E. apply Hrow. lia.
      - destruct (0 <? t) eqn:Et; [apply nth_upd_same; exact Hk|].
        unfold prow. rewrite E, Et. apply Hrow. lia. }
    destruct (IH (S k) (merge_best acc (VC (k, cases))) cur1) as [cur' [E [L [A [Bf C]]]]].
    { intros b Hb. rewrite Ho1 by lia. apply Hrow. lia. }
    exists cur'. split; [exact E|]. split; [rewrite L; exact Hl1|]. split; [|split].
    + intros b Hb. cbn [length] in Hb. rewrite A by lia. apply Ho1. lia.
    + intros b Hb. rewrite Bf by lia. apply Ho1. lia.
    + intros j cs Hj Hin. destruct j as [|j].
      * cbn [nth_error] in Hj. injection Hj as <-. rewrite Nat.add_0_r in *. rewrite Bf by lia. apply Hk1. exact Hin.
      * cbn [nth_error] in Hj. replace (k + S j) with (S k + j) in * by lia. apply C; [exact Hj | rewrite Hl1; exact Hin].
Qed.
End Fold.

(* ---- structure of dataset.batch(bs) over range(n) *)
Lemma firstn_seq' k s m : firstn k (seq s m) = seq s (Nat.min k m).
Proof. revert s m. induction k as [|k IH]; intros s m; [reflexivity|].
  destruct m; [reflexivity|]. cbn [seq firstn Nat.min]. f_equal. apply IH. Qed.
Lemma skipn_seq' k s m : skipn k (seq s m) = seq (s + k) (m - k).
Proof. revert s m. induction k as [|k IH]; intros s m; [rewrite Nat.add_0_r, Nat.sub_0_r; reflexivity|].
  destruct m; [reflexivity|]. cbn [seq skipn Nat.sub]. rewrite IH. f_equal. lia. Qed.

Lemma chunks_seq_enum bs : 1 <= bs -> forall m s k b cases,
  In (b, cases) (enum_from k (chunks bs (seq s m))) ->
  exists j, b = k + j /\ cases = seq (s + j * bs) (length cases) /\ 1 <= length cases <= bs /\ j * bs + length cases <= m.
Proof.
  intro Hbs. induction m as [m IH] using lt_wf_ind. intros s k b cases Hin.
  destruct m as [|m]; [destruct Hin|].
  rewrite chunks_cons_step in Hin by (auto; discriminate). rewrite enum_from_cons in Hin.
  rewrite firstn_seq', skipn_seq' in Hin. destruct Hin as [E|Hin].
  - injection E as <- <-. exists 0. rewrite seq_length. repeat split; try lia. f_equal. lia.
  - apply IH in Hin; [|lia]. destruct Hin as [j [-> [Hc [Hl Hm]]]].
    exists (S j). rewrite Nat.mul_succ_l. repeat split; try lia. rewrite Hc at 1. f_equal. lia.
Qed.

Lemma map_snd_enum_from {A} k (l : list A) : map snd (enum_from k l) = l.
Proof. revert k. induction l as [|x l IH]; intro k; [reflexivity|]. rewrite enum_from_cons. cbn [map snd]. rewrite IH. reflexivity. Qed.
Lemma in_enum_from_lt {A} k (l : list A) b x : In (b, x) (enum_from k l) -> k <= b < k + length l.
Proof. revert k. induction l as [|y l IH]; intros k H; [destruct H|]. rewrite enum_from_cons in H.
  destruct H as [E|H]; [injection E as <- _; cbn [length]; lia|]. apply IH in H. cbn [length]. lia. Qed.

(* ---- padded tables: lookup and row lengths *)
Lemma nthq_pad bs v p : nthq (pad bs v) p = nthq v p.
Proof. unfold nthq, pad. destruct (Nat.lt_ge_cases p (length v)) as [H|H].
  - apply app_nth1. exact H.
  - rewrite app_nth2 by exact H. rewrite (nth_overflow v) by exact H.
    generalize (p - length v). generalize (bs - length v). intros a c. revert c.
    induction a as [|a IH]; intros [|c]; cbn [repeat nth]; auto. Qed.
Lemma nth_pad_last bs t b : nth b (pad_last bs t) [] = nth b t [] \/ nth b (pad_last bs t) [] = pad bs (nth b t []).
Proof. revert b. induction t as [|x t IH]; intro b; [left; reflexivity|].
  destruct t as [|y t].
  - destruct b as [|b]; [right; reflexivity | left; destruct b; reflexivity].
  - change (pad_last bs (x :: y :: t)) with (x :: pad_last bs (y :: t)).
    destruct b as [|b]; [left; reflexivity|]. cbn [nth]. apply IH. Qed.
Lemma table_lookup bs v b p : 1 <= bs -> p < bs -> nthq (nth b (table_of bs v) []) p = nthq v (b * bs + p).
Proof. intros Hbs Hp. unfold table_of.
  destruct (nth_pad_last bs (chunks bs v) b) as [E|E]; rewrite E; [|rewrite nthq_pad];
    unfold nthq; apply nth_chunks; assumption. Qed.
Lemma pad_last_length bs t : length (pad_last bs t) = length t.
Proof. induction t as [|x t IH]; [reflexivity|]. destruct t; [reflexivity|].
  change (pad_last bs (x :: l :: t)) with (x :: pad_last bs (l :: t)). cbn [length] in *. rewrite IH. reflexivity. Qed.
Lemma table_of_rows bs (v : list Qc) : 1 <= bs -> Forall (fun r => length r = bs) (table_of bs v).
Proof.
  intro Hbs. unfold table_of. pattern v. apply (chunks_ind _ bs Hbs); clear v.
  - constructor.
  - intros v Hv IH. rewrite chunks_cons_step by assumption.
    destruct (skipn bs v) as [|y r] eqn:Es.
    + rewrite chunks_nil. cbn [pad_last]. constructor; [|constructor].
      unfold pad. rewrite app_length, repeat_length, firstn_length. lia.
    + rewrite chunks_cons_step in * by (auto; discriminate).
      match goal with |- Forall _ (pad_last bs (?a :: ?b :: ?c)) => change (pad_last bs (a :: b :: c)) with (a :: pad_last bs (b :: c)) end.
      constructor; [|exact IH]. rewrite firstn_length.
      assert (length (skipn bs v) = length (y :: r)) by (rewrite Es; reflexivity).
      rewrite skipn_length in H. cbn [length] in H. lia.
Qed.

Lemma zip4 (dg cm : list Qc) (rows : list (list Qc)) : forall k, length dg = length cm -> length cm = length rows ->
  combine (seq k (length dg)) (combine dg (combine cm rows))
  = map (fun j => (k + j, (nthq dg j, (nthq cm j, nth j rows [])))) (seq 0 (length dg)).
Proof.
  revert cm rows. induction dg as [|x dg IH]; intros [|y cm] [|r rows] k H1 H2; cbn [length] in *; try discriminate; [reflexivity|].
  cbn [seq combine map]. unfold nthq at 1 2. cbn [nth]. rewrite Nat.add_0_r. f_equal.
  rewrite (IH cm rows (S k)) by lia. rewrite <- seq_shift, map_map. apply map_ext. intro j.
  unfold nthq. cbn [nth]. f_equal. lia.
Qed.

Lemma nth_assign_col j vals rows p : p < length vals -> p < length rows ->
  nth p (assign_col j vals rows) [] = upd j (nthq vals p) (nth p rows []).
Proof. revert rows p. induction vals as [|v vals IH]; intros [|r rows] p H1 H2; cbn [length] in *; try lia.
  destruct p; cbn [assign_col nth]; [reflexivity|]. unfold nthq. cbn [nth]. apply IH; lia. Qed.
Lemma assign_col_length j vals rows : length (assign_col j vals rows) = length rows.
Proof. revert rows. induction vals as [|v vals IH]; intros [|r rows]; cbn [assign_col length]; auto. Qed.
Lemma firstn_upd_last {A} j (v : A) r : j < length r -> firstn (S j) (upd j v r) = firstn j r ++ [v].
Proof. revert j. induction r as [|x r IH]; intros [|j] H; cbn [length] in *; try lia; [reflexivity|].
  cbn [upd firstn app]. f_equal. apply IH. lia. Qed.
Lemma filter_map_comm {A B} (h : A -> B) (f : B -> bool) l : filter f (map h l) = map h (filter (fun x => f (h x)) l).
Proof. induction l as [|x l IH]; [reflexivity|]. cbn [map filter]. destruct (f (h x)); cbn [map]; rewrite IH; reflexivity. Qed.
Lemma seq_as_map k m : seq k m = map (fun p => k + p) (seq 0 m).
Proof. apply seq_shift_map. Qed.


Lemma first_max_proj {A B} (h : A -> B) (l : list (A * Qc)) :
  first_max (map (fun x => (h (fst x), snd x)) l) = option_map (fun x => (h (fst x), snd x)) (first_max l).
Proof. induction l as [|x l IH]; [reflexivity|]. cbn [map first_max]. rewrite IH.
  destruct (first_max l) as [y|]; cbn [option_map snd]; [|reflexivity]. destruct (Qcltb (snd x) (snd y)); reflexivity. Qed.

Lemma first_max_in {A} (l : list (A * Qc)) x : first_max l = Some x -> In x l.
Proof. intro H. apply first_max_spec in H. destruct H as [l1 [l2 [-> _]]]. apply in_or_app. right. left. reflexivity. Qed.

Lemma in_enum_from_nth {A} k (l : list A) b x : In (b, x) (enum_from k l) <-> k <= b /\ nth_error l (b - k) = Some x.
Proof. revert k. induction l as [|y l IH]; intro k.
  - split; [intros [] | intros [_ H]; destruct (b - k); discriminate].
  - rewrite enum_from_cons. split.
    + intros [E|H]; [injection E as <- <-; rewrite Nat.sub_diag; split; [lia | reflexivity]|].
      apply IH in H. destruct H as [Hk H]. split; [lia|]. replace (b - k) with (Datatypes.S (b - Datatypes.S k)) by lia. exact H.
    + intros [Hk H]. destruct (Nat.eq_dec b k) as [->|Hne].
      * rewrite Nat.sub_diag in H. injection H as <-. left. reflexivity.
      * right. apply IH. split; [lia|]. replace (b - k) with (Datatypes.S (b - Datatypes.S k)) in H by lia. exact H.
Qed.

Lemma upd_overflow {A} i (v : A) l : length l <= i -> upd i v l = l.
Proof. revert i. induction l as [|x l IH]; intros i H; [destruct i; reflexivity|].
  destruct i; [cbn [length] in H; lia|]. cbn [upd]. f_equal. apply IH. cbn [length] in H. lia. Qed.

Lemma mask_at_upd2_other m b p b' p' : (b, p) <> (b', p') -> mask_at (upd2 b p true m) b' p' = mask_at m b' p'.
Proof. intro H. unfold mask_at, upd2. destruct (Nat.eq_dec b b') as [<-|Hb].
  - destruct (Nat.lt_ge_cases b (length m)) as [Hl|Hl].
    + rewrite nth_upd_same by exact Hl. apply nth_upd_other. intro E. apply H. subst. reflexivity.
    + rewrite upd_overflow by exact Hl. reflexivity.
  - rewrite nth_upd_other by exact Hb. reflexivity. Qed.

Definition unsel (S : list nat) (i : nat) : bool := negb (existsb (Nat.eqb i) S).

Section Step.
Variable K : list (list Qc).
Variables bs n np : nat.
Variable obj : objective.
Variable updw : weight_update.
Hypothesis Hbs : 1 <= bs.
Hypothesis Hsym : symmetric K n.
Let cmT := col_means_table K bs n.
Let dgT := diag_table K bs n.
Let nb := length (batches bs n).

Record inv (s : gstate) (S : list nat) : Prop := {
  i_sel : map (flat_idx bs) (g_sel s) = S;
  i_lt : forall i, In i S -> i < n;
  i_mask_rows : forall b, b < nb -> length (nth b (g_mask s) []) = bs;
  i_mask_len : length (g_mask s) = nb;
  i_mask : forall b p, p < bs -> mask_at (g_mask s) b p = existsb (Nat.eqb (b * bs + p)) S;
  i_selcm : g_selcm s = map (colmean K n) S;
  i_ssK : g_ssK s = submat K S;
  i_last : S <> [] -> g_last s = last S 0;
  i_ssk_len : length (g_ssk s) = nb;
  i_ssk_rows : forall b, b < nb -> length (nth b (g_ssk s) []) = bs;
  i_ssk_cells : forall b p, b < nb -> p < bs -> length (nth p (nth b (g_ssk s) []) []) = np;
  i_ssk : forall b cases, In (b, cases) (enum (batches bs n)) -> (exists i, In i cases /\ unsel S i = true) ->
          forall p, p < length cases ->
          firstn (length S - 1) (nth p (nth b (g_ssk s) []) [])
          = map (fun x => kent K (b * bs + p) x) (firstn (length S - 1) S)
}.

Definition mk (S : list nat) (b i : nat) : nat * (Qc * (Qc * list Qc)) :=
  (i - b * bs, (kent K i i, (colmean K n i, map (fun x => kent K i x) S))).

Lemma batch_facts b cases : In (b, cases) (enum (batches bs n)) ->
  cases = seq (b * bs) (length cases) /\ 1 <= length cases <= bs /\ b * bs + length cases <= n /\ b < nb.
Proof. intro H. pose proof (in_enum_from_lt 0 _ _ _ H) as Hb.
  destruct (chunks_seq_enum bs Hbs n 0 0 b cases H) as [j [-> [Hc [Hl Hn]]]]. cbn [plus] in *.
  split; [exact Hc|]. split; [lia|]. split; [lia|]. unfold nb. unfold batches in *. lia. Qed.

Lemma tables_are_dense :
  cmT = table_of bs (dense_col_means K n) /\ dgT = table_of bs (dense_diag K n).
Proof. apply colmeans_triangular; assumption. Qed.

Lemma table_len (f : nat -> Qc) b : b < nb -> length (nth b (table_of bs (map f (seq 0 n))) []) = bs.
Proof. intro Hb. pose proof (table_of_rows bs (map f (seq 0 n)) Hbs) as F.
  rewrite Forall_nth in F. apply F. unfold table_of. rewrite pad_last_length, chunks_map, map_length. exact Hb. Qed.

(* the candidates of one batch, read from the padded tables, are the unselected cases of the batch with their
   dense data *)
Lemma batch_candidates s S b cases : inv s S -> length S <= np -> In (b, cases) (enum (batches bs n)) ->
  candidates bs cmT dgT (length S) b (cmask_of bs s b cases) (prow K bs (length S) s (g_ssk s) b cases)
  = map (mk S b) (filter (unsel S) cases).
Proof.
  intros I Hnp Hin. destruct (batch_facts b cases Hin) as [Hc [[Hl1 Hl2] [Hn Hb]]].
  destruct tables_are_dense as [Ecm Edg].
  set (len := length cases) in *. set (t := length S).
  set (row := nth b (g_mask s) []).
  assert (Hrow : length row = bs) by (apply (i_mask_rows s S I); exact Hb).
  (* the candidate mask as a function of the position *)
  set (mfun := fun p => negb (nth p row false) && (p <? len)).
  assert (Hmask : cmask_of bs s b cases = map mfun (seq 0 bs)).
  { unfold cmask_of. fold row. fold len. rewrite (list_as_seq row false), Hrow, map_map.
    destruct (len <? bs) eqn:E.
    - rewrite map2_seq. reflexivity.
    - apply map_ext_in. intros p Hp. apply in_seq in Hp. unfold mfun.
      apply Nat.ltb_ge in E. assert (E2 : (p <? len) = true) by (apply Nat.ltb_lt; lia). rewrite E2, andb_true_r.
      reflexivity. }
  assert (Hmf : forall p, p < len -> mfun p = unsel S (b * bs + p)).
  { intros p Hp. unfold mfun, unsel. assert (E2 : (p <? len) = true) by (apply Nat.ltb_lt; lia).
    rewrite E2, andb_true_r. f_equal. apply (i_mask s S I). lia. }
  set (pr := prow K bs t s (g_ssk s) b cases).
  assert (Hprl : length pr = bs).
  { unfold pr, prow. destruct (negb _); [apply (i_ssk_rows s S I); exact Hb|].
    destruct (0 <? t); [rewrite assign_col_length|]; apply (i_ssk_rows s S I); exact Hb. }
  unfold candidates. fold pr.
  assert (Hld : length (nth b dgT []) = bs) by (rewrite Edg; apply table_len; exact Hb).
  assert (Hlc : length (nth b cmT []) = bs) by (rewrite Ecm; apply table_len; exact Hb).
  rewrite <- Hld at 1. rewrite zip4 by (rewrite ?map_length; lia). rewrite Hld, Hmask, bmask_map_filter.
  (* positions beyond the batch are masked *)
  assert (Hf : filter mfun (seq 0 bs) = filter mfun (seq 0 len)).
  { replace bs with (len + (bs - len)) at 1 by lia. rewrite seq_app, filter_app.
    assert (E : filter mfun (seq (0 + len) (bs - len)) = []).
    { generalize (bs - len). intro k. cbn [plus].
      assert (G : forall k a, len <= a -> filter mfun (seq a k) = []).
      { clear. induction k as [|k IHk]; intros a Ha; [reflexivity|]. cbn [seq filter]. unfold mfun at 1.
        assert (E : (a <? len) = false) by (apply Nat.ltb_ge; exact Ha). rewrite E, andb_false_r. apply IHk. lia. }
      apply G. lia. }
    rewrite E, app_nil_r. reflexivity. }
  rewrite Hf, (filter_ext_in mfun (fun p => unsel S (b * bs + p))) by (intros p Hp; apply in_seq in Hp; apply Hmf; lia).
  replace (filter (unsel S) cases) with (filter (unsel S) (seq (b * bs) len)) by (rewrite <- Hc; reflexivity).
  rewrite (seq_as_map (b * bs) len), filter_map_comm, map_map.
  apply map_ext_in. intros p Hp. apply filter_In in Hp. destruct Hp as [Hp Hu]. apply in_seq in Hp.
  unfold mk. cbn [plus]. replace (b * bs + p - b * bs) with p by lia.
  assert (Hi : b * bs + p < n) by lia.
  f_equal. f_equal; [|f_equal].
  - rewrite Edg, table_lookup by (auto; lia). unfold dense_diag, nthq. rewrite nth_map_seq by exact Hi. reflexivity.
  - rewrite Ecm, table_lookup by (auto; lia). unfold dense_col_means, nthq. rewrite nth_map_seq by exact Hi. reflexivity.
  - (* the kernel row to the selection *)
    rewrite (nth_indep _ [] (firstn t [])) by (rewrite map_length, Hprl; lia). rewrite map_nth.
    assert (Hany : existsb (fun x => x) (cmask_of bs s b cases) = true).
    { rewrite Hmask. apply existsb_exists. exists true. split; [|reflexivity].
      apply in_map_iff. exists p. split; [rewrite Hmf by lia; exact Hu | apply in_seq; lia]. }
    unfold pr, prow. rewrite Hany. cbn [negb].
    destruct (Nat.eq_dec t 0) as [Ht|Ht].
    + assert (S = []) by (destruct S; [reflexivity | discriminate]). subst S. rewrite Ht. reflexivity.
    + assert (Et : (0 <? t) = true) by (apply Nat.ltb_lt; lia). rewrite Et.
      rewrite nth_assign_col by (rewrite ?map_length, ?(i_ssk_rows s S I b Hb); fold len; lia).
      replace t with (Datatypes.S (t - 1)) at 1 by lia.
      rewrite firstn_upd_last by (rewrite (i_ssk_cells s S I b p Hb) by lia; lia).
      rewrite (i_ssk s S I b cases Hin) by (first [fold len; lia | exists (b * bs + p); split; [rewrite Hc; apply in_seq; lia | exact Hu]]).
      fold t. unfold nthq. rewrite (nth_indep _ 0%Qc (kent K 0 (g_last s))) by (rewrite map_length; fold len; lia).
      rewrite (map_nth (fun i => kent K i (g_last s))). rewrite Hc, seq_nth by lia.
      rewrite (i_last s S I) by (intro E; subst S; cbn in Ht; lia).
      assert (HS : S = firstn (t - 1) S ++ [last S 0]).
      { clear - Ht. unfold t in *. destruct (exists_last (l := S)) as [l' [a E]]; [intro E; subst; cbn in Ht; lia|].
        rewrite E, last_last, app_length. cbn [length]. replace (length l' + 1 - 1) with (length l') by lia.
        rewrite firstn_app, Nat.sub_diag, firstn_all. cbn [firstn]. rewrite app_nil_r. reflexivity. }
      rewrite HS at 3. rewrite map_app. reflexivity.
Qed.

Lemma prow_length s S b cases : inv s S -> In (b, cases) (enum (batches bs n)) ->
  length (prow K bs (length S) s (g_ssk s) b cases) = bs.
Proof. intros I Hin. destruct (batch_facts b cases Hin) as [_ [_ [_ Hb]]]. unfold prow.
  destruct (negb _); [apply (i_ssk_rows s S I); exact Hb|].
  destruct (0 <? length S); [rewrite assign_col_length|]; apply (i_ssk_rows s S I); exact Hb. Qed.

Lemma assign_col_cell_length j vals rows p : length (nth p (assign_col j vals rows) []) = length (nth p rows []).
Proof. revert rows p. induction vals as [|v vals IH]; intros [|r rows] p; try reflexivity.
  destruct p; cbn [assign_col nth]; [apply upd_length | apply IH]. Qed.

Lemma prow_cell_length s S b cases p : inv s S -> In (b, cases) (enum (batches bs n)) -> p < bs ->
  length (nth p (prow K bs (length S) s (g_ssk s) b cases) []) = np.
Proof. intros I Hin Hp. destruct (batch_facts b cases Hin) as [_ [_ [_ Hb]]]. unfold prow.
  destruct (negb _); [apply (i_ssk_cells s S I); assumption|].
  destruct (0 <? length S); [rewrite assign_col_cell_length|]; apply (i_ssk_cells s S I); assumption. Qed.

(* in a batch that still has a candidate, every stored kernel row to the selection is the dense one *)
Lemma prow_cells s S b cases : inv s S -> length S <= np -> In (b, cases) (enum (batches bs n)) ->
  (exists i, In i cases /\ unsel S i = true) -> forall p, p < length cases ->
  firstn (length S) (nth p (prow K bs (length S) s (g_ssk s) b cases) []) = map (fun x => kent K (b * bs + p) x) S.
Proof.
  intros I Hnp Hin Hex p Hp. destruct (batch_facts b cases Hin) as [Hc [[Hl1 Hl2] [Hn Hb]]].
  set (len := length cases) in *. set (t := length S).
  assert (Hany : existsb (fun x => x) (cmask_of bs s b cases) = true).
  { destruct Hex as [i [Hi Hu]]. rewrite Hc in Hi. apply in_seq in Hi.
    apply existsb_exists. exists true. split; [|reflexivity]. unfold cmask_of. fold len.
    set (row := nth b (g_mask s) []).
    assert (Hrow : length row = bs) by (apply (i_mask_rows s S I); exact Hb).
    assert (Hq : nth (i - b * bs) row false = false).
    { pose proof (i_mask s S I b (i - b * bs)) as Hm. unfold mask_at in Hm. fold row in Hm. rewrite Hm by lia.
      replace (b * bs + (i - b * bs)) with i by lia. unfold unsel in Hu. apply negb_true_iff in Hu. exact Hu. }
    assert (Hin1 : In true (map negb row)).
    { apply in_map_iff. exists false. split; [reflexivity|]. rewrite <- Hq. apply nth_In. lia. }
    destruct (len <? bs) eqn:E; [|exact Hin1].
    rewrite (list_as_seq row false), Hrow, map_map, map2_seq. apply in_map_iff. exists (i - b * bs).
    split; [|apply in_seq; lia]. rewrite Hq. cbn [negb andb]. apply Nat.ltb_lt. lia. }
  unfold prow. rewrite Hany. cbn [negb].
  destruct (Nat.eq_dec t 0) as [Ht|Ht].
  - assert (S = []) by (destruct S; [reflexivity | discriminate]). subst S. reflexivity.
  - assert (Et : (0 <? t) = true) by (apply Nat.ltb_lt; lia). fold t. rewrite Et.
    rewrite nth_assign_col by (rewrite ?map_length, ?(i_ssk_rows s S I b Hb); fold len; lia).
    replace t with (Datatypes.S (t - 1)) at 1 by lia.
    rewrite firstn_upd_last by (rewrite (i_ssk_cells s S I b p Hb) by lia; lia).
    rewrite (i_ssk s S I b cases Hin Hex) by (fold len; lia).
    fold t. unfold nthq. rewrite (nth_indep _ 0%Qc (kent K 0 (g_last s))) by (rewrite map_length; fold len; lia).
    rewrite (map_nth (fun i => kent K i (g_last s))). rewrite Hc, seq_nth by lia.
    rewrite (i_last s S I) by (intro E; subst S; cbn in Ht; lia).
    assert (HS : S = firstn (t - 1) S ++ [last S 0]).
    { clear - Ht. unfold t in *. destruct (exists_last (l := S)) as [l' [a E]]; [intro E; subst; cbn in Ht; lia|].
      rewrite E, last_last, app_length. cbn [length]. replace (length l' + 1 - 1) with (length l') by lia.
      rewrite firstn_app, Nat.sub_diag, firstn_all. cbn [firstn]. rewrite app_nil_r. reflexivity. }
    rewrite HS at 3. rewrite map_app. reflexivity.
Qed.

Definition vi (S : list nat) (i : nat) : nat * Qc := (i, fst (dense_value obj K n S i)).
Definition proj (x : (nat * (nat * (Qc * (Qc * list Qc)))) * Qc) : nat * Qc :=
  (fst (fst x) * bs + fst (snd (fst x)), snd x).

Lemma VC_dense s S e : inv s S -> length S <= np -> In e (enum (batches bs n)) ->
  VC K bs obj cmT dgT (length S) s (g_ssk s) e
  = map (fun i => ((fst e, mk S (fst e) i), fst (dense_value obj K n S i))) (filter (unsel S) (snd e)).
Proof.
  intros I Hnp Hin. destruct e as [b cases]. unfold VC. cbn [fst snd].
  rewrite (batch_candidates s S b cases I Hnp Hin), map_map. apply map_ext. intro i.
  unfold Fobj, mk, dense_value. rewrite (i_selcm s S I), (i_ssK s S I). reflexivity.
Qed.

Lemma dense_first_max s S : inv s S -> length S <= np ->
  first_max (map (vi S) (dense_candidates n S))
  = option_map proj (first_max (concat (map (VC K bs obj cmT dgT (length S) s (g_ssk s)) (enum (batches bs n))))).
Proof.
  intros I Hnp. unfold proj. rewrite <- (first_max_proj (fun a => fst a * bs + fst (snd a))).
  f_equal. rewrite concat_map, map_map.
  assert (Hd : dense_candidates n S = filter (unsel S) (concat (batches bs n))).
  { unfold batches. rewrite concat_chunks by exact Hbs. reflexivity. }
  rewrite Hd, <- concat_filter_map, concat_map, map_map.
  rewrite <- (map_snd_enum_from 0 (batches bs n)) at 1. rewrite map_map. f_equal.
  apply map_ext_in. intros [b cases] Hin. change (enum_from 0 (batches bs n)) with (enum (batches bs n)) in Hin.
  rewrite (VC_dense s S (b, cases) I Hnp Hin), map_map. cbn [fst snd].
  apply map_ext_in. intros i Hi. apply filter_In in Hi. destruct Hi as [Hi _].
  destruct (batch_facts b cases Hin) as [Hc _]. rewrite Hc in Hi. apply in_seq in Hi.
  unfold vi, mk. cbn [fst snd]. f_equal. lia.
Qed.

Lemma enum_nth b cases : In (b, cases) (enum (batches bs n)) <-> nth_error (batches bs n) b = Some cases.
Proof. unfold enum. change (combine (seq 0 (length (batches bs n))) (batches bs n)) with (enum_from 0 (batches bs n)).
  rewrite in_enum_from_nth, Nat.sub_0_r. split; [intros [_ H]; exact H | intro H; split; [lia | exact H]]. Qed.

(* one greedy step of the batched model = one step of the dense greedy, and the invariant is preserved *)
Lemma select_step_dense s S : inv s S -> length S <= np ->
  inv (select_step K bs n obj updw cmT dgT s) (dense_step obj K n S).
Proof.
  intros I Hnp. unfold select_step, dense_step.
  destruct (fold_batches_merge K bs obj cmT dgT (length S) s (g_ssk s) (batches bs n) 0 None (g_ssk s))
    as [cur' [E [L [_ [_ C]]]]]; [reflexivity|].
  change (enum_from 0 (batches bs n)) with (enum (batches bs n)) in E.
  assert (Elen : length (g_sel s) = length S) by (rewrite <- (i_sel s S I), map_length; reflexivity).
  rewrite Elen. cbn [option_map] in E. rewrite E. rewrite batched_first_max.
  pose proof (dense_first_max s S I Hnp) as Hd. unfold vi in Hd. rewrite Hd.
  destruct (first_max (concat (map (VC K bs obj cmT dgT (length S) s (g_ssk s)) (enum (batches bs n))))) as [[[bb c] v]|] eqn:Efm;
    cbn [option_map proj best_of fst snd]; [|exact I].
  (* the chosen candidate *)
  pose proof (first_max_in _ _ Efm) as Hin. apply in_concat in Hin. destruct Hin as [l [Hl Hx]].
  apply in_map_iff in Hl. destruct Hl as [[b cases] [<- He]].
  rewrite (VC_dense s S (b, cases) I Hnp He) in Hx. cbn [fst snd] in Hx.
  apply in_map_iff in Hx. destruct Hx as [i [Ex Hi]]. injection Ex as <- <- <-.
  apply filter_In in Hi. destruct Hi as [Hi Hu].
  destruct (batch_facts b cases He) as [Hc [[Hl1 Hl2] [Hn Hb]]].
  pose proof Hi as Hi'. rewrite Hc in Hi'. apply in_seq in Hi'.
  set (p := i - b * bs). assert (Hp : p < length cases) by (unfold p; lia).
  assert (Hflat : b * bs + p = i) by (unfold p; lia).
  unfold mk. cbn [fst snd]. fold p. rewrite Hflat.
  destruct tables_are_dense as [Ecm Edg]. fold cmT dgT in Ecm, Edg.
  assert (Hrowb : nth b cur' [] = prow K bs (length S) s (g_ssk s) b cases).
  { apply (C b cases); [apply enum_nth; exact He | rewrite (i_ssk_len s S I); exact Hb]. }
  assert (Hrows : forall b' cases', In (b', cases') (enum (batches bs n)) ->
                  nth b' cur' [] = prow K bs (length S) s (g_ssk s) b' cases').
  { intros b' cases' He'. destruct (batch_facts b' cases' He') as [_ [_ [_ Hb']]].
    apply (C b' cases'); [apply enum_nth; exact He' | rewrite (i_ssk_len s S I); exact Hb']. }
  assert (Hex : exists i0, In i0 cases /\ unsel S i0 = true) by (exists i; split; assumption).
  assert (Hnew : firstn (length S) (nth p (nth b cur' []) []) = map (fun x => kent K i x) S).
  { rewrite Hrowb, (prow_cells s S b cases I Hnp He Hex p Hp), Hflat. reflexivity. }
  assert (Hcm : nthq (nth b cmT []) p = colmean K n i).
  { rewrite Ecm, table_lookup by (auto; lia). rewrite Hflat. unfold dense_col_means, nthq.
    rewrite nth_map_seq by lia. reflexivity. }
  assert (Hdg : nthq (nth b dgT []) p = kent K i i).
  { rewrite Edg, table_lookup by (auto; lia). rewrite Hflat. unfold dense_diag, nthq.
    rewrite nth_map_seq by lia. reflexivity. }
  assert (HnotS : ~ In i S).
  { intro HiS. unfold unsel in Hu. apply negb_true_iff in Hu.
    assert (existsb (Nat.eqb i) S = true) by (apply existsb_exists; exists i; split; [exact HiS | apply Nat.eqb_refl]).
    congruence. }
  constructor; cbn [g_sel g_mask g_ssk g_selcm g_ssK g_last].
  - rewrite map_app, (i_sel s S I). cbn [map flat_idx fst snd]. unfold flat_idx. cbn [fst snd]. rewrite Hflat. reflexivity.
  - intros j Hj. apply in_app_or in Hj. destruct Hj as [Hj|[<-|[]]]; [apply (i_lt s S I); exact Hj | lia].
  - intros b' Hb'. unfold upd2. destruct (Nat.eq_dec b b') as [<-|Hne].
    + rewrite nth_upd_same by (rewrite (i_mask_len s S I); exact Hb). rewrite upd_length. apply (i_mask_rows s S I); exact Hb.
    + rewrite nth_upd_other by exact Hne. apply (i_mask_rows s S I); exact Hb'.
  - unfold upd2. rewrite upd_length. apply (i_mask_len s S I).
  - intros b' p' Hp'. rewrite existsb_app. cbn [existsb]. rewrite orb_false_r.
    destruct (Nat.eq_dec (b' * bs + p') i) as [Ei|Ei].
    + assert (b' = b /\ p' = p) as [-> ->].
      { assert (Hpp : p < bs) by lia. rewrite <- Hflat in Ei.
        assert (E1 : flat_idx bs (b', p') = flat_idx bs (b, p)) by (unfold flat_idx; cbn [fst snd]; exact Ei).
        apply flat_idx_inj in E1; cbn [snd]; try lia. injection E1 as -> ->. split; reflexivity. }
      rewrite Ei, Nat.eqb_refl, orb_true_r. apply mask_at_upd2_same.
      rewrite (i_mask_rows s S I b Hb). lia.
    + assert (En : (b' * bs + p' =? i) = false) by (apply Nat.eqb_neq; exact Ei). rewrite En, orb_false_r.
      rewrite mask_at_upd2_other; [apply (i_mask s S I); exact Hp'|].
      intro Eq. injection Eq as -> ->. apply Ei. exact Hflat.
  - rewrite (i_selcm s S I), map_app. cbn [map]. f_equal. f_equal. exact Hcm.
  - rewrite (i_ssK s S I), Hnew. fold (nthq (nth b dgT []) p). rewrite Hdg.
    apply (extend_submat K n S i Hsym); [lia | apply (i_lt s S I)].
  - intros _. rewrite last_last. reflexivity.
  - rewrite L. apply (i_ssk_len s S I).
  - intros b' Hb'. destruct (nth_error (batches bs n) b') as [cases'|] eqn:En;
      [|apply nth_error_None in En; unfold nb in Hb'; lia].
    apply enum_nth in En. rewrite (Hrows b' cases' En). apply (prow_length s S b' cases' I En).
  - intros b' p' Hb' Hp'. destruct (nth_error (batches bs n) b') as [cases'|] eqn:En;
      [|apply nth_error_None in En; unfold nb in Hb'; lia].
    apply enum_nth in En. rewrite (Hrows b' cases' En). apply (prow_cell_length s S b' cases' p' I En Hp').
  - intros b' cases' He' [i' [Hi1 Hi2]] p' Hp'. rewrite app_length. cbn [length].
    replace (length S + 1 - 1) with (length S) by lia.
    rewrite firstn_app, Nat.sub_diag, firstn_all. cbn [firstn]. rewrite app_nil_r.
    rewrite (Hrows b' cases' He'). apply (prow_cells s S b' cases' I Hnp He'); [|exact Hp'].
    exists i'. split; [exact Hi1|]. unfold unsel in *. rewrite existsb_app in Hi2.
    apply negb_true_iff in Hi2. apply orb_false_iff in Hi2. destruct Hi2 as [Hi2 _]. rewrite Hi2. reflexivity.
Qed.
End Step.

Lemma nth_repeat_lt {A} (x d : A) m i : i < m -> nth i (repeat x m) d = x.
Proof. revert i. induction m as [|m IH]; intros i H; [lia|]. destruct i; [reflexivity|]. cbn [repeat nth]. apply IH. lia. Qed.

Lemma inv_init K bs n np : inv K bs n np (init_state bs n np) [].
Proof.
  constructor; cbn [init_state g_sel g_mask g_ssk g_selcm g_ssK g_last map length]; try reflexivity.
  - intros i [].
  - intros b Hb. rewrite nth_repeat_lt by exact Hb. apply repeat_length.
  - apply repeat_length.
  - intros b p Hp. unfold mask_at. cbn [existsb].
    destruct (Nat.lt_ge_cases b (length (batches bs n))) as [Hb|Hb].
    + rewrite nth_repeat_lt by exact Hb. apply nth_repeat_lt. exact Hp.
    + rewrite (nth_overflow (repeat (repeat false bs) (length (batches bs n))) []) by (rewrite repeat_length; exact Hb).
      destruct p; reflexivity.
  - apply repeat_length.
  - intros b Hb. rewrite nth_repeat_lt by exact Hb. apply repeat_length.
  - intros b p Hb Hp. rewrite nth_repeat_lt by exact Hb. rewrite nth_repeat_lt by exact Hp. apply repeat_length.
Qed.

Lemma dense_step_length obj K n S : length (dense_step obj K n S) <= length S + 1.
Proof. unfold dense_step. destruct (first_max _) as [[c v]|]; [rewrite app_length; cbn [length]; lia | lia]. Qed.

(* greedy_batch_invariant: for EVERY batch size, the sequence of dataset positions selected by the batched model
   (padded tables, triangular column means, per-batch arg-max with strict > across batches, incremental selection
   kernel) is the dense greedy selection with first-index tie-breaking, for ANY objective that is a function of
   the candidate's diagonal value, column mean and kernel row to the selection (and of the selection itself) *)
Theorem greedy_batch_invariant obj updw K n bs np : symmetric K n -> 1 <= bs ->
  map (flat_idx bs) (g_sel (run_greedy K bs n np obj updw (col_means_table K bs n) (diag_table K bs n)))
  = dense_select obj K n np.
Proof.
  intros Hs Hbs. unfold run_greedy, dense_select.
  assert (G : forall k, k <= np ->
            inv K bs n np (Nat.iter k (select_step K bs n obj updw (col_means_table K bs n) (diag_table K bs n)) (init_state bs n np))
                (Nat.iter k (dense_step obj K n) []) /\ length (Nat.iter k (dense_step obj K n) []) <= k).
  { induction k as [|k IH]; intro Hk.
    - split; [apply inv_init | cbn; lia].
    - destruct IH as [I Hl]; [lia|].
      change (Nat.iter (S k) ?f ?x) with (f (Nat.iter k f x)). split.
      + apply select_step_dense; [exact Hbs | exact Hs | exact I | lia].
      + pose proof (dense_step_length obj K n (Nat.iter k (dense_step obj K n) [])). lia. }
  destruct (G np (le_n np)) as [I _]. apply (i_sel _ _ _ _ _ _ I).
Qed.

Theorem prototypes_batch_invariant m eps K bs np : symmetric K (length K) -> 1 <= bs ->
  map (flat_idx bs) (fst (find_prototypes m eps K bs np)) = dense_select (method_obj eps m) K (length K) np.
Proof. intros Hs Hbs. unfold find_prototypes. cbn [fst]. apply greedy_batch_invariant; assumption. Qed.

(* hence the selection (as dataset positions) does not depend on the batch size *)
Theorem selection_batch_independent m eps K bs bs' np : symmetric K (length K) -> 1 <= bs -> 1 <= bs' ->
  map (flat_idx bs) (fst (find_prototypes m eps K bs np)) = map (flat_idx bs') (fst (find_prototypes m eps K bs' np)).
Proof. intros Hs H1 H2. rewrite !prototypes_batch_invariant by assumption. reflexivity. Qed.
