From Xpl Require Import C18.Spec.
From Coq Require Import Lqa.
Open Scope Qc_scope.
Lemma qsum_map_div (w : list Qc) (s : Qc) : qsum (map (fun x => x / s) w) = qsum w / s.
Proof. induction w as [|x w IH]; cbn [map qsum]; [unfold Qcdiv; ring | rewrite IH; unfold Qcdiv; ring]. Qed.
Lemma normalise_sum w : qsum w <> 0 -> qsum (normalise w) = 1.
Proof. intro H. unfold normalise. rewrite qsum_map_div. field. exact H. Qed.
