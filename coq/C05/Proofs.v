(* C05/Proofs.v — index algebra of the perturbation-based methods and the exact-zero clauses *)
From Xpl Require Import Base.Tensor C05.Spec C06.Proofs C08.Proofs.
From Coq Require Import Arith Lqa.
Close Scope Qc_scope. Open Scope nat_scope.

(* ================================================================== nearest-neighbour upsampling *)
Lemma nb_idx_small g n i : 1 <= g -> i < n -> nb_idx g n i = ((2 * i + 1) * g) / (2 * n).
Proof.
  intros Hg Hi. unfold nb_idx. apply Nat.min_l.
  assert (((2 * i + 1) * g) / (2 * n) < g); [|lia].
  apply Nat.div_lt_upper_bound; [lia | nia].
Qed.

(* in range: never reads outside the grid *)
Lemma nb_idx_lt g n i : 1 <= g -> nb_idx g n i < g.
Proof. intro Hg. unfold nb_idx. pose proof (Nat.le_min_r (((2 * i + 1) * g) / (2 * n)) (g - 1)). lia. Qed.

(* monotone: no flip *)
Lemma nb_idx_mono g n i j : i <= j -> nb_idx g n i <= nb_idx g n j.
Proof.
  intro H. unfold nb_idx. apply Nat.min_le_compat_r.
  destruct n as [|n]; [reflexivity|]. apply Nat.div_le_mono; [lia | nia].
Qed.

(* the block of cell a: the pixels whose centre lies in [a/g, (a+1)/g) *)
Lemma nb_idx_block g n a i : 1 <= g -> i < n -> (nb_idx g n i = a <-> in_block g n a i).
Proof.
  intros Hg Hi. rewrite nb_idx_small by assumption. unfold in_block.
  set (x := (2 * i + 1) * g). assert (Hn : 2 * n <> 0) by lia.
  split.
  - intros <-. split; [apply Nat.mul_div_le; exact Hn|].
    pose proof (Nat.mul_succ_div_gt x (2 * n) Hn). lia.
  - intros [H1 H2]. symmetry. apply (Nat.div_unique x (2 * n) a (x - 2 * n * a)); lia.
Qed.

(* every cell is read by some pixel when the grid is not finer than the image *)
Lemma nb_idx_covers g n a : 1 <= g -> g <= n -> a < g -> exists i, i < n /\ nb_idx g n i = a.
Proof.
  intros Hg Hgn Ha. set (i := (2 * n * a + g - 1) / (2 * g)).
  assert (Hg2 : 2 * g <> 0) by lia.
  pose proof (Nat.mul_div_le (2 * n * a + g - 1) (2 * g) Hg2) as L.
  pose proof (Nat.mul_succ_div_gt (2 * n * a + g - 1) (2 * g) Hg2) as U. fold i in L, U.
  assert (Hb : in_block g n a i) by (unfold in_block; split; nia).
  assert (Hi : i < n) by (unfold in_block in Hb; nia).
  exists i. split; [exact Hi|]. apply nb_idx_block; assumption.
Qed.

(* exact blocks when the grid divides the image *)
Lemma nb_idx_exact g k i : 1 <= g -> 1 <= k -> i < g * k -> nb_idx g (g * k) i = i / k.
Proof.
  intros Hg Hk Hi. apply nb_idx_block; [exact Hg | exact Hi|]. unfold in_block.
  assert (Hk0 : k <> 0) by lia.
  pose proof (Nat.div_mod i k Hk0) as E. pose proof (Nat.mod_upper_bound i k Hk0) as U.
  set (qq := i / k) in *. set (r := i mod k) in *. split; nia.
Qed.

(* two pixels read the same cell iff ... at least: pixels of the same block are contiguous *)
Lemma nb_idx_convex g n i j k : i <= j -> j <= k -> nb_idx g n i = nb_idx g n k -> nb_idx g n j = nb_idx g n i.
Proof. intros H1 H2 E. pose proof (nb_idx_mono g n i j H1). pose proof (nb_idx_mono g n j k H2). lia. Qed.

(* ------------------------------------------------------------------ list slices *)
Lemma nth_firstn_lt {A} (l : list A) c k d : k < c -> nth k (firstn c l) d = nth k l d.
Proof. revert c k; induction l as [|x l IH]; intros [|c] [|k] H; cbn [firstn nth]; try lia; auto. apply IH; lia. Qed.

Lemma nth_skipn' {A} (l : list A) s k d : nth k (skipn s l) d = nth (s + k) l d.
Proof. revert l; induction s as [|s IH]; intros [|x l]; cbn [skipn nth plus]; auto. destruct k; reflexivity. Qed.

Lemma slice_nth {A} (l : list A) s c k d : k < c -> nth k (firstn c (skipn s l)) d = nth (s + k) l d.
Proof. intro H. rewrite nth_firstn_lt by exact H. apply nth_skipn'. Qed.

Lemma slice_length {A} (l : list A) s c : s + c <= length l -> length (firstn c (skipn s l)) = c.
Proof. intro H. rewrite firstn_length, skipn_length. lia. Qed.

Lemma firstn_add {A} (l : list A) n m : firstn (n + m) l = firstn n l ++ firstn m (skipn n l).
Proof. revert l; induction n as [|n IH]; intros [|x l]; cbn [plus firstn skipn app]; auto.
  - destruct m; reflexivity.
  - f_equal. apply IH. Qed.

Section GridLemmas.
Context {A : Type}.
Variable d : A.

(* ------------------------------------------------------------------ reshape / transpose *)
(* row-major reshape: entry (a, b) of the (r, c) tensor is flat entry a*c + b *)
Lemma cell_reshape2 r c (l : list A) a b : a < r -> b < c -> cell d (reshape2 r c l) a b = nth (a * c + b) l d.
Proof.
  intros Ha Hb. unfold cell, reshape2. rewrite nth_map_seq by exact Ha. apply slice_nth. exact Hb.
Qed.

(* ... conversely flat entry k sits at (k / c, k mod c) *)
Lemma cell_reshape2_flat r c (l : list A) k : 1 <= c -> k < r * c ->
  cell d (reshape2 r c l) (k / c) (k mod c) = nth k l d.
Proof.
  intros Hc Hk. assert (Hc0 : c <> 0) by lia.
  rewrite cell_reshape2; [| apply Nat.div_lt_upper_bound; [exact Hc0 | lia] | apply Nat.mod_upper_bound; exact Hc0].
  f_equal. rewrite (Nat.div_mod k c Hc0) at 3. lia.
Qed.

(* reshape does not move data: flattening the reshaped tensor gives the flat data back *)
Lemma concat_reshape2_firstn r c (l : list A) : concat (reshape2 r c l) = firstn (r * c) l.
Proof.
  unfold reshape2. induction r as [|r IH]; [reflexivity|].
  rewrite seq_S, map_app, concat_app, IH. cbn [plus map concat]. rewrite app_nil_r.
  replace (S r * c) with (r * c + c) by lia. symmetry. apply firstn_add.
Qed.

Lemma concat_reshape2 r c (l : list A) : length l = r * c -> concat (reshape2 r c l) = l.
Proof. intro H. rewrite concat_reshape2_firstn. apply firstn_all2. lia. Qed.

Lemma reshape2_length r c (l : list A) : length (reshape2 r c l) = r.
Proof. unfold reshape2. rewrite map_length, seq_length. reflexivity. Qed.

Lemma cell_transpose2 r c (M : list (list A)) i j : i < c -> j < r -> cell d (transpose2 d r c M) i j = cell d M j i.
Proof.
  intros Hi Hj. unfold transpose2. unfold cell at 1. rewrite nth_map_seq by exact Hi.
  rewrite nth_map_seq by exact Hj. reflexivity.
Qed.

(* ------------------------------------------------------------------ nearest upsampling of a mask *)
(* pixel (i, j) of the (H, W) image reads cell (nb_idx g H i, nb_idx g W j): rows with H, columns with W *)
Lemma upsample_cell g H W (m : list (list A)) i j : i < H -> j < W ->
  cell d (upsample_nearest d g H W m) i j = cell d m (nb_idx g H i) (nb_idx g W j).
Proof.
  intros Hi Hj. unfold upsample_nearest. unfold cell at 1. rewrite nth_map_seq by exact Hi.
  rewrite nth_map_seq by exact Hj. reflexivity.
Qed.

Lemma upsample_flat g H W (m : list (list A)) :
  concat (upsample_nearest d g H W m)
  = map (fun pos => cell d m (nb_idx g H (pos / W)) (nb_idx g W (pos mod W))) (seq 0 (H * W)).
Proof.
  unfold upsample_nearest. rewrite <- flat_map_concat_map.
  apply (grid_flat (fun i j => cell d m (nb_idx g H i) (nb_idx g W j))).
Qed.

(* upsampling a reshaped design row: position pos reads entry cell_of g H W pos of the row *)
Lemma upsample_design_row g H W (row : list A) pos : 1 <= g -> pos < H * W ->
  nth pos (concat (upsample_nearest d g H W (reshape2 g g row))) d = nth (cell_of g H W pos) row d.
Proof.
  intros Hg Hp. rewrite upsample_flat. rewrite nth_map_seq by exact Hp.
  rewrite cell_reshape2 by (apply nb_idx_lt; exact Hg). reflexivity.
Qed.

(* ------------------------------------------------------------------ Sobol: row-major both ways *)
(* design column a*g + b drives cell (a, b) of the mask ... *)
Lemma sobol_mask_cell g (design : list (list A)) k a b : a < g -> b < g -> k < length design ->
  cell d (nth k (sobol_masks g design) []) a b = nth (a * g + b) (nth k design []) d.
Proof.
  intros Ha Hb Hk. unfold sobol_masks.
  rewrite (nth_indep _ [] (reshape2 g g [])) by (rewrite map_length; exact Hk).
  rewrite (map_nth (reshape2 g g) design [] k). apply cell_reshape2; assumption.
Qed.

(* ... and index a*g + b of the estimator's result is reported at cell (a, b) of the map *)
Lemma sobol_post_cell g (stis : list A) a b : a < g -> b < g -> cell d (sobol_post g stis) a b = nth (a * g + b) stis d.
Proof. intros. apply cell_reshape2; assumption. Qed.

Lemma sobol_post_dim g (stis : list A) k : k < g * g -> cell d (sobol_post g stis) (k / g) (k mod g) = nth k stis d.
Proof. intro H. apply cell_reshape2_flat; [|exact H]. destruct g; lia. Qed.

Lemma sobol_post_flat g (stis : list A) : length stis = g * g -> concat (sobol_post g stis) = stis.
Proof. apply concat_reshape2. Qed.

(* ------------------------------------------------------------------ HSIC: implicit and explicit transposes *)
Lemma hsic_transposed_flat_nth g n (masks : list (list (list A))) a b k : a < g -> b < g -> k < n ->
  nth ((b * g + a) * n + k) (hsic_transposed_flat d g n masks) d = cell d (nth k masks []) a b.
Proof.
  intros Ha Hb Hk. unfold hsic_transposed_flat.
  rewrite (flat_map_ext _ (fun b => map (fun q => cell d (nth (q mod n) masks []) (q / n) b) (seq 0 (g * n)))).
  2:{ intro b0. apply (grid_flat (fun a0 k0 => cell d (nth k0 masks []) a0 b0)). }
  rewrite (grid_flat (fun b0 q => cell d (nth (q mod n) masks []) (q / n) b0)).
  assert (Hn : n <> 0) by lia. assert (Hgn : g * n <> 0) by nia.
  assert (Hlt : (b * g + a) * n + k < g * (g * n)) by nia.
  rewrite nth_map_seq by exact Hlt.
  assert (E : (b * g + a) * n + k = (g * n) * b + (a * n + k)) by lia.
  assert (Hr : a * n + k < g * n) by nia.
  rewrite <- (Nat.div_unique _ _ _ _ Hr E), <- (Nat.mod_unique _ _ _ _ Hr E).
  assert (E2 : a * n + k = n * a + k) by lia.
  rewrite <- (Nat.div_unique _ _ _ _ Hk E2), <- (Nat.mod_unique _ _ _ _ Hk E2). reflexivity.
Qed.

Lemma hsic_transposed_flat_length g n (masks : list (list (list A))) :
  length (hsic_transposed_flat d g n masks) = g * g * n.
Proof.
  unfold hsic_transposed_flat.
  rewrite (flat_map_ext _ (fun b => map (fun q => cell d (nth (q mod n) masks []) (q / n) b) (seq 0 (g * n)))).
  2:{ intro b0. apply (grid_flat (fun a0 k0 => cell d (nth k0 masks []) a0 b0)). }
  rewrite (grid_flat (fun b0 q => cell d (nth (q mod n) masks []) (q / n) b0)).
  rewrite map_length, seq_length. lia.
Qed.

(* tf.transpose + reshape enumerate the grid COLUMN-major: estimator dimension b*g + a holds the n design values
   of mask cell (row a, column b) *)
Lemma hsic_dims_cell g n (masks : list (list (list A))) a b : a < g -> b < g ->
  nth (b * g + a) (hsic_dims_lit d g n masks) [] = map (fun k => cell d (nth k masks []) a b) (seq 0 n).
Proof.
  intros Ha Hb. unfold hsic_dims_lit, reshape2.
  assert (Hd : b * g + a < g * g) by nia. rewrite nth_map_seq by exact Hd.
  apply (nth_ext _ _ d d).
  - rewrite slice_length by (rewrite hsic_transposed_flat_length; nia). rewrite map_length, seq_length. reflexivity.
  - intros k Hk. rewrite slice_length in Hk by (rewrite hsic_transposed_flat_length; nia).
    rewrite slice_nth by exact Hk. rewrite nth_map_seq by exact Hk.
    apply hsic_transposed_flat_nth; assumption.
Qed.

Lemma hsic_dims_length g n (masks : list (list (list A))) : length (hsic_dims_lit d g n masks) = g * g.
Proof. apply reshape2_length. Qed.

(* post_process: reshape then transpose (1, 0, 2): score of dimension b*g + a is reported at cell (a, b) *)
Lemma hsic_post_cell g (scores : list A) a b : a < g -> b < g ->
  cell d (hsic_post_lit d g scores) a b = nth (b * g + a) scores d.
Proof. intros Ha Hb. unfold hsic_post_lit. rewrite cell_transpose2 by assumption. apply cell_reshape2; assumption. Qed.
End GridLemmas.

(* the explicit transpose of post_process is exactly the inverse of the implicit one of the estimator: whatever the
   per-dimension statistic F, cell (a, b) of the map is F of the design values of mask cell (a, b) *)
Lemma hsic_cell_identity {A B} (dA : A) (dB : B) (F : list A -> B) g n masks a b : a < g -> b < g ->
  cell dB (hsic_map_lit dA dB F g n masks) a b = F (map (fun k => cell dA (nth k masks []) a b) (seq 0 n)).
Proof.
  intros Ha Hb. unfold hsic_map_lit. rewrite hsic_post_cell by assumption.
  assert (Hd : b * g + a < length (hsic_dims_lit dA g n masks)) by (rewrite hsic_dims_length; nia).
  rewrite (nth_indep _ dB (F [])) by (rewrite map_length; exact Hd).
  rewrite (map_nth F (hsic_dims_lit dA g n masks) [] (b * g + a)).
  rewrite hsic_dims_cell by assumption. reflexivity.
Qed.

(* Sobol: no transpose anywhere: cell (a, b) of the map is the statistic of design column a*g + b, the column that
   drives mask cell (a, b) *)
Lemma sobol_cell_identity {B} (dB : B) (F : nat -> B) g a b : a < g -> b < g ->
  cell dB (sobol_map_lit F g) a b = F (a * g + b).
Proof.
  intros Ha Hb. unfold sobol_map_lit. rewrite sobol_post_cell by assumption.
  apply nth_map_seq. nia.
Qed.

(* ------------------------------------------------------------------ the literal index maps are those of C08's model *)
(* C08 (whose explain loops and estimators are tied to the implementation end to end) writes the same maps as closed
   index formulas on flat data *)
Lemma near_is_nb_idx g n i : near g n i = nb_idx g n i.
Proof. reflexivity. Qed.

Lemma up_at_cell_of g H W C (m : list Qc) k : up_at g H W C m k = nthq m (cell_of g H W (k / C)).
Proof. reflexivity. Qed.

Lemma hsic_dims_lit_C08 g n (design : list (list Qc)) : length design = n ->
  hsic_dims_lit 0%Qc g n (sobol_masks g design) = hsic_dims g design.
Proof.
  intro Hn. unfold hsic_dims. apply (nth_ext _ _ [] []).
  - rewrite hsic_dims_length, map_length, seq_length. reflexivity.
  - intros k Hk. rewrite hsic_dims_length in Hk.
    assert (Hg : g <> 0) by (intro; subst g; lia).
    assert (Ha : k mod g < g) by (apply Nat.mod_upper_bound; exact Hg).
    assert (Hb : k / g < g) by (apply Nat.div_lt_upper_bound; [exact Hg | lia]).
    rewrite nth_map_seq by exact Hk.
    replace k with ((k / g) * g + k mod g) at 1 by (rewrite (Nat.div_mod k g Hg) at 3; lia).
    rewrite hsic_dims_cell by assumption. unfold col. subst n.
    rewrite (list_as_seq design []) at 2. rewrite map_map. apply map_ext_in. intros r Hr. apply in_seq in Hr.
    rewrite sobol_mask_cell by (try assumption; lia). reflexivity.
Qed.

Lemma hsic_post_lit_C08 g (scores : list Qc) : concat (hsic_post_lit 0%Qc g scores) = hsic_post g scores.
Proof.
  unfold hsic_post_lit, transpose2, hsic_post. rewrite <- flat_map_concat_map.
  rewrite (grid_flat (fun i j => cell 0%Qc (reshape2 g g scores) j i)).
  apply map_ext_in. intros p Hp. apply in_seq in Hp.
  assert (Hg : g <> 0) by (intro; subst g; lia).
  apply cell_reshape2; [apply Nat.mod_upper_bound; exact Hg | apply Nat.div_lt_upper_bound; [exact Hg | lia]].
Qed.

(* ------------------------------------------------------------------ Lime / KernelShap: one mapping, used twice *)
Lemma lime_mask_nth mapping z p : p < length mapping ->
  nth p (lime_mask mapping z) false = nth (nth p mapping 0) z false.
Proof.
  intro H. unfold lime_mask.
  rewrite (nth_indep _ false ((fun j => nth j z false) 0)) by (rewrite map_length; exact H).
  exact (map_nth (fun j => nth j z false) mapping 0 p).
Qed.

Lemma lime_gather_nth {B} (dB : B) mapping coef p : p < length mapping ->
  nth p (lime_gather dB mapping coef) dB = nth (nth p mapping 0) coef dB.
Proof.
  intro H. unfold lime_gather.
  rewrite (nth_indep _ dB ((fun j => nth j coef dB) 0)) by (rewrite map_length; exact H).
  exact (map_nth (fun j => nth j coef dB) mapping 0 p).
Qed.

(* position p is kept / replaced according to the bit of THE segment whose coefficient p reports; both tensors
   have the layout of the mapping (no transposition possible between them) *)
Lemma lime_broadcast_gather {B} (dB : B) mapping z coef :
  length (lime_mask mapping z) = length mapping /\ length (lime_gather dB mapping coef) = length mapping /\
  forall p, p < length mapping ->
    nth p (lime_mask mapping z) false = nth (nth p mapping 0) z false /\
    nth p (lime_gather dB mapping coef) dB = nth (nth p mapping 0) coef dB.
Proof.
  split; [apply map_length|]. split; [apply map_length|].
  intros p Hp. split; [apply lime_mask_nth | apply lime_gather_nth]; exact Hp.
Qed.

(* two positions of the same segment are perturbed together and report the same value *)
Lemma lime_same_segment {B} (dB : B) mapping z coef p p' : p < length mapping -> p' < length mapping ->
  nth p mapping 0 = nth p' mapping 0 ->
  nth p (lime_mask mapping z) false = nth p' (lime_mask mapping z) false /\
  nth p (lime_gather dB mapping coef) dB = nth p' (lime_gather dB mapping coef) dB.
Proof.
  intros H1 H2 E. rewrite !lime_mask_nth, !lime_gather_nth by assumption. rewrite E. split; reflexivity.
Qed.

(* ================================================================== exact-zero clauses *)
Open Scope Qc_scope.

Lemma in_map2 {X Y Z} (f : X -> Y -> Z) a b y : In y (map2 f a b) -> exists x t, In x a /\ In t b /\ y = f x t.
Proof.
  revert b; induction a as [|x a IH]; intros [|t b] H; cbn [map2] in H; try contradiction.
  destruct H as [<-|H].
  - exists x, t. repeat split; left; reflexivity.
  - destruct (IH b H) as [x' [t' [Hx [Ht E]]]]. exists x', t'. repeat split; [right; exact Hx | right; exact Ht | exact E].
Qed.

(* ------------------------------------------------------------------ Occlusion *)
(* occluding a patch that does not meet R leaves every feature of R untouched *)
Lemma occlude_agree g v x P R : length x = geom_size g -> patch_meets g R P = false ->
  agree_on (geom_chan g) R (occlude g v x P) x.
Proof.
  intros Hx Hm. unfold agree_on, occlude. split; [rewrite map_length, seq_length; reflexivity|].
  intros k HR. destruct (lt_dec k (length x)) as [Hk|Hk].
  - rewrite (nthq_map _ _ 0%nat) by (rewrite seq_length; exact Hk). rewrite seq_nth by exact Hk. cbn [plus].
    destruct (covers g P (k / geom_chan g)) eqn:E; [|reflexivity]. exfalso.
    assert (Hc : (geom_chan g <> 0)%nat).
    { intro E0. rewrite Hx in Hk. unfold geom_size in Hk. rewrite E0 in Hk. lia. }
    assert (Hpos : (k / geom_chan g < geom_npos g)%nat).
    { apply Nat.div_lt_upper_bound; [exact Hc|]. rewrite Hx in Hk. unfold geom_size in Hk. lia. }
    assert (T : patch_meets g R P = true).
    { unfold patch_meets. apply existsb_exists. exists (k / geom_chan g)%nat. split.
      - apply in_seq. lia.
      - rewrite E, HR. reflexivity. }
    congruence.
  - unfold nthq. rewrite !nth_overflow; [reflexivity | lia | rewrite map_length, seq_length; lia].
Qed.

Section Zero.
Variable score : list Qc -> list Qc -> Qc.

(* reference map: a position none of whose covering patches meets the region gets exactly 0 *)
Lemma spec_zero_outside g v x t R pos : length x = geom_size g -> ignores_outside (geom_chan g) R score ->
  occl_untouched g R pos = true -> spec_at score g v x t pos = 0.
Proof.
  intros Hx Hig Hu. apply spec_ignored_zero. intros P HP Hc.
  apply Hig. apply occlude_agree; [exact Hx|].
  unfold occl_untouched in Hu. rewrite forallb_forall in Hu. specialize (Hu P HP).
  rewrite Hc in Hu. cbn [negb orb] in Hu. destruct (patch_meets g R P); [discriminate | reflexivity].
Qed.

(* the same for what Occlusion.explain computes: every batch size, every geometry, every occlusion value *)
Theorem occlusion_zero_outside g bs v xs ts R m pos : geom_ok g -> bs_ok bs ->
  (forall x, In x xs -> length x = geom_size g) -> ignores_outside (geom_chan g) R score ->
  In m (occlusion score g bs v xs ts) -> (pos < geom_npos g)%nat -> occl_untouched g R pos = true ->
  nthq m pos = 0.
Proof.
  intros Hok Hbs Hxs Hig Hm Hpos Hu. rewrite occlusion_correct in Hm by assumption.
  unfold spec_occlusion in Hm. apply in_map2 in Hm. destruct Hm as [x [t [Hx [_ ->]]]].
  unfold spec_map. rewrite (nthq_map _ _ 0%nat) by (rewrite seq_length; exact Hpos).
  rewrite seq_nth by exact Hpos. cbn [plus].
  apply spec_zero_outside with (R := R); [apply Hxs; exact Hx | exact Hig | exact Hu].
Qed.

(* ------------------------------------------------------------------ Sobol *)
Lemma in_combine_c_block i A B ra rc : In (ra, rc) (combine A (c_block i A B)) ->
  exists rb, rc = set_nth i (nthq rb i) ra.
Proof.
  unfold c_block. revert B; induction A as [|a A IH]; intros [|b B] H; cbn [map2 combine] in H; try contradiction.
  destruct H as [H|H].
  - injection H as <- <-. exists b. reflexivity.
  - apply (IH B H).
Qed.

(* changing the design value of an inert cell changes no feature of the region, for the three perturbation
   functions (x * m + (1 - m) * x0 with x0 = 0 or cv2.blur(x); x * (m - 1/2) * sigma) *)
Lemma perturb_agree p g H W C x R i ra v : inert_cell g H W R i = true -> (i < length ra)%nat ->
  agree_on C R (perturb p g H W C x (set_nth i v ra)) (perturb p g H W C x ra).
Proof.
  intros Hin Hi. unfold agree_on, perturb. split; [rewrite !map_length; reflexivity|].
  intros k HR. destruct (lt_dec k (H * W * C)) as [Hk|Hk].
  - rewrite !(nthq_map _ _ 0%nat) by (rewrite seq_length; exact Hk). rewrite seq_nth by exact Hk. cbn [plus].
    assert (E : up_at g H W C (set_nth i v ra) k = up_at g H W C ra k).
    { rewrite !up_at_cell_of. rewrite nthq_set_nth by exact Hi.
      destruct (Nat.eqb (cell_of g H W (k / C)) i) eqn:Ec; [|reflexivity]. exfalso.
      assert (HC : (C <> 0)%nat) by (intro; subst C; lia).
      assert (Hp : (k / C < H * W)%nat) by (apply Nat.div_lt_upper_bound; [exact HC | lia]).
      unfold inert_cell in Hin. rewrite forallb_forall in Hin.
      assert (Hs : In (k / C)%nat (seq 0 (H * W))) by (apply in_seq; lia).
      specialize (Hin (k / C)%nat Hs). rewrite Ec, HR in Hin. discriminate Hin. }
    cbv zeta. rewrite E. reflexivity.
  - unfold nthq. rewrite !nth_overflow; [reflexivity | |]; rewrite map_length, seq_length; lia.
Qed.

(* the outputs on the replicated block C_i equal the outputs on A when cell i is inert *)
Lemma inert_block_outputs pf g H W C n A B x t R i :
  is_matrix n (g * g) A -> is_matrix n (g * g) B -> (i < g * g)%nat ->
  ignores_outside C R score -> inert_cell g H W R i = true ->
  map (fun m => score (perturb (pf x) g H W C x m) t) (c_block i A B)
  = map (fun m => score (perturb (pf x) g H W C x m) t) A.
Proof.
  intros HA HB Hi Hig Hin.
  assert (Hs : forall ra rc, In (ra, rc) (combine A (c_block i A B)) ->
             score (perturb (pf x) g H W C x rc) t = score (perturb (pf x) g H W C x ra) t).
  { intros ra rc Hrc. pose proof Hrc as Hra. apply in_combine_l in Hra.
    apply in_combine_c_block in Hrc. destruct Hrc as [rb ->].
    apply Hig. apply perturb_agree; [exact Hin|]. destruct HA as [_ HA]. rewrite (HA ra Hra). exact Hi. }
  assert (Hlen : length (c_block i A B) = length A).
  { apply c_block_length. destruct HA as [-> _]. destruct HB as [-> _]. reflexivity. }
  revert Hlen Hs. generalize (c_block i A B) as Cb. clear HA HB. intro Cb. revert Cb.
  induction A as [|ra A' IH]; intros [|rc Cb] Hlen Hs; cbn [length] in Hlen; try lia; [reflexivity|].
  cbn [map]. f_equal; [apply Hs; left; reflexivity|]. apply IH; [lia|].
  intros a c Hin'. apply Hs. right. exact Hin'.
Qed.

(* any estimator [est] that is, dimension by dimension, a formula [spec] of (f(A), f(C_i)) gives an inert cell the value
   spec f(A) f(A): the value the formula takes on a dimension the outputs do not depend on *)
Theorem sobol_inert_value (est : list Qc -> nat -> nat -> list Qc) (spec : list Qc -> list Qc -> Qc) :
  (forall ya yb ycs n d, length ya = n -> length yb = n -> length ycs = d ->
      (forall c, In c ycs -> length c = n) -> est (ya ++ yb ++ concat ycs) n d = map (spec ya) ycs) ->
  forall pf g H W C bs n A B x t R i,
  bs_valid bs -> is_matrix n (g * g) A -> is_matrix n (g * g) B -> (i < g * g)%nat ->
  ignores_outside C R score -> inert_cell g H W R i = true ->
  let fA := map (fun m => score (perturb (pf x) g H W C x m) t) A in
  nthq (nth 0 (sobol_explain score est pf g H W C bs n (replicated_design (g * g) A B) [x] [t]) []) i = spec fA fA.
Proof.
  intros Hest pf g H W C bs n A B x t R i Hb HA HB Hi Hig Hin. cbv zeta.
  rewrite (sobol_map_is_estimator_gen est spec Hest) by assumption. cbn [map2 nth]. cbv zeta.
  unfold nthq. rewrite nth_map_seq by exact Hi.
  rewrite (inert_block_outputs pf g H W C n A B x t R i) by assumption. reflexivity.
Qed.

(* a grid cell none of whose pixels lies in the region gets a total-order index of exactly 0, before upsampling:
   any perturbation function, any forward batch size, any replicated design, any image and grid geometry *)
Theorem sobol_zero_inert pf g H W C bs n A B x t R i :
  bs_valid bs -> is_matrix n (g * g) A -> is_matrix n (g * g) B -> (i < g * g)%nat ->
  ignores_outside C R score -> inert_cell g H W R i = true ->
  nthq (nth 0 (sobol_explain score jansen pf g H W C bs n (replicated_design (g * g) A B) [x] [t]) []) i = 0.
Proof.
  intros Hb HA HB Hi Hig Hin.
  rewrite (sobol_inert_value jansen jansen_spec jansen_formula pf g H W C bs n A B x t R i) by assumption.
  apply jansen_zero_inert.
Qed.

(* the four other estimators, as soon as the outputs on A are not all equal (non-zero variance: the estimators
   divide by it); Glen needs what a square root does on a square *)
Theorem sobol_zero_inert_all pf g H W C bs n A B x t R i :
  bs_valid bs -> is_matrix n (g * g) A -> is_matrix n (g * g) B -> (i < g * g)%nat ->
  ignores_outside C R score -> inert_cell g H W R i = true ->
  let low est := nth 0 (sobol_explain score est pf g H W C bs n (replicated_design (g * g) A B) [x] [t]) [] in
  let fA := map (fun m => score (perturb (pf x) g H W C x m) t) A in
  nthq (low jansen) i = 0 /\
  (Vpop fA <> 0 -> nthq (low homma) i = 0 /\ nthq (low saltelli) i = 0 /\ nthq (low janon) i = 0 /\
     forall sqrt : Qc -> Qc, sqrt (Vpop fA * Vpop fA) = Vpop fA -> nthq (low (glen sqrt)) i = 0).
Proof.
  intros Hb HA HB Hi Hig Hin. cbv zeta. split; [apply (sobol_zero_inert pf g H W C bs n A B x t R i); assumption|].
  intro HV. repeat split.
  - rewrite (sobol_inert_value homma homma_spec homma_formula pf g H W C bs n A B x t R i) by assumption.
    apply homma_zero_inert. exact HV.
  - rewrite (sobol_inert_value saltelli saltelli_spec saltelli_formula pf g H W C bs n A B x t R i) by assumption.
    apply saltelli_zero_inert. exact HV.
  - rewrite (sobol_inert_value janon janon_published janon_formula pf g H W C bs n A B x t R i) by assumption.
    apply janon_zero_inert. exact HV.
  - intros sqrt Hs.
    rewrite (sobol_inert_value (glen sqrt) (glen_spec sqrt) (fun ya yb ycs n d Ha Hb Hd Hc => glen_formula ya yb ycs n d Ha Hb Hd Hc sqrt)
               pf g H W C bs n A B x t R i) by assumption.
    apply glen_zero_inert; assumption.
Qed.

(* hence (Jansen's estimator is a sum of squares over a variance) no inert cell beats any cell: the largest index
   of the low-resolution map is attained at a cell that touches the region as soon as one exists *)
Theorem sobol_inert_minimal pf g H W C bs n A B x t R i j :
  bs_valid bs -> (2 <= n)%nat -> is_matrix n (g * g) A -> is_matrix n (g * g) B ->
  (i < g * g)%nat -> (j < g * g)%nat -> ignores_outside C R score -> inert_cell g H W R i = true ->
  let low := nth 0 (sobol_explain score jansen pf g H W C bs n (replicated_design (g * g) A B) [x] [t]) [] in
  nthq low i <= nthq low j.
Proof.
  intros Hb Hn HA HB Hi Hj Hig Hin. cbv zeta.
  rewrite (sobol_zero_inert pf g H W C bs n A B x t R i) by assumption.
  rewrite sobol_map_is_estimator by assumption. cbn [map2 nth]. cbv zeta.
  unfold nthq. rewrite nth_map_seq by exact Hj. apply jansen_nonneg. apply Vhat_nonneg.
  rewrite map_length. destruct HA as [-> _]. exact Hn.
Qed.
End Zero.

(* ------------------------------------------------------------------ record of the defect fixed in /repo (469446f, 124b443)
   SobolAttributionMethod(estimator=HommaEstimator() / SaltelliEstimator()) as found: these two divided the 1/n moment
   (1/n) sum(a * c_i) - mu^2 by the UNBIASED variance sum((a - mu)^2) / (n - 1); for an inert cell (c_i = a) the
   result was 1/n, not 0 (homma_orig / saltelli_orig of C08 transcribe the old code).  Witness: 1x2 image, 2x2 grid (cells 0 and 1 are read by no pixel: inert whatever the region),
   score = first feature, n = 2. *)
Definition refut_score : list Qc -> list Qc -> Qc := fun x _ => nthq x 0.
Definition refut_R : nat -> bool := fun p => Nat.eqb p 0.
Definition refut_A : list (list Qc) := [[0; 0; 0; 0]; [0; 0; 1; 0]].
Definition refut_B : list (list Qc) := [[1; 1; 1; 1]; [1; 1; 0; 1]].
Definition refut_low (est : list Qc -> nat -> nat -> list Qc) : list Qc :=
  nth 0 (sobol_explain refut_score est (fun _ => Baseline [0; 0]) 2 1 2 1 None 2
                       (replicated_design 4 refut_A refut_B) [[1; 1]] [[]]) [].

Lemma sobol_zero_inert_refuted_orig :
  bs_valid None /\ is_matrix 2 4 refut_A /\ is_matrix 2 4 refut_B /\
  ignores_outside 1 refut_R refut_score /\ inert_cell 2 1 2 refut_R 0 = true /\
  nthq (refut_low jansen) 0 = 0 /\ nthq (refut_low homma) 0 = 0 /\
  nthq (refut_low homma_orig) 0 = q 1 2 /\ nthq (refut_low saltelli_orig) 0 = q 1 2 /\ q 1 2 <> 0.
Proof.
  split; [exact I|]. split; [split; [reflexivity | intros r [<-|[<-|[]]]; reflexivity]|].
  split; [split; [reflexivity | intros r [<-|[<-|[]]]; reflexivity]|].
  split; [intros x x' t [_ H]; apply (H 0%nat); reflexivity|].
  split; [reflexivity|].
  split; [apply Qceqb_eq; vm_compute; reflexivity|].
  split; [apply Qceqb_eq; vm_compute; reflexivity|].
  split; [apply Qceqb_eq; vm_compute; reflexivity|].
  split; [apply Qceqb_eq; vm_compute; reflexivity|].
  intro E. apply Qceqb_eq in E. vm_compute in E. discriminate E.
Qed.

Lemma sobol_zero_inert_refuted_orig_exists :
  exists (score : list Qc -> list Qc -> Qc) pf g H W C bs n A B x t (R : nat -> bool) i,
    bs_valid bs /\ is_matrix n (g * g) A /\ is_matrix n (g * g) B /\ (i < g * g)%nat /\
    ignores_outside C R score /\ inert_cell g H W R i = true /\
    let low est := nth 0 (sobol_explain score est pf g H W C bs n (replicated_design (g * g) A B) [x] [t]) [] in
    nthq (low jansen) i = 0 /\ nthq (low homma) i = 0 /\
    nthq (low homma_orig) i = 1 / qn n /\ nthq (low saltelli_orig) i = 1 / qn n /\ 1 / qn n <> 0.
Proof.
  exists refut_score, (fun _ => Baseline [0; 0]), 2%nat, 1%nat, 2%nat, 1%nat, None, 2%nat, refut_A, refut_B,
         [1; 1], [], refut_R, 0%nat.
  destruct sobol_zero_inert_refuted_orig as (H1 & H2 & H3 & H4 & H5 & H6 & H7 & H8 & H9 & H10).
  assert (E : 1 / qn 2 = q 1 2) by (apply Qceqb_eq; vm_compute; reflexivity).
  repeat split; try assumption; try (apply H2); try (apply H3); try lia; cbv zeta; rewrite ?E; assumption.
Qed.

(* ================================================================== statements in the words of the property
   (the decidable predicates occl_untouched / inert_cell unfolded into their meaning) *)
Lemma occl_untouched_intro g R pos :
  (forall P, In P (patches g) -> covers g P pos = true ->
      forall p, (p < geom_npos g)%nat -> covers g P p = true -> R p = false) ->
  occl_untouched g R pos = true.
Proof.
  intro Hun. unfold occl_untouched. apply forallb_forall. intros P HP.
  destruct (covers g P pos) eqn:Ec; [|reflexivity]. cbn [negb orb].
  destruct (patch_meets g R P) eqn:Em; [|reflexivity]. exfalso.
  unfold patch_meets in Em. apply existsb_exists in Em. destruct Em as [p [Hp Hcr]]. apply in_seq in Hp.
  apply andb_true_iff in Hcr. destruct Hcr as [Hc HR].
  rewrite (Hun P HP Ec p) in HR by (try assumption; lia). discriminate.
Qed.

Lemma inert_cell_intro g H W R i :
  (forall pos, (pos < H * W)%nat -> (nb_idx g H (pos / W) * g + nb_idx g W (pos mod W))%nat = i -> R pos = false) ->
  inert_cell g H W R i = true.
Proof.
  intro Hin. unfold inert_cell. apply forallb_forall. intros pos Hp. apply in_seq in Hp.
  destruct (Nat.eqb (cell_of g H W pos) i) eqn:E; [|reflexivity]. cbn [negb orb].
  apply Nat.eqb_eq in E. rewrite (Hin pos) by (try assumption; lia). reflexivity.
Qed.

Lemma ignores_outside_intro c R (score : list Qc -> list Qc -> Qc) :
  (forall x x' t, length x = length x' ->
      (forall k, R (k / c)%nat = true -> nthq x k = nthq x' k) -> score x t = score x' t) ->
  ignores_outside c R score.
Proof. intros Hig x x' t [Hl Hk]. apply Hig; assumption. Qed.

Lemma occlusion_zero_outside_words (score : list Qc -> list Qc -> Qc) g bs v xs ts (R : nat -> bool) m pos :
  geom_ok g -> bs_ok bs -> (forall x, In x xs -> length x = geom_size g) ->
  (forall x x' t, length x = length x' ->
      (forall k, R (k / geom_chan g)%nat = true -> nthq x k = nthq x' k) -> score x t = score x' t) ->
  In m (occlusion score g bs v xs ts) -> (pos < geom_npos g)%nat ->
  (forall P, In P (patches g) -> covers g P pos = true ->
      forall p, (p < geom_npos g)%nat -> covers g P p = true -> R p = false) ->
  nthq m pos = 0.
Proof.
  intros Hok Hbs Hxs Hig Hm Hpos Hun.
  apply (occlusion_zero_outside score g bs v xs ts R m pos); try assumption.
  - apply ignores_outside_intro. exact Hig.
  - apply occl_untouched_intro. exact Hun.
Qed.

Lemma sobol_zero_inert_words (score : list Qc -> list Qc -> Qc) pf g H W C bs n A B x t (R : nat -> bool) i :
  bs_valid bs -> is_matrix n (g * g) A -> is_matrix n (g * g) B -> (i < g * g)%nat ->
  (forall x x' t, length x = length x' ->
      (forall k, R (k / C)%nat = true -> nthq x k = nthq x' k) -> score x t = score x' t) ->
  (forall pos, (pos < H * W)%nat -> (nb_idx g H (pos / W) * g + nb_idx g W (pos mod W))%nat = i -> R pos = false) ->
  let low est := nth 0 (sobol_explain score est pf g H W C bs n (replicated_design (g * g) A B) [x] [t]) [] in
  let fA := map (fun m => score (perturb (pf x) g H W C x m) t) A in
  nthq (low jansen) i = 0 /\
  (Vpop fA <> 0 -> nthq (low homma) i = 0 /\ nthq (low saltelli) i = 0 /\ nthq (low janon) i = 0 /\
     forall sqrt : Qc -> Qc, sqrt (Vpop fA * Vpop fA) = Vpop fA -> nthq (low (glen sqrt)) i = 0).
Proof.
  intros Hb HA HB Hi Hig Hin.
  apply (sobol_zero_inert_all score pf g H W C bs n A B x t R i); try assumption.
  - apply ignores_outside_intro. exact Hig.
  - apply inert_cell_intro. exact Hin.
Qed.

Lemma sobol_cell_of_dim {A} (d : A) g (design : list (list A)) (stis : list A) :
  (forall k a b, (a < g)%nat -> (b < g)%nat -> (k < length design)%nat ->
      cell d (nth k (sobol_masks g design) []) a b = nth (a * g + b) (nth k design []) d) /\
  (forall a b, (a < g)%nat -> (b < g)%nat -> cell d (sobol_post g stis) a b = nth (a * g + b) stis d) /\
  (forall k, (k < g * g)%nat -> cell d (sobol_post g stis) (k / g) (k mod g) = nth k stis d) /\
  (length stis = (g * g)%nat -> concat (sobol_post g stis) = stis).
Proof.
  split; [intros; apply sobol_mask_cell; assumption|].
  split; [intros; apply sobol_post_cell; assumption|].
  split; [intros; apply sobol_post_dim; assumption | apply sobol_post_flat].
Qed.

Lemma hsic_cell_of_dim {A} (d : A) g n (masks : list (list (list A))) (scores : list A) a b :
  (a < g)%nat -> (b < g)%nat ->
  nth (b * g + a) (hsic_dims_lit d g n masks) [] = map (fun k => cell d (nth k masks []) a b) (seq 0 n) /\
  cell d (hsic_post_lit d g scores) a b = nth (b * g + a) scores d.
Proof. intros. split; [apply hsic_dims_cell | apply hsic_post_cell]; assumption. Qed.

Lemma index_maps_are_C08 :
  (forall g n i, near g n i = nb_idx g n i) /\
  (forall g H W C (m : list Qc) k, up_at g H W C m k = nthq m (cell_of g H W (k / C))) /\
  (forall g n (design : list (list Qc)), length design = n ->
      hsic_dims_lit 0 g n (sobol_masks g design) = hsic_dims g design) /\
  (forall g (scores : list Qc), concat (hsic_post_lit 0 g scores) = hsic_post g scores).
Proof.
  split; [exact near_is_nb_idx|]. split; [exact up_at_cell_of|].
  split; [exact hsic_dims_lit_C08 | exact hsic_post_lit_C08].
Qed.

Close Scope Qc_scope. Open Scope nat_scope.
(* ================================================================== Occlusion: the largest value is inside the region *)
(* projection of a coordinate on [lo, hi) *)
Definition clamp (lo hi i : nat) : nat := if i <? lo then lo else if hi <=? i then hi - 1 else i.
(* projection of a position on the rectangle *)
Definition project (w r0 r1 c0 c1 pos : nat) : nat := clamp r0 r1 (pos / w) * w + clamp c0 c1 (pos mod w).

Lemma clamp_in lo hi i : lo < hi -> lo <= clamp lo hi i < hi.
Proof. intro H. unfold clamp. destruct (Nat.ltb_spec i lo); [lia|]. destruct (Nat.leb_spec hi i); lia. Qed.

(* an interval [a, a+p) that contains i and meets [lo, hi) contains the projection of i *)
Lemma clamp_inpatch a p lo hi i k : lo < hi -> inpatch a p i = true -> inpatch a p k = true -> lo <= k < hi ->
  inpatch a p (clamp lo hi i) = true.
Proof.
  unfold inpatch, clamp. intros H Hi Hk Hr.
  apply andb_true_iff in Hi as [Hi1 Hi2]. apply andb_true_iff in Hk as [Hk1 Hk2].
  apply Nat.leb_le in Hi1, Hk1. apply Nat.ltb_lt in Hi2, Hk2. apply andb_true_iff.
  destruct (Nat.ltb_spec i lo); [split; [apply Nat.leb_le | apply Nat.ltb_lt]; lia|].
  destruct (Nat.leb_spec hi i); (split; [apply Nat.leb_le | apply Nat.ltb_lt]; lia).
Qed.

Lemma project_div_mod w r0 r1 c0 c1 pos : c0 < c1 -> c1 <= w ->
  project w r0 r1 c0 c1 pos / w = clamp r0 r1 (pos / w) /\ project w r0 r1 c0 c1 pos mod w = clamp c0 c1 (pos mod w).
Proof.
  intros Hc Hw. unfold project. pose proof (clamp_in c0 c1 (pos mod w) Hc) as Hb.
  assert (Hw0 : w <> 0) by lia. split.
  - rewrite Nat.div_add_l by exact Hw0. rewrite (Nat.div_small (clamp c0 c1 (pos mod w)) w) by lia. lia.
  - rewrite Nat.add_comm, Nat.mod_add by exact Hw0. apply Nat.mod_small. lia.
Qed.

Lemma rect_true w r0 r1 c0 c1 pos :
  rect w r0 r1 c0 c1 pos = true <-> (r0 <= pos / w < r1 /\ c0 <= pos mod w < c1).
Proof.
  unfold rect. rewrite !andb_true_iff, !Nat.leb_le, !Nat.ltb_lt. lia.
Qed.

Lemma project_in_rect h w r0 r1 c0 c1 pos : r0 < r1 -> r1 <= h -> c0 < c1 -> c1 <= w ->
  project w r0 r1 c0 c1 pos < h * w /\ rect w r0 r1 c0 c1 (project w r0 r1 c0 c1 pos) = true.
Proof.
  intros Hr Hh Hc Hw. pose proof (clamp_in r0 r1 (pos / w) Hr) as Ha. pose proof (clamp_in c0 c1 (pos mod w) Hc) as Hb.
  split; [unfold project; nia|]. apply rect_true.
  destruct (project_div_mod w r0 r1 c0 c1 pos Hc Hw) as [-> ->]. lia.
Qed.

Open Scope Qc_scope.

Lemma qsum_map_le {T} (f g : T -> Qc) l : (forall x, In x l -> f x <= g x) -> qsum (map f l) <= qsum (map g l).
Proof.
  induction l as [|x l IH]; intro H; cbn [map qsum]; [apply Qcle_refl|].
  apply Qcplus_le_compat; [apply H; left; reflexivity | apply IH; intros y Hy; apply H; right; exact Hy].
Qed.

Section OcclMax.
Variable score : list Qc -> list Qc -> Qc.
Variables (h w c p0 p1 s0 s1 r0 r1 c0 c1 : nat).
Let g := Grid h w c p0 p1 s0 s1.
Let R := rect w r0 r1 c0 c1.
Hypothesis Hr : (r0 < r1)%nat.
Hypothesis Hh : (r1 <= h)%nat.
Hypothesis Hc : (c0 < c1)%nat.
Hypothesis Hw : (c1 <= w)%nat.
Hypothesis Hig : ignores_outside c R score.
Hypothesis Hinc : increasing score.

(* occluding any patch does not increase the score when the occlusion value is below the input on the region *)
Lemma occlude_delta_nonneg v x t P : length x = geom_size g ->
  (forall k, (k < length x)%nat -> R (k / c)%nat = true -> v <= nthq x k) ->
  0 <= score x t - score (occlude g v x P) t.
Proof.
  intros Hx Hv.
  set (y := map (fun k => if R (k / c)%nat then nthq (occlude g v x P) k else nthq x k) (seq 0 (length x))).
  assert (Hly : length y = length x) by (unfold y; rewrite map_length, seq_length; reflexivity).
  assert (Hlo : length (occlude g v x P) = length x) by (unfold occlude; rewrite map_length, seq_length; reflexivity).
  assert (Hny : forall k, (k < length x)%nat ->
            nthq y k = if R (k / c)%nat then nthq (occlude g v x P) k else nthq x k).
  { intros k Hk. unfold y. rewrite (nthq_map _ _ 0%nat) by (rewrite seq_length; exact Hk).
    rewrite seq_nth by exact Hk. reflexivity. }
  assert (E : score (occlude g v x P) t = score y t).
  { apply Hig. split; [congruence|]. intros k HR. destruct (lt_dec k (length x)) as [Hk|Hk].
    - rewrite (Hny k Hk). change (geom_chan g) with c in *. rewrite HR. reflexivity.
    - unfold nthq. rewrite !nth_overflow; [reflexivity | lia | lia]. }
  rewrite E. assert (Hle : score y t <= score x t).
  { apply Hinc; [exact Hly|]. intro k. destruct (lt_dec k (length x)) as [Hk|Hk].
    - rewrite (Hny k Hk). destruct (R (k / c)%nat) eqn:HR; [|apply Qcle_refl].
      unfold occlude. rewrite (nthq_map _ _ 0%nat) by (rewrite seq_length; exact Hk).
      rewrite seq_nth by exact Hk. cbn [plus].
      destruct (covers g P (k / geom_chan g)); [apply Hv; assumption | apply Qcle_refl].
    - unfold nthq. rewrite !nth_overflow; [apply Qcle_refl | lia | lia]. }
  qc2q. lra.
Qed.

(* every patch that covers pos and meets the rectangle covers the projection of pos *)
Lemma covers_project P pos : covers g P pos = true -> patch_meets g R P = true ->
  covers g P (project w r0 r1 c0 c1 pos) = true.
Proof.
  intros Hcv Hm. destruct P as [a | a b]; [discriminate Hcv|]. cbn [covers g] in *.
  unfold patch_meets in Hm. apply existsb_exists in Hm. destruct Hm as [k [_ Hk]].
  apply andb_true_iff in Hk as [Hck HRk]. cbn [covers] in Hck.
  apply andb_true_iff in Hcv as [Hc1 Hc2]. apply andb_true_iff in Hck as [Hk1 Hk2].
  apply rect_true in HRk. destruct HRk as [Hrk Hckk].
  destruct (project_div_mod w r0 r1 c0 c1 pos Hc Hw) as [-> ->].
  apply andb_true_iff. split.
  - apply (clamp_inpatch a p0 r0 r1 (pos / w) (k / w)); assumption.
  - apply (clamp_inpatch b p1 c0 c1 (pos mod w) (k mod w)); assumption.
Qed.

(* position by position: the projection on the rectangle scores at least as much *)
Lemma spec_at_le_project v x t pos : length x = geom_size g ->
  (forall k, (k < length x)%nat -> R (k / c)%nat = true -> v <= nthq x k) ->
  spec_at score g v x t pos <= spec_at score g v x t (project w r0 r1 c0 c1 pos).
Proof.
  intros Hx Hv. unfold spec_at. apply qsum_map_le. intros P _.
  pose proof (occlude_delta_nonneg v x t P Hx Hv) as Hd.
  destruct (covers g P pos) eqn:Ecp.
  - destruct (patch_meets g R P) eqn:Em.
    + rewrite (covers_project P pos Ecp Em). apply Qcle_refl.
    + assert (E0 : score (occlude g v x P) t = score x t).
      { apply Hig. apply (occlude_agree g v x P R); assumption. }
      rewrite E0. destruct (covers g P (project w r0 r1 c0 c1 pos)); qc2q; lra.
  - destruct (covers g P (project w r0 r1 c0 c1 pos)); [exact Hd | apply Qcle_refl].
Qed.

Theorem occlusion_max_in_region bs v xs ts m : geom_ok g -> bs_ok bs ->
  (forall x, In x xs -> length x = geom_size g) ->
  (forall x, In x xs -> forall k, (k < length x)%nat -> R (k / c)%nat = true -> v <= nthq x k) ->
  In m (occlusion score g bs v xs ts) -> max_inside (h * w) R m.
Proof.
  intros Hok Hbs Hxs Hv Hm. rewrite occlusion_correct in Hm by assumption.
  unfold spec_occlusion in Hm. apply in_map2 in Hm. destruct Hm as [x [t [Hx [_ ->]]]].
  intros p Hp _. exists (project w r0 r1 c0 c1 p).
  destruct (project_in_rect h w r0 r1 c0 c1 p Hr Hh Hc Hw) as [Hlt HR].
  split; [exact Hlt|]. split; [exact HR|].
  unfold spec_map. change (geom_npos g) with (h * w)%nat.
  rewrite !(nthq_map _ _ 0%nat) by (rewrite seq_length; assumption).
  rewrite !seq_nth by assumption. cbn [plus].
  apply spec_at_le_project; [apply Hxs; exact Hx | apply Hv; exact Hx].
Qed.
End OcclMax.
