(* C05/Model.v — executable transcription of the INDEX ALGEBRA that links perturbed cells to reported cells in the
   perturbation-based attribution methods (no proofs here).  Tensors are nested lists; every reshape / transpose /
   gather / resize is written as the loop nest the library performs, so that "which cell ends where" is a theorem
   (C05/Proofs.v) and not a definition.

   gsa_attribution_method.py
     __init__:  self.masks = self.sampler(grid_size**2, nb_design).reshape((-1, grid_size, grid_size, 1))
     _batch_perturbations(masks, perturbator, target, input_shape):          input_shape = (inputs.shape[1], inputs.shape[2])
        upsampled_masks = tf.image.resize(masks, input_shape, method="nearest")
        perturbated_inputs = perturbator(upsampled_masks)
     explain:   heatmap = self.estimator(self.masks, outputs, self.nb_design); bicubic resize (library, not modelled)
   tf.image.resize(method="nearest", half_pixel_centers): out[i, j] = in[min(floor((i + 0.5) * g / H), g - 1),
                                                                        min(floor((j + 0.5) * g / W), g - 1)]
   sobol_estimators.py
     post_process(stis, masks):  np.array(stis, np.float32).reshape(masks.shape[1:])            (g, g, 1)
   hsic_estimators.py
     estimator(masks, L, nb_dim, nb_design):
        X  = tf.transpose(masks)                          (n, g, g, 1) -> (1, g, g, n): X[0, b, a, k] = masks[k, a, b, 0]
        X1 = tf.reshape(X, (nb_dim, 1, nb_design, 1))     row-major: dimension d = b * g + a, sample k
        ... one score per row of X1 ...
     post_process(score, masks): np.transpose(score.reshape(masks.shape[1:]), axes=(1, 0, 2))
   lime.py
     _get_masks:             tf.gather(interpret_samples, indices=mapping, axis=1)
     _broadcast_explanation: tf.gather(explanation, indices=mapping, axis=0)
   The perturbation formulas (perturbations.py), the explain loops and the estimators are the models of
   C06 (Occlusion), C07 (Lime / KernelShap), C08 (Sobol / HSIC) and C09 (RISE); this file adds what is specific to C05. *)
From Xpl Require Export Base.Tensor.
Close Scope Qc_scope. Open Scope nat_scope.

(* ------------------------------------------------------------------ nearest-neighbour upsampling *)
(* source index read by output index i when an axis of size g is resized to size n *)
Definition nb_idx (g n i : nat) : nat := Nat.min (((2 * i + 1) * g) / (2 * n)) (g - 1).

Section Grids.
Context {A : Type}.
Variable d : A.

(* entry (a, b) of a tensor given as a list of rows *)
Definition cell (M : list (list A)) (a b : nat) : A := nth b (nth a M []) d.

(* row-major reshape of flat data to (r, c): row a is the slice l[a*c : (a+1)*c] *)
Definition reshape2 (r c : nat) (l : list A) : list (list A) :=
  map (fun a => firstn c (skipn (a * c) l)) (seq 0 r).

(* np.transpose of an (r, c) tensor: out[i][j] = M[j][i], out has shape (c, r) *)
Definition transpose2 (r c : nat) (M : list (list A)) : list (list A) :=
  map (fun i => map (fun j => cell M j i) (seq 0 r)) (seq 0 c).

(* tf.image.resize(m, (H, W), "nearest") of one (g, g) mask: rows are resized with H, columns with W *)
Definition upsample_nearest (g H W : nat) (m : list (list A)) : list (list A) :=
  map (fun i => map (fun j => cell m (nb_idx g H i) (nb_idx g W j)) (seq 0 W)) (seq 0 H).

(* ------------------------------------------------------------------ Sobol *)
(* sampler(g*g, n).reshape((-1, g, g, 1)): every design row becomes a (g, g) mask *)
Definition sobol_masks (g : nat) (design : list (list A)) : list (list (list A)) := map (reshape2 g g) design.
(* SobolEstimator.post_process: stis.reshape((g, g, 1)) *)
Definition sobol_post (g : nat) (stis : list A) : list (list A) := reshape2 g g stis.

(* ------------------------------------------------------------------ HSIC *)
(* tf.transpose(masks): full axis reversal (n, g, g, 1) -> (1, g, g, n), enumerated row-major (flat) *)
Definition hsic_transposed_flat (g n : nat) (masks : list (list (list A))) : list A :=
  flat_map (fun b => flat_map (fun a => map (fun k => cell (nth k masks []) a b) (seq 0 n)) (seq 0 g)) (seq 0 g).
(* tf.reshape(X, (nb_dim, 1, n, 1)): row d holds the n design values of estimator dimension d *)
Definition hsic_dims_lit (g n : nat) (masks : list (list (list A))) : list (list A) :=
  reshape2 (g * g) n (hsic_transposed_flat g n masks).
(* HsicEstimator.post_process: np.transpose(score.reshape((g, g, 1)), (1, 0, 2)) *)
Definition hsic_post_lit (g : nat) (scores : list A) : list (list A) := transpose2 g g (reshape2 g g scores).
End Grids.

(* the whole HSIC path for an arbitrary per-dimension statistic F (hsic_per_dimension of C08: the score of a
   dimension depends only on its own row of X1 and on the outputs) *)
Definition hsic_map_lit {A B} (dA : A) (dB : B) (F : list A -> B) (g n : nat) (masks : list (list (list A)))
  : list (list B) :=
  hsic_post_lit dB g (map F (hsic_dims_lit dA g n masks)).
(* the whole Sobol path for an arbitrary per-dimension statistic F of column d of the design *)
Definition sobol_map_lit {B} (F : nat -> B) (g : nat) : list (list B) :=
  sobol_post g (map F (seq 0 (g * g))).

(* ------------------------------------------------------------------ Lime / KernelShap *)
(* mapping: the (H, W) (or (T, W), (W)) integer tensor returned by map_to_interpret_space, flat row-major *)
(* _get_masks, one interpretable sample: tf.gather(z, mapping) *)
Definition lime_mask (mapping : list nat) (z : list bool) : list bool := map (fun j => nth j z false) mapping.
(* _broadcast_explanation: tf.gather(coef, mapping) *)
Definition lime_gather {B} (dB : B) (mapping : list nat) (coef : list B) : list B := map (fun j => nth j coef dB) mapping.
