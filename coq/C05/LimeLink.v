(* C05/LimeLink.v — the two gathers of C05/Model.v (lime_mask, lime_gather) are the ones Lime.explain / KernelShap.explain
   are made of, as modelled and tied to the implementation by C07: the perturbed inputs of C07's model of Lime.explain
   keep position p iff bit z[mapping p] is set, and the returned map is coef o mapping — the same mapping.
   (separate file: C07.Model and C06.Model both define [Tab], [apply_mask], [bs_ok]) *)
From Xpl Require Import Base.Tensor C05.Model C07.Spec C07.Proofs.
From Coq Require Import Arith.
Close Scope Qc_scope. Open Scope nat_scope.

Lemma get_mask_is_lime_mask mapping z : get_mask mapping z = lime_mask mapping z.
Proof. reflexivity. Qed.

Open Scope Qc_scope.
Theorem lime_explain_one_mapping (score : list Qc -> list Qc -> Qc) (karg : list Qc -> list bool -> list Qc -> Qc)
    (fit : list (list bool) -> list Qc -> list Qc -> list Qc) B k ref x t mapping Z :
  (1 <= B)%nat -> lime_ok k ref x mapping ->
  let tr := lime_one score karg fit B k ref x t mapping Z in
  (* the returned map is the gather of the fitted coefficients through the mapping *)
  tr_expl tr = lime_gather 0 mapping (tr_coef tr) /\
  (* every query is the input masked through the SAME mapping: feature p (position p / C) is kept iff the mask
     lime_mask mapping z is set at its position, and replaced by the reference of its channel otherwise *)
  length (tr_queries tr) = length Z /\
  forall i p, (i < length Z)%nat -> (p < kind_size k)%nat ->
    nthq (nth i (tr_queries tr) []) p
    = if nth (p / kind_chan k) (lime_mask mapping (nth i Z [])) false then nthq x p else nthq ref (p mod kind_chan k).
Proof.
  intros HB Hok. cbv zeta. rewrite lime_one_correct by assumption.
  unfold spec_trace. cbv zeta. cbn [tr_expl tr_coef tr_queries].
  split; [reflexivity|]. unfold spec_queries. split; [apply map_length|].
  intros i p Hi Hp.
  rewrite (nth_indep _ [] (spec_masked k ref x mapping [])) by (rewrite map_length; exact Hi).
  rewrite (map_nth (spec_masked k ref x mapping) Z [] i).
  rewrite spec_masked_nth by exact Hp. unfold seg_of, ref_at.
  destruct Hok as (Hc & _ & _ & Hm). unfold kind_ok in Hc.
  assert (Hq : (p / kind_chan k < length mapping)%nat).
  { rewrite Hm. apply Nat.div_lt_upper_bound; [lia|]. unfold kind_size in Hp. lia. }
  unfold lime_mask.
  rewrite (nth_indep (map _ mapping) false ((fun j => nth j (nth i Z []) false) 0%nat)) by (rewrite map_length; exact Hq).
  rewrite (map_nth (fun j => nth j (nth i Z []) false) mapping 0%nat). reflexivity.
Qed.

(* KernelShap on an additive score that puts no weight outside a region R: every position whose segment contains no
   region position receives exactly 0 (in exact arithmetic; the implementation's float64 least squares gives ~1e-16),
   under the hypotheses of C07_kshap_exact (full-rank drawn design, the estimator returns a least-squares minimiser) *)
Theorem kshap_zero_outside score b wv fit bs nb k ref x t mapping Z (R : nat -> bool) q :
  additive (kind_size k) score b wv -> bs_ok bs nb -> lime_ok k ref x mapping ->
  (forall z, In z Z -> length z = num_features mapping) ->
  design_injective (num_features mapping) Z ->
  (forall y, exists b0, ls_minimiser (num_features mapping) Z y (fit Z y (map (fun _ => 0) Z)) b0) ->
  (forall p, (p < kind_size k)%nat -> R (p / kind_chan k)%nat = false -> nthq (wv t) p = 0) ->
  (q < length mapping)%nat ->
  (forall p, (p < length mapping)%nat -> nth p mapping 0%nat = nth q mapping 0%nat -> R p = false) ->
  nthq (tr_expl (lime_one score (fun _ _ _ => 0) fit (eff_bs bs nb) k ref x t mapping Z)) q = 0.
Proof.
  intros Hadd Hbs Hok Hlen Hinj Hfit Hw Hq Hseg.
  destruct (kshap_exact score b wv fit bs nb k ref x t mapping Z Hadd Hbs Hok Hlen Hinj Hfit) as (_ & -> & _).
  unfold shapley_expl. rewrite (nthq_map _ _ 0%nat) by exact Hq. unfold delta.
  rewrite (qsum_map_ext _ (fun _ => 0)); [apply qsum_zero|].
  intros p Hp. apply in_seq in Hp. destruct (Nat.eqb (seg_of k mapping p) (nth q mapping 0%nat)) eqn:E; [|reflexivity].
  apply Nat.eqb_eq in E. unfold seg_of in E.
  destruct Hok as (Hc & _ & _ & Hm). unfold kind_ok in Hc.
  assert (Hpc : (p / kind_chan k < length mapping)%nat).
  { rewrite Hm. apply Nat.div_lt_upper_bound; [lia|]. unfold kind_size in Hp. lia. }
  rewrite (Hw p) by (try lia; apply (Hseg _ Hpc E)). ring.
Qed.
