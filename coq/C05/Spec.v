(* C05/Spec.v — the property's own words:
   * a region R of positions; "the score depends only on the features of R";
   * "the largest attribution is inside the region" in its tie-tolerant form (measured on the unchanged tree: the
     arg-max of Occlusion / Lime / KernelShap maps is often a position OUTSIDE the region that shares every patch /
     its segment with a region position and ties with it; the property can only mean: no outside position beats
     every inside position);
   * which positions / grid cells the score provably ignores: Occlusion positions none of whose covering patches
     meets R; Sobol / HSIC grid cells none of whose pixels (the pixels that READ the cell after nearest upsampling)
     lies in R;
   * nearest upsampling in words: cell a of an axis of g cells covers the pixels i whose centre (i + 1/2) / n lies
     in [a / g, (a + 1) / g). *)
From Xpl Require Export C05.Model C06.Spec C08.Spec.
Close Scope Qc_scope. Open Scope nat_scope.

(* ------------------------------------------------------------------ regions *)
(* positions are numbered row-major over the (H, W) axes; flat feature k of an (H, W, C) input sits at position k / C *)
Definition rect (W r0 r1 c0 c1 : nat) (pos : nat) : bool :=
  (r0 <=? pos / W) && (pos / W <? r1) && (c0 <=? pos mod W) && (pos mod W <? c1).

Open Scope Qc_scope.
Definition agree_on (c : nat) (R : nat -> bool) (x x' : list Qc) : Prop :=
  length x = length x' /\ forall k, R (k / c)%nat = true -> nthq x k = nthq x' k.
(* the score depends only on the features of R *)
Definition ignores_outside (c : nat) (R : nat -> bool) (score : list Qc -> list Qc -> Qc) : Prop :=
  forall x x' t, agree_on c R x x' -> score x t = score x' t.
(* ... and increases with them *)
Definition increasing (score : list Qc -> list Qc -> Qc) : Prop :=
  forall x x' t, length x = length x' -> (forall k, nthq x k <= nthq x' k) -> score x t <= score x' t.

(* tie-tolerant "the largest attribution is inside R": every outside value is matched by an inside value *)
Definition max_inside (n : nat) (R : nat -> bool) (m : list Qc) : Prop :=
  forall p, (p < n)%nat -> R p = false -> exists p', (p' < n)%nat /\ R p' = true /\ nthq m p <= nthq m p'.
(* executable form with a tolerance (used on the implementation's output by the correspondence check) *)
Definition max_insideb (tol : Qc) (n : nat) (R : nat -> bool) (m : list Qc) : bool :=
  forallb (fun p => R p || existsb (fun p' => R p' && Qcleb (nthq m p) (nthq m p' + tol)) (seq 0 n)) (seq 0 n).
Close Scope Qc_scope.

(* ------------------------------------------------------------------ Occlusion *)
Definition patch_meets (g : geom) (R : nat -> bool) (P : patch) : bool :=
  existsb (fun p => covers g P p && R p) (seq 0 (geom_npos g)).
(* no patch covering pos touches the region *)
Definition occl_untouched (g : geom) (R : nat -> bool) (pos : nat) : bool :=
  forallb (fun P => negb (covers g P pos) || negb (patch_meets g R P)) (patches g).

(* ------------------------------------------------------------------ Sobol / HSIC grids *)
(* nearest upsampling in words (cross-multiplied): pixel i of n reads cell a of g *)
Definition in_block (g n a i : nat) : Prop := 2 * n * a <= (2 * i + 1) * g < 2 * n * (a + 1).
(* flat index of the grid cell read by position pos of an (H, W) image: rows with H, columns with W *)
Definition cell_of (g H W pos : nat) : nat := nb_idx g H (pos / W) * g + nb_idx g W (pos mod W).
(* no pixel reading cell i lies in the region *)
Definition inert_cell (g H W : nat) (R : nat -> bool) (i : nat) : bool :=
  forallb (fun pos => negb (Nat.eqb (cell_of g H W pos) i) || negb (R pos)) (seq 0 (H * W)).
(* the positions whose cell is not inert: the region at the resolution of the grid *)
Definition active_block (g H W : nat) (R : nat -> bool) (pos : nat) : bool :=
  negb (inert_cell g H W R (cell_of g H W pos)).

(* ------------------------------------------------------------------ Lime / KernelShap *)
(* segments that contain no region position *)
Definition inert_segment (mapping : list nat) (R : nat -> bool) (j : nat) : bool :=
  forallb (fun p => negb (Nat.eqb (nth p mapping 0) j) || negb (R p)) (seq 0 (length mapping)).
