(* C11/Spec.v — the property's own words.

   Channel conventions: element (b, ch, i, j) of the channel-first tensor is element (b, i, j, ch) of the channel-last one
   (nested enumerations, no index arithmetic beyond the row-major position of a 4-D coordinate).
   Wrapping changes no result: through the wrapper, the value is  f (to channel-first x)  and the gradient is the
   module's own input gradient brought back to channel-last positions; a callable / predict_proba model is scored
   sum_c pred_c * target_c  exactly like a Keras model. *)
From Xpl Require Export C11.Model.
Close Scope Qc_scope. Open Scope nat_scope.

Definition nhwc_to_nchw (n h w c : nat) (x : list Qc) : list Qc :=
  flat_map (fun b => flat_map (fun ch => flat_map (fun i => map (fun j =>
    nthq x (((b * h + i) * w + j) * c + ch)) (seq 0 w)) (seq 0 h)) (seq 0 c)) (seq 0 n).

Definition nchw_to_nhwc (n h w c : nat) (g : list Qc) : list Qc :=
  flat_map (fun b => flat_map (fun i => flat_map (fun j => map (fun ch =>
    nthq g (((b * c + ch) * h + i) * w + j)) (seq 0 c)) (seq 0 w)) (seq 0 h)) (seq 0 n).

(* one sample: position q of the channel-first data reads channel-last position [first_reads], and conversely *)
Definition first_reads (h w c q : nat) : nat := (q mod (h * w)) * c + q / (h * w).
Definition last_reads (h w c p : nat) : nat := (p mod c) * (h * w) + p / c.

(* the conversion rule of the constructor *)
Definition channel_first_spec (requested : option bool) (modules : list torch_layer) : bool :=
  match requested with
  | Some b => b
  | None => existsb is_conv2d modules
  end.

Section Native.
(* the torch module evaluated natively on one sample in its own layout, and torch.autograd's input gradient *)
Variable f : list Qc -> list Qc.
Variable vjp : list Qc -> list Qc -> list Qc.

Definition native_out (cf : bool) (h w c : nat) (x : list Qc) : list Qc :=
  f (if cf then nhwc_to_nchw 1 h w c x else x).
(* chain rule for f o P: the gradient with respect to the channel-last data *)
Definition native_grad (cf : bool) (h w c : nat) (x t : list Qc) : list Qc :=
  if cf then nchw_to_nhwc 1 h w c (vjp (nhwc_to_nchw 1 h w c x) t) else vjp x t.
End Native.

(* what a Keras model gets from predictions_operator: sum(model(x) * targets, -1), sample by sample *)
Definition keras_scores (f : list Qc -> list Qc) (xs ts : list (list Qc)) : list Qc :=
  map2 (fun x t => dot (f x) t) xs ts.

(* F-quad member with well-formed parameters for inputs of size n *)
Definition class_ok (n : nat) (k : qclass) : Prop :=
  length (qW k) = n /\ length (qV k) = n /\ forall a b v, In (a, b, v) (qX k) -> a < n /\ b < n.

(* the F-quad member written on channel-first data, seen as a function of the channel-last data *)
Definition moved_class (h w c : nat) : qclass -> qclass :=
  perm_class (h * w * c) (first_reads h w c) (last_reads h w c).

(* the three shapes a NumPy model / predict_proba can give to the predictions of a row-wise function f:
   2-D (N, K); 1-D (N,) for a single output; squeezed (the batch axis of a batch of one sample disappears) *)
Definition model_2d (f : list Qc -> list Qc) : list (list Qc) -> pred := fun inputs => Pred2 (map f inputs).
Definition model_1d (f1 : list Qc -> Qc) : list (list Qc) -> pred := fun inputs => Pred1 (map f1 inputs).
Definition model_squeezed (f : list Qc -> list Qc) : list (list Qc) -> pred :=
  fun inputs => if (length inputs =? 1)%nat then Pred1 (f (hd [] inputs)) else Pred2 (map f inputs).

(* targets are (N, K) *)
Definition targets_ok (K : nat) (inputs targets : list (list Qc)) : Prop :=
  length targets = length inputs /\ forall t, In t targets -> length t = K.
