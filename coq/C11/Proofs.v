(* C11/Proofs.v — np.moveaxis as index arithmetic (there and back, adjointness, explicit positions), the wrapper =
   the module evaluated natively sample by sample, F-quad through the wrapper, the constructor's rule,
   predictions_one_hot_callable = sum(pred * targets) for 2-D, 1-D and squeezed predictions, every batch size. *)
From Xpl Require Import Base.Tensor C11.Spec.
From Coq Require Import Arith Permutation.
Close Scope Qc_scope. Open Scope nat_scope.

(* ---------- generic row-major index arithmetic ---------- *)
Fixpoint inb (idx s : list nat) : Prop :=
  match idx, s with
  | [], [] => True
  | i :: ir, d :: r => i < d /\ inb ir r
  | _, _ => False
  end.

Lemma prod_cons d r : prod (d :: r) = d * prod r.
Proof. reflexivity. Qed.

Lemma unravel_inb s : forall q, q < prod s -> inb (unravel s q) s.
Proof.
  induction s as [|d r IH]; intros q Hq; cbn [unravel inb]; [exact I|].
  rewrite prod_cons in Hq. assert (Hp : prod r <> 0) by (intro E; rewrite E in Hq; lia).
  split.
  - apply Nat.div_lt_upper_bound; [exact Hp | lia].
  - apply IH. apply Nat.mod_upper_bound; exact Hp.
Qed.

Lemma ravel_unravel s : forall q, q < prod s -> ravel s (unravel s q) = q.
Proof.
  induction s as [|d r IH]; intros q Hq; cbn [unravel ravel].
  - cbn in Hq. lia.
  - rewrite prod_cons in Hq. assert (Hp : prod r <> 0) by (intro E; rewrite E in Hq; lia).
    rewrite IH by (apply Nat.mod_upper_bound; exact Hp).
    pose proof (Nat.div_mod q (prod r) Hp). lia.
Qed.

Lemma ravel_lt s : forall idx, inb idx s -> ravel s idx < prod s.
Proof.
  induction s as [|d r IH]; intros [|i ir] H; cbn [inb] in H; try contradiction; cbn [ravel].
  - cbn; lia.
  - destruct H as [Hi Hr]. specialize (IH ir Hr). rewrite prod_cons. nia.
Qed.

Lemma unravel_ravel s : forall idx, inb idx s -> unravel s (ravel s idx) = idx.
Proof.
  induction s as [|d r IH]; intros [|i ir] H; cbn [inb] in H; try contradiction; cbn [ravel unravel]; [reflexivity|].
  destruct H as [Hi Hr]. pose proof (ravel_lt r ir Hr) as Hlt.
  assert (Hp : prod r <> 0) by lia.
  f_equal.
  - rewrite Nat.div_add_l by exact Hp. rewrite Nat.div_small by exact Hlt. lia.
  - rewrite Nat.add_comm, Nat.mod_add by exact Hp. rewrite Nat.mod_small by exact Hlt. apply IH; exact Hr.
Qed.

(* ---------- the two transpositions of the wrapper ---------- *)
Definition sidx (s o : list nat) (q : nat) : nat := ravel s (permute 0 (unravel (permute 0 s o) q) (invperm o)).

Lemma transpose_sig s o x : transpose s o x = map (fun q => nthq x (sidx s o q)) (seq 0 (prod (permute 0 s o))).
Proof. reflexivity. Qed.

Definition o_first := [0; 3; 1; 2].     (* NHWC -> NCHW *)
Definition o_last := [0; 2; 3; 1].      (* NCHW -> NHWC *)

Lemma moveaxis_to_first s x : length s = 4 -> moveaxis s [3; 1; 2] [1; 2; 3] x = transpose s o_first x.
Proof. intro H. unfold moveaxis. rewrite H. reflexivity. Qed.
Lemma moveaxis_to_last s x : length s = 4 -> moveaxis s [1; 2; 3] [3; 1; 2] x = transpose s o_last x.
Proof. intro H. unfold moveaxis. rewrite H. reflexivity. Qed.

Lemma prod_first n h w c : prod [n; c; h; w] = prod [n; h; w; c].
Proof. cbn [prod fold_right]. ring. Qed.

Ltac destruct_idx4 idx HL :=
  destruct idx as [|?a0 [|?a1 [|?a2 [|?a3 [|? ?]]]]]; cbn [inb] in HL; try (exfalso; clear - HL; tauto).

Lemma sig_first_lt n h w c q : q < prod [n; c; h; w] -> sidx [n; h; w; c] o_first q < prod [n; h; w; c].
Proof.
  intro Hq. unfold sidx. change (permute 0 [n; h; w; c] o_first) with [n; c; h; w].
  change (invperm o_first) with [0; 2; 3; 1].
  pose proof (unravel_inb _ q Hq) as HL. remember (unravel [n; c; h; w] q) as idx eqn:E. clear E.
  destruct_idx4 idx HL. apply ravel_lt. cbn [permute map nth inb]. tauto.
Qed.

Lemma sig_last_lt n h w c p : p < prod [n; h; w; c] -> sidx [n; c; h; w] o_last p < prod [n; c; h; w].
Proof.
  intro Hq. unfold sidx. change (permute 0 [n; c; h; w] o_last) with [n; h; w; c].
  change (invperm o_last) with [0; 3; 1; 2].
  pose proof (unravel_inb _ p Hq) as HL. remember (unravel [n; h; w; c] p) as idx eqn:E. clear E.
  destruct_idx4 idx HL. apply ravel_lt. cbn [permute map nth inb]. tauto.
Qed.

Lemma sig_first_last n h w c p : p < prod [n; h; w; c] ->
  sidx [n; h; w; c] o_first (sidx [n; c; h; w] o_last p) = p.
Proof.
  intro Hp. unfold sidx at 2. change (permute 0 [n; c; h; w] o_last) with [n; h; w; c].
  change (invperm o_last) with [0; 3; 1; 2].
  pose proof (unravel_inb _ p Hp) as HL. pose proof (ravel_unravel _ p Hp) as HR.
  remember (unravel [n; h; w; c] p) as idx eqn:E. clear E.
  destruct_idx4 idx HL. cbn [permute map nth].
  unfold sidx. change (permute 0 [n; h; w; c] o_first) with [n; c; h; w]. change (invperm o_first) with [0; 2; 3; 1].
  rewrite unravel_ravel by (cbn [inb]; tauto). cbn [permute map nth]. exact HR.
Qed.

Lemma sig_last_first n h w c q : q < prod [n; c; h; w] ->
  sidx [n; c; h; w] o_last (sidx [n; h; w; c] o_first q) = q.
Proof.
  intro Hp. unfold sidx at 2. change (permute 0 [n; h; w; c] o_first) with [n; c; h; w].
  change (invperm o_first) with [0; 2; 3; 1].
  pose proof (unravel_inb _ q Hp) as HL. pose proof (ravel_unravel _ q Hp) as HR.
  remember (unravel [n; c; h; w] q) as idx eqn:E. clear E.
  destruct_idx4 idx HL. cbn [permute map nth].
  unfold sidx. change (permute 0 [n; c; h; w] o_last) with [n; h; w; c]. change (invperm o_last) with [0; 3; 1; 2].
  rewrite unravel_ravel by (cbn [inb]; tauto). cbn [permute map nth]. exact HR.
Qed.
(* ---------- transposition there and back, adjointness ---------- *)
Lemma prod4 a b c d : prod [a; b; c; d] = a * b * c * d.
Proof. cbn [prod fold_right]. ring. Qed.

Lemma transpose_length s o x : length (transpose s o x) = prod (permute 0 s o).
Proof. unfold transpose. rewrite map_length, seq_length. reflexivity. Qed.

Lemma map_nthq_seq x : map (nthq x) (seq 0 (length x)) = x.
Proof. symmetry. apply (list_as_seq x 0%Qc). Qed.

Lemma roundtrip_first_last n h w c x : length x = n * h * w * c ->
  transpose [n; c; h; w] o_last (transpose [n; h; w; c] o_first x) = x.
Proof.
  intro Hx. rewrite <- prod4 in Hx. rewrite (transpose_sig [n; c; h; w]).
  change (permute 0 [n; c; h; w] o_last) with [n; h; w; c].
  transitivity (map (nthq x) (seq 0 (length x))); [|apply map_nthq_seq]. rewrite Hx. apply map_ext_in. intros p Hp. apply in_seq in Hp.
  rewrite transpose_sig. change (permute 0 [n; h; w; c] o_first) with [n; c; h; w].
  unfold nthq at 1. rewrite nth_map_seq by (apply sig_last_lt; lia).
  rewrite sig_first_last by lia. reflexivity.
Qed.

Lemma roundtrip_last_first n h w c g : length g = n * h * w * c ->
  transpose [n; h; w; c] o_first (transpose [n; c; h; w] o_last g) = g.
Proof.
  intro Hx. rewrite <- prod4, <- prod_first in Hx. rewrite (transpose_sig [n; h; w; c]).
  change (permute 0 [n; h; w; c] o_first) with [n; c; h; w].
  transitivity (map (nthq g) (seq 0 (length g))); [|apply map_nthq_seq]. rewrite Hx. apply map_ext_in. intros p Hp. apply in_seq in Hp.
  rewrite transpose_sig. change (permute 0 [n; c; h; w] o_last) with [n; h; w; c].
  unfold nthq at 1. rewrite nth_map_seq by (apply sig_first_lt; lia).
  rewrite sig_last_first by lia. reflexivity.
Qed.

Open Scope Qc_scope.
Lemma qsum_perm l l' : Permutation l l' -> qsum l = qsum l'.
Proof. induction 1; cbn [qsum]; try congruence; ring. Qed.

Lemma NoDup_map_inj_in {A B} (f : A -> B) l :
  (forall a b, In a l -> In b l -> f a = f b -> a = b) -> NoDup l -> NoDup (map f l).
Proof.
  induction l as [|a l IH]; intros Hi Hn; cbn [map]; [constructor|].
  inversion Hn as [|? ? Hna Hnl]; subst. constructor.
  - intro Hin. apply in_map_iff in Hin. destruct Hin as [b [E Hb]].
    assert (b = a) by (apply Hi; [right; exact Hb | left; reflexivity | exact E]). subst. contradiction.
  - apply IH; [|exact Hnl]. intros x y Hx Hy. apply Hi; right; assumption.
Qed.

Lemma qsum_reindex (F : nat -> Qc) (tau : nat -> nat) N :
  (forall k, (k < N)%nat -> (tau k < N)%nat) ->
  (forall k k', (k < N)%nat -> (k' < N)%nat -> tau k = tau k' -> k = k') ->
  qsum (map (fun k => F (tau k)) (seq 0 N)) = qsum (map F (seq 0 N)).
Proof.
  intros Hr Hi. rewrite <- (map_map tau F). apply qsum_perm, Permutation_map.
  apply NoDup_Permutation_bis.
  - apply NoDup_map_inj_in; [|apply seq_NoDup].
    intros a b Ha Hb. apply in_seq in Ha. apply in_seq in Hb. apply Hi; lia.
  - rewrite map_length. lia.
  - intros y Hy. apply in_map_iff in Hy. destruct Hy as [k [<- Hk]]. apply in_seq in Hk. apply in_seq.
    specialize (Hr k). lia.
Qed.

(* <P^-1 g, x> = <g, P x> *)
Lemma transpose_adjoint n h w c g x : length x = (n * h * w * c)%nat -> length g = (n * h * w * c)%nat ->
  dot (transpose [n; c; h; w] o_last g) x = dot g (transpose [n; h; w; c] o_first x).
Proof.
  intros Hx Hg. rewrite <- prod4 in Hx, Hg. pose proof (prod_first n h w c) as Hpf.
  rewrite !transpose_sig. change (permute 0%nat [n; c; h; w] o_last) with [n; h; w; c].
  change (permute 0%nat [n; h; w; c] o_first) with [n; c; h; w].
  unfold dot, vmul.
  transitivity (qsum (map2 Qcmult (map (fun q => nthq g (sidx [n; c; h; w] o_last q)) (seq 0 (prod [n; h; w; c])))
                                  (map (nthq x) (seq 0 (prod [n; h; w; c]))))).
  { rewrite <- Hx, map_nthq_seq. reflexivity. }
  transitivity (qsum (map2 Qcmult (map (nthq g) (seq 0 (prod [n; h; w; c])))
                                  (map (fun q => nthq x (sidx [n; h; w; c] o_first q)) (seq 0 (prod [n; h; w; c]))))).
  2: { rewrite <- Hg at 1. rewrite map_nthq_seq, Hpf. reflexivity. }
  rewrite !map2_seq.
  rewrite <- (qsum_reindex (fun q => nthq g q * nthq x (sidx [n; h; w; c] o_first q)) (sidx [n; c; h; w] o_last)).
  - f_equal. apply map_ext_in. intros p Hp. apply in_seq in Hp. rewrite sig_first_last by lia. reflexivity.
  - intros k Hk. rewrite <- Hpf. apply sig_last_lt. exact Hk.
  - intros k k' Hk Hk' E. rewrite <- (sig_first_last n h w c k), <- (sig_first_last n h w c k') by assumption.
    rewrite E. reflexivity.
Qed.
Close Scope Qc_scope.

(* ---------- the model's transpositions are the nested enumerations of the specification ---------- *)
Lemma grid_flat4 {A} (F : nat -> nat -> nat -> nat -> A) d0 d1 d2 d3 :
  flat_map (fun a => flat_map (fun b => flat_map (fun c => map (F a b c) (seq 0 d3)) (seq 0 d2)) (seq 0 d1)) (seq 0 d0)
  = map (fun k => F (k / (d1 * (d2 * d3))) ((k mod (d1 * (d2 * d3))) / (d2 * d3))
                    (((k mod (d1 * (d2 * d3))) mod (d2 * d3)) / d3) (((k mod (d1 * (d2 * d3))) mod (d2 * d3)) mod d3))
        (seq 0 (d0 * (d1 * (d2 * d3)))).
Proof.
  rewrite (flat_map_ext _ (fun a => map (fun k => F a (k / (d2 * d3)) ((k mod (d2 * d3)) / d3) ((k mod (d2 * d3)) mod d3))
                                        (seq 0 (d1 * (d2 * d3))))).
  2: { intro a.
       rewrite (flat_map_ext _ (fun b => map (fun k => F a b (k / d3) (k mod d3)) (seq 0 (d2 * d3))))
         by (intro b; apply (grid_flat (F a b))).
       apply (grid_flat (fun b k => F a b (k / d3) (k mod d3))). }
  apply (grid_flat (fun a k => F a (k / (d2 * d3)) ((k mod (d2 * d3)) / d3) ((k mod (d2 * d3)) mod d3))).
Qed.

Lemma to_first_spec n h w c x : transpose [n; h; w; c] o_first x = nhwc_to_nchw n h w c x.
Proof.
  unfold nhwc_to_nchw. rewrite (grid_flat4 (fun b ch i j => nthq x (((b * h + i) * w + j) * c + ch))).
  rewrite transpose_sig. change (permute 0 [n; h; w; c] o_first) with [n; c; h; w].
  replace (prod [n; c; h; w]) with (n * (c * (h * w))) by (cbn [prod fold_right]; ring).
  apply map_ext. intro q. unfold sidx. change (permute 0 [n; h; w; c] o_first) with [n; c; h; w].
  change (invperm o_first) with [0; 2; 3; 1].
  cbn [unravel prod fold_right]. rewrite !Nat.mul_1_r, Nat.div_1_r.
  cbn [permute map nth ravel prod fold_right]. f_equal. ring.
Qed.

Lemma to_last_spec n h w c g : transpose [n; c; h; w] o_last g = nchw_to_nhwc n h w c g.
Proof.
  unfold nchw_to_nhwc. rewrite (grid_flat4 (fun b i j ch => nthq g (((b * c + ch) * h + i) * w + j))).
  rewrite transpose_sig. change (permute 0 [n; c; h; w] o_last) with [n; h; w; c].
  replace (prod [n; h; w; c]) with (n * (h * (w * c))) by (cbn [prod fold_right]; ring).
  apply map_ext. intro q. unfold sidx. change (permute 0 [n; c; h; w] o_last) with [n; h; w; c].
  change (invperm o_last) with [0; 3; 1; 2].
  cbn [unravel prod fold_right]. rewrite !Nat.mul_1_r, Nat.div_1_r.
  cbn [permute map nth ravel prod fold_right]. f_equal. ring.
Qed.
(* ---------- a batch is converted sample by sample ---------- *)
Lemma flat_map_ext_in {A B} (f g : A -> list B) l : (forall a, In a l -> f a = g a) -> flat_map f l = flat_map g l.
Proof. induction l as [|a l IH]; intro H; cbn [flat_map]; [reflexivity|].
  rewrite H by (left; reflexivity). rewrite IH; [reflexivity|]. intros b Hb. apply H. right. exact Hb. Qed.

Lemma nthq_app_l x y k : k < length x -> nthq (x ++ y) k = nthq x k.
Proof. intro H. unfold nthq. apply app_nth1. exact H. Qed.
Lemma nthq_app_r x y k : nthq (x ++ y) (length x + k) = nthq y k.
Proof. unfold nthq. apply app_nth2_plus. Qed.

Lemma nhwc_to_nchw_S n h w c x y : length x = h * w * c ->
  nhwc_to_nchw (S n) h w c (x ++ y) = nhwc_to_nchw 1 h w c x ++ nhwc_to_nchw n h w c y.
Proof.
  intro Hx. unfold nhwc_to_nchw. cbn [seq flat_map]. rewrite app_nil_r. f_equal.
  - apply flat_map_ext_in; intros ch Hch. apply flat_map_ext_in; intros i Hi. apply map_ext_in; intros j Hj.
    apply in_seq in Hch. apply in_seq in Hi. apply in_seq in Hj. apply nthq_app_l. rewrite Hx.
    assert (E1 : (0 * h + i) * w + j < h * w) by nia. nia.
  - rewrite <- seq_shift, flat_map_concat_map, map_map, <- flat_map_concat_map.
    apply flat_map_ext; intro b. apply flat_map_ext; intro ch. apply flat_map_ext; intro i. apply map_ext; intro j.
    replace (((S b * h + i) * w + j) * c + ch) with (length x + (((b * h + i) * w + j) * c + ch)) by (rewrite Hx; ring).
    apply nthq_app_r.
Qed.

Lemma nchw_to_nhwc_S n h w c x y : length x = h * w * c ->
  nchw_to_nhwc (S n) h w c (x ++ y) = nchw_to_nhwc 1 h w c x ++ nchw_to_nhwc n h w c y.
Proof.
  intro Hx. unfold nchw_to_nhwc. cbn [seq flat_map]. rewrite app_nil_r. f_equal.
  - apply flat_map_ext_in; intros i Hi. apply flat_map_ext_in; intros j Hj. apply map_ext_in; intros ch Hch.
    apply in_seq in Hch. apply in_seq in Hi. apply in_seq in Hj. apply nthq_app_l. rewrite Hx.
    assert (E1 : (0 * c + ch) * h + i < c * h) by nia. nia.
  - rewrite <- seq_shift, flat_map_concat_map, map_map, <- flat_map_concat_map.
    apply flat_map_ext; intro b. apply flat_map_ext; intro i. apply flat_map_ext; intro j. apply map_ext; intro ch.
    replace (((S b * c + ch) * h + i) * w + j) with (length x + (((b * c + ch) * h + i) * w + j)) by (rewrite Hx; ring).
    apply nthq_app_r.
Qed.

Lemma nhwc_to_nchw_batch h w c xs : (forall x, In x xs -> length x = h * w * c) ->
  nhwc_to_nchw (length xs) h w c (concat xs) = concat (map (nhwc_to_nchw 1 h w c) xs).
Proof.
  induction xs as [|x xs IH]; intro H; [reflexivity|]. cbn [length concat map].
  rewrite nhwc_to_nchw_S by (apply H; left; reflexivity). rewrite IH; [reflexivity|].
  intros y Hy. apply H. right. exact Hy.
Qed.

Lemma nchw_to_nhwc_batch h w c gs : (forall g, In g gs -> length g = h * w * c) ->
  nchw_to_nhwc (length gs) h w c (concat gs) = concat (map (nchw_to_nhwc 1 h w c) gs).
Proof.
  induction gs as [|x xs IH]; intro H; [reflexivity|]. cbn [length concat map].
  rewrite nchw_to_nhwc_S by (apply H; left; reflexivity). rewrite IH; [reflexivity|].
  intros y Hy. apply H. right. exact Hy.
Qed.

Lemma nhwc_to_nchw_length n h w c x : length (nhwc_to_nchw n h w c x) = n * h * w * c.
Proof. rewrite <- to_first_spec, transpose_length. change (permute 0 [n; h; w; c] o_first) with [n; c; h; w].
  rewrite prod_first. apply prod4. Qed.
Lemma nchw_to_nhwc_length n h w c g : length (nchw_to_nhwc n h w c g) = n * h * w * c.
Proof. rewrite <- to_last_spec, transpose_length. change (permute 0 [n; c; h; w] o_last) with [n; h; w; c].
  apply prod4. Qed.

Lemma firstn_skipn_app {A} (x y : list A) : firstn (length x) (x ++ y) = x /\ skipn (length x) (x ++ y) = y.
Proof. induction x as [|a x [IH1 IH2]]; cbn [length app firstn skipn]; [split; reflexivity|]. rewrite IH1, IH2. split; reflexivity. Qed.

Lemma chunks_concat {A} D (xs : list (list A)) : 1 <= D -> (forall x, In x xs -> length x = D) -> chunks D (concat xs) = xs.
Proof.
  intros HD. induction xs as [|x xs IH]; intro H; [reflexivity|]. cbn [concat].
  assert (Hx : length x = D) by (apply H; left; reflexivity).
  rewrite chunks_cons_step; [|exact HD|destruct x; [cbn [length] in Hx; lia | discriminate]].
  rewrite <- Hx. destruct (firstn_skipn_app x (concat xs)) as [-> ->]. rewrite Hx, IH; [reflexivity|].
  intros y Hy. apply H. right. exact Hy.
Qed.

(* ---------- the wrapper = the module evaluated natively, sample by sample ---------- *)
Section WrapperCorrect.
Variable f : list Qc -> list Qc.
Variable vjp : list Qc -> list Qc -> list Qc.
Hypothesis vjp_length : forall x t, length (vjp x t) = length x.

Lemma wrapper_call_first h w c xs : 1 <= h -> 1 <= w -> 1 <= c -> (forall x, In x xs -> length x = h * w * c) ->
  wrapper_call f true [length xs; h; w; c] (concat xs) = map (native_out f true h w c) xs.
Proof.
  intros Hh Hw Hc Hxs. unfold wrapper_call, np_img_to_torch, rows, native_out.
  rewrite moveaxis_to_first by reflexivity. rewrite to_first_spec, nhwc_to_nchw_batch by exact Hxs.
  cbn [tl]. rewrite chunks_concat.
  - rewrite map_map. reflexivity.
  - cbn [prod fold_right]. nia.
  - intros y Hy. apply in_map_iff in Hy. destruct Hy as [x [<- _]]. rewrite nhwc_to_nchw_length.
    cbn [prod fold_right]. ring.
Qed.

Lemma wrapper_gradients_first h w c xs ts : 1 <= h -> 1 <= w -> 1 <= c -> length ts = length xs ->
  (forall x, In x xs -> length x = h * w * c) ->
  wrapper_gradients vjp true [length xs; h; w; c] xs ts = map2 (native_grad vjp true h w c) xs ts.
Proof.
  intros Hh Hw Hc Hts Hxs. unfold wrapper_gradients, wrapper_grad, np_img_to_torch, torch_shape, rows, native_grad.
  change (moveaxis_shape [length xs; h; w; c] [3; 1; 2] [1; 2; 3]) with [length xs; c; h; w].
  rewrite moveaxis_to_first, moveaxis_to_last by reflexivity.
  rewrite to_first_spec, to_last_spec, nhwc_to_nchw_batch by exact Hxs. cbn [tl].
  assert (HD : 1 <= prod [h; w; c]) by (cbn [prod fold_right]; nia).
  assert (HP : forall y, In y (map (nhwc_to_nchw 1 h w c) xs) -> length y = prod [h; w; c]).
  { intros y Hy. apply in_map_iff in Hy. destruct Hy as [x [<- _]]. rewrite nhwc_to_nchw_length.
    cbn [prod fold_right]. ring. }
  rewrite chunks_concat by assumption.
  set (gs := map2 vjp (map (nhwc_to_nchw 1 h w c) xs) ts).
  assert (Hgl : length gs = length xs).
  { unfold gs. rewrite map2_length, map_length. lia. }
  assert (Hgs : forall g, In g gs -> length g = h * w * c).
  { intros g Hg. unfold gs in Hg. rewrite map2_combine in Hg. apply in_map_iff in Hg.
    destruct Hg as [[y t] [<- Hyt]]. cbn [fst snd]. rewrite vjp_length.
    apply in_combine_l in Hyt. rewrite (HP y Hyt). cbn [prod fold_right]. ring. }
  rewrite <- Hgl, nchw_to_nhwc_batch by exact Hgs.
  rewrite chunks_concat; [| exact HD |].
  - unfold gs. rewrite map_map2, map2_map_l. reflexivity.
  - intros y Hy. apply in_map_iff in Hy. destruct Hy as [g [<- _]]. rewrite nchw_to_nhwc_length.
    cbn [prod fold_right]. ring.
Qed.

Lemma wrapper_call_last tail xs : 1 <= prod tail -> (forall x, In x xs -> length x = prod tail) ->
  wrapper_call f false (length xs :: tail) (concat xs) = map (native_out f false 0 0 0) xs.
Proof.
  intros HD Hxs. unfold wrapper_call, np_img_to_torch, rows, native_out. cbn [tl].
  rewrite chunks_concat by assumption. reflexivity.
Qed.

Lemma wrapper_gradients_last tail xs ts : 1 <= prod tail -> (forall x, In x xs -> length x = prod tail) ->
  wrapper_gradients vjp false (length xs :: tail) xs ts = map2 (native_grad vjp false 0 0 0) xs ts.
Proof.
  intros HD Hxs. unfold wrapper_gradients, wrapper_grad, np_img_to_torch, rows, native_grad. cbn [tl].
  rewrite (chunks_concat (prod tail) xs) by assumption. apply chunks_concat; [exact HD|].
  intros g Hg. rewrite map2_combine in Hg. apply in_map_iff in Hg. destruct Hg as [[y t] [<- Hyt]].
  cbn [fst snd]. rewrite vjp_length. apply Hxs. apply in_combine_l in Hyt. exact Hyt.
Qed.
End WrapperCorrect.
(* ---------- one sample: explicit reading positions and their inverse relation ---------- *)
Lemma first_reads_lt h w c q : q < c * (h * w) -> first_reads h w c q < h * w * c.
Proof.
  intro Hq. unfold first_reads. assert (Hp : h * w <> 0) by (intro E; rewrite E in Hq; lia).
  pose proof (Nat.mod_upper_bound q (h * w) Hp).
  assert (q / (h * w) < c) by (apply Nat.div_lt_upper_bound; [exact Hp | lia]). nia.
Qed.

Lemma last_reads_lt h w c p : p < h * w * c -> last_reads h w c p < c * (h * w).
Proof.
  intro Hq. unfold last_reads. assert (Hp : c <> 0) by (intro E; rewrite E in Hq; lia).
  pose proof (Nat.mod_upper_bound p c Hp).
  assert (p / c < h * w) by (apply Nat.div_lt_upper_bound; [exact Hp | lia]). nia.
Qed.

Lemma first_last_reads h w c p : p < h * w * c -> first_reads h w c (last_reads h w c p) = p.
Proof.
  intro Hq. unfold first_reads, last_reads. assert (Hc : c <> 0) by (intro E; rewrite E in Hq; lia).
  assert (Hd : p / c < h * w) by (apply Nat.div_lt_upper_bound; [exact Hc | lia]).
  assert (Hp : h * w <> 0) by lia.
  rewrite Nat.div_add_l by exact Hp. rewrite (Nat.div_small (p / c)) by exact Hd.
  rewrite (Nat.add_comm (p mod c * (h * w))), Nat.mod_add by exact Hp. rewrite Nat.mod_small by exact Hd.
  pose proof (Nat.div_mod p c Hc). lia.
Qed.

Lemma last_first_reads h w c q : q < c * (h * w) -> last_reads h w c (first_reads h w c q) = q.
Proof.
  intro Hq. unfold first_reads, last_reads. assert (Hp : h * w <> 0) by (intro E; rewrite E in Hq; lia).
  assert (Hd : q / (h * w) < c) by (apply Nat.div_lt_upper_bound; [exact Hp | lia]).
  assert (Hc : c <> 0) by lia.
  rewrite Nat.div_add_l by exact Hc. rewrite (Nat.div_small (q / (h * w))) by exact Hd.
  rewrite (Nat.add_comm (q mod (h * w) * c)), Nat.mod_add by exact Hc. rewrite Nat.mod_small by exact Hd.
  pose proof (Nat.div_mod q (h * w) Hp). lia.
Qed.

Lemma first_sample h w c x :
  nhwc_to_nchw 1 h w c x = map (fun q => nthq x (first_reads h w c q)) (seq 0 (c * (h * w))).
Proof.
  unfold nhwc_to_nchw. rewrite (grid_flat4 (fun b ch i j => nthq x (((b * h + i) * w + j) * c + ch))).
  rewrite Nat.mul_1_l. apply map_ext_in. intros q Hq. apply in_seq in Hq. cbn [plus] in Hq. destruct Hq as [_ Hq].
  rewrite (Nat.div_small q (c * (h * w))), (Nat.mod_small q (c * (h * w))) by exact Hq. f_equal. unfold first_reads.
  assert (Hw : w <> 0) by (intro E; rewrite E, Nat.mul_0_r, Nat.mul_0_r in Hq; lia).
  pose proof (Nat.div_mod (q mod (h * w)) w Hw). nia.
Qed.

Lemma last_sample h w c g :
  nchw_to_nhwc 1 h w c g = map (fun p => nthq g (last_reads h w c p)) (seq 0 (h * (w * c))).
Proof.
  unfold nchw_to_nhwc. rewrite (grid_flat4 (fun b i j ch => nthq g (((b * c + ch) * h + i) * w + j))).
  rewrite Nat.mul_1_l. apply map_ext_in. intros p Hp. apply in_seq in Hp. cbn [plus] in Hp. destruct Hp as [_ Hp].
  rewrite (Nat.div_small p (h * (w * c))), (Nat.mod_small p (h * (w * c))) by exact Hp. f_equal. unfold last_reads.
  assert (Hc : c <> 0) by (intro E; rewrite E, Nat.mul_0_r, Nat.mul_0_r in Hp; lia).
  assert (Hw : w <> 0) by (intro E; rewrite E, Nat.mul_0_l, Nat.mul_0_r in Hp; lia).
  rewrite (Nat.mul_comm w c). rewrite Nat.mod_mul_r by assumption.
  rewrite <- Nat.div_div by assumption.
  set (a := p / c). set (r := p mod c). assert (Hr : r < c) by (apply Nat.mod_upper_bound; exact Hc).
  replace ((r + c * (a mod w)) / c) with (a mod w).
  2: { rewrite (Nat.mul_comm c), Nat.div_add by exact Hc. rewrite Nat.div_small by exact Hr. reflexivity. }
  replace ((r + c * (a mod w)) mod c) with r.
  2: { rewrite (Nat.mul_comm c), Nat.mod_add by exact Hc. rewrite Nat.mod_small by exact Hr. reflexivity. }
  pose proof (Nat.div_mod a w Hw). nia.
Qed.

Lemma combine_map_l {A A' B} (f : A -> A') (l : list A) (t : list B) :
  combine (map f l) t = map (fun p => (f (fst p), snd p)) (combine l t).
Proof. revert t; induction l as [|a l IH]; intros [|b t]; cbn [map combine]; try reflexivity. rewrite IH. reflexivity. Qed.

(* ---------- F-quad under a re-indexing of its inputs ---------- *)
Open Scope Qc_scope.
Section Reindex.
Variable N : nat.
Variables sg tu : nat -> nat.
Hypothesis sg_lt : forall q, (q < N)%nat -> (sg q < N)%nat.
Hypothesis tu_lt : forall p, (p < N)%nat -> (tu p < N)%nat.
Hypothesis sg_tu : forall p, (p < N)%nat -> sg (tu p) = p.
Hypothesis tu_sg : forall q, (q < N)%nat -> tu (sg q) = q.

Definition P (x : list Qc) : list Qc := map (fun q => nthq x (sg q)) (seq 0 N).
Definition Pinv (g : list Qc) : list Qc := map (fun p => nthq g (tu p)) (seq 0 N).

Lemma P_length x : length (P x) = N.
Proof. unfold P. rewrite map_length, seq_length. reflexivity. Qed.
Lemma nthq_P x q : (q < N)%nat -> nthq (P x) q = nthq x (sg q).
Proof. intro H. unfold P, nthq. apply (nth_map_seq (fun q => nth (sg q) x 0)). exact H. Qed.
Lemma nthq_Pinv g p : (p < N)%nat -> nthq (Pinv g) p = nthq g (tu p).
Proof. intro H. unfold Pinv, nthq. apply (nth_map_seq (fun q => nth (tu q) g 0)). exact H. Qed.

Lemma dot_P a x : length a = N -> length x = N -> dot a (P x) = dot (Pinv a) x.
Proof.
  intros Ha Hx. unfold dot, vmul, P, Pinv.
  assert (Ea : map (nthq a) (seq 0 N) = a) by (rewrite <- Ha; apply map_nthq_seq).
  assert (Ex : map (nthq x) (seq 0 N) = x) by (rewrite <- Hx; apply map_nthq_seq).
  transitivity (qsum (map2 Qcmult (map (nthq a) (seq 0 N)) (map (fun q => nthq x (sg q)) (seq 0 N))));
    [rewrite Ea; reflexivity|].
  transitivity (qsum (map2 Qcmult (map (fun p => nthq a (tu p)) (seq 0 N)) (map (nthq x) (seq 0 N))));
    [|rewrite Ex; reflexivity].
  rewrite !map2_seq.
  rewrite <- (qsum_reindex (fun q => nthq a q * nthq x (sg q)) tu N).
  - f_equal. apply map_ext_in. intros p Hp. apply in_seq in Hp. rewrite sg_tu by lia. reflexivity.
  - exact tu_lt.
  - intros k k' Hk Hk' E. rewrite <- (sg_tu k), <- (sg_tu k') by assumption. rewrite E. reflexivity.
Qed.

Lemma vmul_P x : vmul (P x) (P x) = P (vmul x x).
Proof.
  unfold vmul. rewrite map2_same. unfold P. rewrite map_map. apply map_ext. intro q.
  rewrite map2_same. unfold nthq. destruct (Nat.lt_ge_cases (sg q) (length x)) as [H|H].
  - symmetry. rewrite (nth_indep (map (fun v : Qc => v * v) x) 0 (0 * 0)) by (rewrite map_length; exact H).
    apply (map_nth (fun v : Qc => v * v)).
  - rewrite (nth_overflow (map _ _)) by (rewrite map_length; exact H). rewrite nth_overflow by exact H. ring.
Qed.

Definition pclass := perm_class N sg tu.

Lemma pclass_ok k : class_ok N k -> class_ok N (pclass k).
Proof.
  intros [HW [HV HX]]. unfold pclass, perm_class, class_ok. cbn [qW qV qX].
  rewrite !map_length, !seq_length. split; [reflexivity|]. split; [reflexivity|].
  intros a b v Hin. apply in_map_iff in Hin. destruct Hin as [[[a' b'] v'] [E Hin]].
  injection E as <- <- <-. destruct (HX _ _ _ Hin). split; apply sg_lt; assumption.
Qed.

Lemma class_score_P k x : class_ok N k -> length x = N -> class_score k (P x) = class_score (pclass k) x.
Proof.
  intros [HW [HV HX]] Hx. unfold class_score, pclass, perm_class. cbn [qb qW qV qX].
  rewrite vmul_P. rewrite !dot_P; try assumption.
  2: { unfold vmul. rewrite map2_length, Hx. apply Nat.min_id. }
  fold (Pinv (qW k)). fold (Pinv (qV k)). f_equal.
  rewrite map_map. apply qsum_map_ext. intros [[a b] v] Hin. destruct (HX _ _ _ Hin) as [Ha Hb].
  cbn [cross_term]. rewrite !nthq_P by assumption. reflexivity.
Qed.

Lemma fquad_out_P ks x : (forall k, In k ks -> class_ok N k) -> length x = N ->
  fquad_out ks (P x) = fquad_out (map pclass ks) x.
Proof. intros Hk Hx. unfold fquad_out. rewrite map_map. apply map_ext_in. intros k Hin. apply class_score_P; auto. Qed.

Lemma class_grad_length k x : length (class_grad k x) = length x.
Proof. unfold class_grad. rewrite map_length, seq_length. reflexivity. Qed.

Lemma nthq_class_grad k x i : (i < length x)%nat ->
  nthq (class_grad k x) i = nthq (qW k) i + two * nthq (qV k) i * nthq x i + qsum (map (cross_grad x i) (qX k)).
Proof. intro H. unfold class_grad, nthq.
  apply (nth_map_seq (fun i => nth i (qW k) 0 + two * nth i (qV k) 0 * nth i x 0 + qsum (map (cross_grad x i) (qX k)))). exact H. Qed.

Lemma class_grad_P k x p : class_ok N k -> length x = N -> (p < N)%nat ->
  nthq (class_grad k (P x)) (tu p) = nthq (class_grad (pclass k) x) p.
Proof.
  intros [HW [HV HX]] Hx Hp.
  rewrite !nthq_class_grad by (try rewrite P_length; try rewrite Hx; auto).
  unfold pclass, perm_class. cbn [qW qV qX]. fold (Pinv (qW k)). fold (Pinv (qV k)).
  rewrite !nthq_Pinv by exact Hp. rewrite nthq_P by (apply tu_lt; exact Hp). rewrite sg_tu by exact Hp.
  f_equal. rewrite map_map. apply qsum_map_ext. intros [[a b] v] Hin. destruct (HX _ _ _ Hin) as [Ha Hb].
  cbn [cross_grad]. rewrite !nthq_P by assumption.
  assert (Ea : Nat.eqb a (tu p) = Nat.eqb (sg a) p).
  { destruct (Nat.eqb_spec a (tu p)) as [E|E]; destruct (Nat.eqb_spec (sg a) p) as [E'|E']; try reflexivity.
    - exfalso. apply E'. rewrite E. apply sg_tu. exact Hp.
    - exfalso. apply E. rewrite <- E'. symmetry. apply tu_sg. exact Ha. }
  assert (Eb : Nat.eqb b (tu p) = Nat.eqb (sg b) p).
  { destruct (Nat.eqb_spec b (tu p)) as [E|E]; destruct (Nat.eqb_spec (sg b) p) as [E'|E']; try reflexivity.
    - exfalso. apply E'. rewrite E. apply sg_tu. exact Hp.
    - exfalso. apply E. rewrite <- E'. symmetry. apply tu_sg. exact Hb. }
  rewrite Ea, Eb. reflexivity.
Qed.

Lemma fquad_grad_length ks x t : length (fquad_grad ks x t) = length x.
Proof.
  unfold fquad_grad. apply fold_vadd_length; [apply repeat_length|].
  intros v Hv. rewrite map2_combine in Hv. apply in_map_iff in Hv. destruct Hv as [[k tc] [<- _]].
  unfold vscale. rewrite map_length. apply class_grad_length.
Qed.

Lemma nthq_fquad_grad ks x t i :
  nthq (fquad_grad ks x t) i = qsum (map (fun kt => snd kt * nthq (class_grad (fst kt) x) i) (combine ks t)).
Proof.
  unfold fquad_grad. fold (vsum (length x) (map2 (fun k tc => vscale tc (class_grad k x)) ks t)).
  rewrite (nthq_vsum (length x)).
  - rewrite map2_combine, map_map. apply qsum_map_ext. intros [k tc] _. cbn [fst snd].
    unfold vscale, nthq. destruct (Nat.lt_ge_cases i (length (class_grad k x))) as [H|H].
    + rewrite (nth_indep (map (Qcmult tc) (class_grad k x)) 0 (tc * 0)) by (rewrite map_length; exact H).
      apply (map_nth (Qcmult tc)).
    + rewrite (nth_overflow (map _ _)) by (rewrite map_length; exact H). rewrite nth_overflow by exact H. ring.
  - intros v Hv. rewrite map2_combine in Hv. apply in_map_iff in Hv. destruct Hv as [[k tc] [<- _]].
    unfold vscale. rewrite map_length. apply class_grad_length.
Qed.

Lemma fquad_grad_P ks x t : (forall k, In k ks -> class_ok N k) -> length x = N ->
  Pinv (fquad_grad ks (P x) t) = fquad_grad (map pclass ks) x t.
Proof.
  intros Hk Hx. apply nthq_ext.
  - unfold Pinv. rewrite map_length, seq_length, fquad_grad_length. symmetry. exact Hx.
  - intros p Hp. unfold Pinv in Hp. rewrite map_length, seq_length in Hp.
    rewrite nthq_Pinv by exact Hp. rewrite !nthq_fquad_grad.
    rewrite combine_map_l, map_map.
    apply qsum_map_ext. intros [k tc] Hin. cbn [fst snd]. f_equal.
    apply class_grad_P; [apply Hk; apply in_combine_l in Hin; exact Hin | exact Hx | exact Hp].
Qed.
End Reindex.
Close Scope Qc_scope.
(* ---------- TorchWrapper around the F-quad family = the channel-last family with moved parameters ---------- *)
Section FQ.
Variables h w c : nat.
Let N := h * w * c.
Lemma Nc : N = c * (h * w). Proof. unfold N. ring. Qed.
Lemma Nh : N = h * (w * c). Proof. unfold N. ring. Qed.
Lemma fr_lt q : q < N -> first_reads h w c q < N.
Proof. intro H. apply first_reads_lt. rewrite <- Nc. exact H. Qed.
Lemma lr_lt p : p < N -> last_reads h w c p < N.
Proof. intro H. rewrite Nc. apply last_reads_lt. exact H. Qed.
Lemma fr_lr p : p < N -> first_reads h w c (last_reads h w c p) = p.
Proof. apply first_last_reads. Qed.
Lemma lr_fr q : q < N -> last_reads h w c (first_reads h w c q) = q.
Proof. intro H. apply last_first_reads. rewrite <- Nc. exact H. Qed.

Lemma first_sample_P x : nhwc_to_nchw 1 h w c x = P N (first_reads h w c) x.
Proof. rewrite first_sample, <- Nc. reflexivity. Qed.
Lemma last_sample_Pinv g : nchw_to_nhwc 1 h w c g = Pinv N (last_reads h w c) g.
Proof. rewrite last_sample, <- Nh. reflexivity. Qed.

Lemma fq_outputs_first ks xs : 1 <= h -> 1 <= w -> 1 <= c ->
  (forall x, In x xs -> length x = h * w * c) -> (forall k, In k ks -> class_ok (h * w * c) k) ->
  fq_outputs ks true [length xs; h; w; c] (concat xs) = map (fquad_out (map (moved_class h w c) ks)) xs.
Proof.
  intros Hh Hw Hc Hxs Hks. unfold fq_outputs. rewrite wrapper_call_first by assumption.
  apply map_ext_in. intros x Hx. unfold native_out. rewrite first_sample_P.
  apply (fquad_out_P N _ _ lr_lt fr_lr); [exact Hks | apply Hxs; exact Hx].
Qed.

Lemma map2_ext_in {A B C} (f g : A -> B -> C) a b :
  (forall x y, In x a -> f x y = g x y) -> map2 f a b = map2 g a b.
Proof. revert b; induction a as [|x a IH]; intros [|y b] H; cbn [map2]; try reflexivity.
  rewrite H by (left; reflexivity). rewrite IH; [reflexivity|]. intros; apply H; right; assumption. Qed.

Lemma fq_gradients_first ks xs ts : 1 <= h -> 1 <= w -> 1 <= c -> length ts = length xs ->
  (forall x, In x xs -> length x = h * w * c) -> (forall k, In k ks -> class_ok (h * w * c) k) ->
  fq_gradients ks true [length xs; h; w; c] xs ts = map2 (fquad_grad (map (moved_class h w c) ks)) xs ts.
Proof.
  intros Hh Hw Hc Hts Hxs Hks. unfold fq_gradients.
  rewrite (wrapper_gradients_first (fquad_grad ks) (fquad_grad_length ks)) by assumption.
  apply map2_ext_in. intros x t Hx. unfold native_grad. rewrite first_sample_P, last_sample_Pinv.
  apply (fquad_grad_P N _ _ lr_lt fr_lr lr_fr); [exact Hks | apply Hxs; exact Hx].
Qed.

Lemma fq_scores_first ks xs ts : 1 <= h -> 1 <= w -> 1 <= c ->
  (forall x, In x xs -> length x = h * w * c) -> (forall k, In k ks -> class_ok (h * w * c) k) ->
  fq_scores ks true [length xs; h; w; c] xs ts = map2 (fquad (map (moved_class h w c) ks)) xs ts.
Proof.
  intros Hh Hw Hc Hxs Hks. unfold fq_scores, wrapper_scores. fold (fq_outputs ks).
  rewrite fq_outputs_first by assumption. rewrite map2_map_l. reflexivity.
Qed.
End FQ.

Lemma fq_gradients_last ks tail xs ts : 1 <= prod tail -> (forall x, In x xs -> length x = prod tail) ->
  fq_gradients ks false (length xs :: tail) xs ts = map2 (fquad_grad ks) xs ts.
Proof. intros HD Hxs. unfold fq_gradients.
  rewrite (wrapper_gradients_last (fquad_grad ks) (fquad_grad_length ks)) by assumption. reflexivity. Qed.
Lemma fq_outputs_last ks tail xs : 1 <= prod tail -> (forall x, In x xs -> length x = prod tail) ->
  fq_outputs ks false (length xs :: tail) (concat xs) = map (fquad_out ks) xs.
Proof. intros HD Hxs. unfold fq_outputs. rewrite wrapper_call_last by assumption. reflexivity. Qed.

(* ---------- the constructor's rule ---------- *)
Lemma has_conv_existsb mods : has_conv_layers mods = existsb is_conv2d mods.
Proof. induction mods as [|m r IH]; cbn [has_conv_layers existsb]; [reflexivity|]. destruct (is_conv2d m); [reflexivity | exact IH]. Qed.

Lemma channel_first_rule req mods : init_channel_first req mods = channel_first_spec req mods.
Proof. destruct req; cbn [init_channel_first channel_first_spec]; [reflexivity | apply has_conv_existsb]. Qed.

Lemma channel_first_auto mods : init_channel_first None mods = true <-> In LConv2d mods.
Proof.
  cbn [init_channel_first]. rewrite has_conv_existsb, existsb_exists. split.
  - intros [m [Hin Hm]]. destruct m; try discriminate. exact Hin.
  - intro H. exists LConv2d. split; [exact H | reflexivity].
Qed.

(* ---------- predictions_one_hot_callable ---------- *)
Open Scope Qc_scope.
Lemma bget_in_range m r c i j : shape2 m = (r, c) -> (i < r)%nat -> (j < c)%nat -> bget m i j = nthq (nth i m []) j.
Proof.
  intros E Hi Hj. unfold bget. rewrite E.
  destruct (Nat.eqb_spec r 1) as [->|_]; destruct (Nat.eqb_spec c 1) as [->|_];
    try (replace i with 0%nat by lia); try (replace j with 0%nat by lia); reflexivity.
Qed.

Lemma dot_as_seq K u v : length u = K -> length v = K ->
  dot u v = qsum (map (fun j => nthq u j * nthq v j) (seq 0 K)).
Proof.
  intros Hu Hv. unfold dot, vmul.
  assert (Eu : map (nthq u) (seq 0 K) = u) by (rewrite <- Hu; apply map_nthq_seq).
  assert (Ev : map (nthq v) (seq 0 K) = v) by (rewrite <- Hv; apply map_nthq_seq).
  rewrite <- Eu at 1. rewrite <- Ev at 1. rewrite map2_seq. reflexivity.
Qed.

Lemma map2_as_seq {A B C} (f : A -> B -> C) (a : list A) (b : list B) da db n : length a = n -> length b = n ->
  map2 f a b = map (fun i => f (nth i a da) (nth i b db)) (seq 0 n).
Proof.
  intros Ha Hb. rewrite (list_as_seq a da) at 1. rewrite (list_as_seq b db) at 1. rewrite Ha, Hb. apply map2_seq.
Qed.

Lemma bmul_same_shape a b n K : (1 <= n)%nat -> length a = n -> length b = n ->
  (forall r, In r a -> length r = K) -> (forall r, In r b -> length r = K) ->
  option_map (map qsum) (bmul a b) = Some (map2 dot a b).
Proof.
  intros Hn Ha Hb Hra Hrb.
  assert (Sa : shape2 a = (n, K)).
  { unfold shape2. rewrite Ha. f_equal. destruct a as [|r a]; [cbn [length] in Ha; lia|]. apply Hra. left. reflexivity. }
  assert (Sb : shape2 b = (n, K)).
  { unfold shape2. rewrite Hb. f_equal. destruct b as [|r b]; [cbn [length] in Hb; lia|]. apply Hrb. left. reflexivity. }
  unfold bmul. rewrite Sa, Sb. unfold bdim. rewrite !Nat.eqb_refl. cbn [option_map]. f_equal.
  rewrite map_map. rewrite (map2_as_seq dot a b [] [] n) by assumption.
  apply map_ext_in. intros i Hi. apply in_seq in Hi.
  assert (Hia : In (nth i a []) a) by (apply nth_In; lia).
  assert (Hib : In (nth i b []) b) by (apply nth_In; lia).
  rewrite (dot_as_seq K) by auto. f_equal. apply map_ext_in. intros j Hj. apply in_seq in Hj.
  rewrite (bget_in_range a n K), (bget_in_range b n K) by (assumption || lia). reflexivity.
Qed.

Lemma callable_core model (f : list Qc -> list Qc) K inputs targets :
  (1 <= length inputs)%nat -> targets_ok K inputs targets -> (forall x, length (f x) = K) ->
  as2d (if negb (length inputs =? 1)%nat then expand_dims_1 (model inputs) else model inputs) = map f inputs ->
  one_hot_callable model inputs targets = Some (keras_scores f inputs targets).
Proof.
  intros Hn [Hl Ht] Hf E. unfold one_hot_callable. rewrite E.
  rewrite (bmul_same_shape _ _ (length inputs) K); try assumption.
  - unfold keras_scores. rewrite map2_map_l. reflexivity.
  - apply map_length.
  - intros r Hr. apply in_map_iff in Hr. destruct Hr as [x [<- _]]. apply Hf.
Qed.

Lemma callable_2d f K inputs targets : (1 <= length inputs)%nat -> targets_ok K inputs targets ->
  (forall x, length (f x) = K) -> one_hot_callable (model_2d f) inputs targets = Some (keras_scores f inputs targets).
Proof. intros Hn Ht Hf. apply (callable_core _ f K); try assumption. unfold model_2d.
  destruct (negb (length inputs =? 1)%nat); reflexivity. Qed.

Lemma callable_1d f1 inputs targets : (1 <= length inputs)%nat -> targets_ok 1 inputs targets ->
  one_hot_callable (model_1d f1) inputs targets = Some (keras_scores (fun x => [f1 x]) inputs targets).
Proof.
  intros Hn Ht. apply (callable_core _ (fun x => [f1 x]) 1%nat); try assumption; [reflexivity|]. unfold model_1d.
  destruct (Nat.eqb_spec (length inputs) 1) as [E|E]; cbn [negb expand_dims_1 as2d].
  - destruct inputs as [|x [|y r]]; cbn [length] in E; try lia. reflexivity.
  - rewrite map_map. reflexivity.
Qed.

Lemma callable_squeezed f K inputs targets : (1 <= length inputs)%nat -> targets_ok K inputs targets ->
  (forall x, length (f x) = K) -> one_hot_callable (model_squeezed f) inputs targets = Some (keras_scores f inputs targets).
Proof.
  intros Hn Ht Hf. apply (callable_core _ f K); try assumption. unfold model_squeezed.
  destruct (Nat.eqb_spec (length inputs) 1) as [E|E]; cbn [negb expand_dims_1 as2d]; [|reflexivity].
  destruct inputs as [|x [|y r]]; cbn [length] in E; try lia. reflexivity.
Qed.

(* the 1-D score of a single-output model is f1(x) * t *)
Lemma keras_scores_single f1 inputs targets :
  keras_scores (fun x => [f1 x]) inputs targets = map2 (fun x t => f1 x * nthq t 0 + 0) inputs targets.
Proof. unfold keras_scores. apply map2_ext. intros x [|t0 t]; cbn; unfold nthq; cbn [nth]; [ring | reflexivity]. Qed.

(* batch by batch (operator_batching), remainder batches and batches of one sample included *)
Lemma callable_batched model (f : list Qc -> list Qc) K bs inputs targets :
  (forall sub tsub, (1 <= length sub)%nat -> targets_ok K sub tsub ->
                    one_hot_callable model sub tsub = Some (keras_scores f sub tsub)) ->
  (1 <= length inputs)%nat -> targets_ok K inputs targets -> (match bs with Some b => 1 <= b | None => True end)%nat ->
  batch_one_hot_callable model bs inputs targets = Some (keras_scores f inputs targets).
Proof.
  intros Hm Hn Ht Hbs. destruct bs as [b|]; cbn [batch_one_hot_callable]; [|apply Hm; assumption].
  destruct Ht as [Hl Ht].
  assert (G : forall cs, (forall c, In c cs -> c <> [] /\ forall p, In p c -> In p (combine inputs targets)) ->
    concat_opt (map (fun c => one_hot_callable model (map fst c) (map snd c)) cs)
    = Some (concat (map (map (fun p => dot (f (fst p)) (snd p))) cs))).
  { induction cs as [|c cs IH]; intro Hcs; [reflexivity|]. cbn [map concat_opt concat].
    destruct (Hcs c (or_introl eq_refl)) as [Hne Hin].
    rewrite Hm.
    - rewrite IH by (intros c' Hc'; apply Hcs; right; exact Hc'). f_equal. f_equal.
      unfold keras_scores. rewrite map2_map_l, map2_map_r, map2_same. reflexivity.
    - rewrite map_length. destruct c; [congruence | cbn [length]; lia].
    - split; [rewrite !map_length; reflexivity|]. intros t Hti. apply in_map_iff in Hti.
      destruct Hti as [[x t'] [<- Hp]]. cbn [snd]. apply Ht. apply Hin in Hp. apply in_combine_r in Hp. exact Hp. }
  rewrite G.
  - rewrite map_chunks by exact Hbs. unfold keras_scores. rewrite map2_combine. reflexivity.
  - intros c Hc. split; [apply (chunks_all_small b _ c Hbs Hc)|].
    intros p Hp. rewrite <- (concat_chunks b (combine inputs targets)) by exact Hbs.
    apply in_concat. exists c. split; assumption.
Qed.
Close Scope Qc_scope.

(* ---------- statements in the form used by Props/C11.v ---------- *)
Lemma moveaxis_orders :
  moveaxis_order 4 [3; 1; 2] [1; 2; 3] = [0; 3; 1; 2] /\ moveaxis_order 4 [1; 2; 3] [3; 1; 2] = [0; 2; 3; 1].
Proof. split; reflexivity. Qed.

Lemma moveaxis_explicit n h w c x :
  moveaxis [n; h; w; c] [3; 1; 2] [1; 2; 3] x = nhwc_to_nchw n h w c x /\
  moveaxis [n; c; h; w] [1; 2; 3] [3; 1; 2] x = nchw_to_nhwc n h w c x.
Proof. split; [rewrite moveaxis_to_first by reflexivity; apply to_first_spec
              | rewrite moveaxis_to_last by reflexivity; apply to_last_spec]. Qed.

Lemma moveaxis_roundtrip n h w c x : length x = n * h * w * c ->
  moveaxis [n; c; h; w] [1; 2; 3] [3; 1; 2] (moveaxis [n; h; w; c] [3; 1; 2] [1; 2; 3] x) = x /\
  moveaxis [n; h; w; c] [3; 1; 2] [1; 2; 3] (moveaxis [n; c; h; w] [1; 2; 3] [3; 1; 2] x) = x.
Proof. intro H. rewrite !moveaxis_to_first, !moveaxis_to_last by reflexivity.
  split; [apply roundtrip_first_last | apply roundtrip_last_first]; exact H. Qed.

Lemma moveaxis_adjoint n h w c g x : length x = n * h * w * c -> length g = n * h * w * c ->
  dot (moveaxis [n; c; h; w] [1; 2; 3] [3; 1; 2] g) x = dot g (moveaxis [n; h; w; c] [3; 1; 2] [1; 2; 3] x).
Proof. intros Hx Hg. rewrite moveaxis_to_first, moveaxis_to_last by reflexivity. apply transpose_adjoint; assumption. Qed.

Lemma sample_positions h w c x g :
  nhwc_to_nchw 1 h w c x = map (fun q => nthq x (first_reads h w c q)) (seq 0 (c * (h * w))) /\
  nchw_to_nhwc 1 h w c g = map (fun p => nthq g (last_reads h w c p)) (seq 0 (h * (w * c))) /\
  (forall p, p < h * w * c -> first_reads h w c (last_reads h w c p) = p) /\
  (forall q, q < c * (h * w) -> last_reads h w c (first_reads h w c q) = q).
Proof. split; [apply first_sample|]. split; [apply last_sample|]. split; [apply first_last_reads | apply last_first_reads]. Qed.

Lemma wrapper_is_native (f : list Qc -> list Qc) (vjp : list Qc -> list Qc -> list Qc) h w c xs ts :
  (forall x t, length (vjp x t) = length x) -> 1 <= h -> 1 <= w -> 1 <= c -> length ts = length xs ->
  (forall x, In x xs -> length x = h * w * c) ->
  wrapper_call f true [length xs; h; w; c] (concat xs) = map (native_out f true h w c) xs /\
  wrapper_gradients vjp true [length xs; h; w; c] xs ts = map2 (native_grad vjp true h w c) xs ts.
Proof. intros. split; [apply wrapper_call_first | apply wrapper_gradients_first]; assumption. Qed.

Lemma wrapper_is_native_no_conversion (f : list Qc -> list Qc) (vjp : list Qc -> list Qc -> list Qc) tail xs ts :
  (forall x t, length (vjp x t) = length x) -> 1 <= prod tail -> (forall x, In x xs -> length x = prod tail) ->
  wrapper_call f false (length xs :: tail) (concat xs) = map f xs /\
  wrapper_gradients vjp false (length xs :: tail) xs ts = map2 vjp xs ts.
Proof. intros Hv HD Hxs. split.
  - rewrite wrapper_call_last by assumption. reflexivity.
  - rewrite wrapper_gradients_last by assumption. reflexivity. Qed.

Lemma wrapper_grad_correct ks h w c xs ts : 1 <= h -> 1 <= w -> 1 <= c -> length ts = length xs ->
  (forall x, In x xs -> length x = h * w * c) -> (forall k, In k ks -> class_ok (h * w * c) k) ->
  fq_outputs ks true [length xs; h; w; c] (concat xs) = map (fquad_out (map (moved_class h w c) ks)) xs /\
  fq_scores ks true [length xs; h; w; c] xs ts = map2 (fquad (map (moved_class h w c) ks)) xs ts /\
  fq_gradients ks true [length xs; h; w; c] xs ts = map2 (fquad_grad (map (moved_class h w c) ks)) xs ts.
Proof. intros. split; [apply fq_outputs_first; assumption|]. split; [apply fq_scores_first | apply fq_gradients_first]; assumption. Qed.

Lemma wrapper_grad_correct_no_conversion ks tail xs ts : 1 <= prod tail -> (forall x, In x xs -> length x = prod tail) ->
  fq_outputs ks false (length xs :: tail) (concat xs) = map (fquad_out ks) xs /\
  fq_gradients ks false (length xs :: tail) xs ts = map2 (fquad_grad ks) xs ts.
Proof. intros. split; [apply fq_outputs_last | apply fq_gradients_last]; assumption. Qed.

Lemma channel_first_rule_full req mods :
  init_channel_first req mods = channel_first_spec req mods /\ (init_channel_first None mods = true <-> In LConv2d mods).
Proof. split; [apply channel_first_rule | apply channel_first_auto]. Qed.

Definition bs_ok (bs : option nat) : Prop := match bs with Some b => 1 <= b | None => True end.

Lemma callable_equals_keras (f : list Qc -> list Qc) K bs inputs targets :
  1 <= length inputs -> targets_ok K inputs targets -> (forall x, length (f x) = K) -> bs_ok bs ->
  batch_one_hot_callable (model_2d f) bs inputs targets = Some (keras_scores f inputs targets) /\
  batch_one_hot_callable (model_squeezed f) bs inputs targets = Some (keras_scores f inputs targets).
Proof.
  intros Hn Ht Hf Hbs. split.
  - apply (callable_batched _ f K); try assumption. intros. apply (callable_2d f K); assumption.
  - apply (callable_batched _ f K); try assumption. intros. apply (callable_squeezed f K); assumption.
Qed.

Lemma callable_1d_equals_keras (f1 : list Qc -> Qc) bs inputs targets :
  1 <= length inputs -> targets_ok 1 inputs targets -> bs_ok bs ->
  batch_one_hot_callable (model_1d f1) bs inputs targets = Some (keras_scores (fun x => [f1 x]) inputs targets) /\
  keras_scores (fun x => [f1 x]) inputs targets = map2 (fun x t => (f1 x * nthq t 0 + 0)%Qc) inputs targets.
Proof.
  intros Hn Ht Hbs. split; [|apply keras_scores_single].
  apply (callable_batched _ (fun x => [f1 x]) 1); try assumption. intros. apply callable_1d; assumption.
Qed.

(* ---------- the container of the inputs.  Current code: right for explainers (tf tensors) and metrics (NumPy arrays), every
   batch size.  Code as found: metrics failed with batch_size=None on callables / predict_proba objects ---------- *)
Lemma callable_container_ok k (f : list Qc -> list Qc) K bs inputs targets :
  1 <= length inputs -> targets_ok K inputs targets -> (forall x, length (f x) = K) -> bs_ok bs ->
  batch_one_hot_callable_on k (model_2d f) bs inputs targets = Some (keras_scores f inputs targets).
Proof.
  intros Hn Ht Hf Hbs. destruct (callable_equals_keras f K bs inputs targets Hn Ht Hf Hbs) as [H2 _].
  destruct bs as [b|]; cbn [batch_one_hot_callable_on]; exact H2.
Qed.

Lemma callable_container_orig_ok k (f : list Qc -> list Qc) K bs inputs targets :
  1 <= length inputs -> targets_ok K inputs targets -> (forall x, length (f x) = K) -> bs_ok bs ->
  (k = TfTensor \/ bs <> None) ->
  batch_one_hot_callable_on_orig k (model_2d f) bs inputs targets = Some (keras_scores f inputs targets).
Proof.
  intros Hn Ht Hf Hbs Hk. destruct (callable_equals_keras f K bs inputs targets Hn Ht Hf Hbs) as [H2 _].
  destruct bs as [b|]; cbn [batch_one_hot_callable_on_orig]; [exact H2|].
  destruct Hk as [->|Hk]; [exact H2 | congruence].
Qed.

Lemma metric_callable_bs_none_refuted :
  exists (f : list Qc -> list Qc) inputs targets,
    1 <= length inputs /\ targets_ok 1 inputs targets /\ (forall x, length (f x) = 1) /\
    batch_one_hot_callable_on_orig explainer_container (model_2d f) None inputs targets = Some (keras_scores f inputs targets) /\
    batch_one_hot_callable_on_orig metric_container (model_2d f) (Some 1) inputs targets = Some (keras_scores f inputs targets) /\
    batch_one_hot_callable_on_orig metric_container (model_2d f) None inputs targets = None.
Proof.
  exists (fun x => [nthq x 0]), [[q 1 2]], [[q 2 1]].
  split; [cbn; lia|]. split; [split; [reflexivity | intros t [<-|[]]; reflexivity]|]. split; [reflexivity|].
  split; [vm_compute; reflexivity|]. split; [vm_compute; reflexivity|]. reflexivity.
Qed.
