(* C11/Model.v — executable transcription of the wrappers: xplique/wrappers/pytorch.py (TorchWrapper) and
   xplique/commons/callable_operations.py (predictions_one_hot_callable).  No proofs here.

   TorchWrapper.__init__:
       if is_channel_first is None: self.channel_first = self._has_conv_layers()
       else:                        self.channel_first = is_channel_first
   _has_conv_layers:
       has_conv_layers = False
       for module in self.model.modules():
           if isinstance(module, self.nn.Conv2d): has_conv_layers = True; break
   np_img_to_torch:
       if self.channel_first: np_inputs = np.moveaxis(np_inputs, [3, 1, 2], [1, 2, 3])
   call (tf.custom_gradient):
       torch_inputs = self.np_img_to_torch(inputs); outputs = self.model(torch_inputs)
       def grad(upstream):
           torch.autograd.backward(outputs, grad_tensors=upstream); dx_np = torch_inputs.grad
           if self.channel_first: dx_np = np.moveaxis(dx_np, [1, 2, 3], [3, 1, 2])
           return dx_np
   np.moveaxis(a, source, destination)   (numpy/core/numeric.py):
       order = [n for n in range(a.ndim) if n not in source]
       for dest, src in sorted(zip(destination, source)): order.insert(dest, src)
       return a.transpose(order)
   a.transpose(order): result.shape[i] = a.shape[order[i]],  result[idx] = a[m]  with  m[order[i]] = idx[i];
   arrays are flat row-major lists here (ravel / unravel are explicit index arithmetic).

   predictions_one_hot_callable(model, inputs, targets):
       pred = model.predict_proba(inputs.numpy())  |  model(inputs.numpy())
       if inputs.shape[0] != 1:
           if len(pred.shape) == 1: pred = tf.expand_dims(pred, axis=1)
       scores = tf.reduce_sum(pred * targets, axis=-1)            (NumPy / TF broadcasting)

   The torch module and torch.autograd are function arguments: [module_out] (one sample, flat, in the layout the
   module receives -> outputs) and [module_vjp] (sample -> upstream row -> gradient w.r.t. that sample, same layout). *)
From Xpl Require Export Base.ListX Base.Families.
Close Scope Qc_scope. Open Scope nat_scope.

(* ------------------------------------------------------------------ row-major index arithmetic *)
Definition prod (s : list nat) : nat := fold_right Nat.mul 1 s.

(* np.unravel_index(k, s) for k < prod s *)
Fixpoint unravel (s : list nat) (k : nat) : list nat :=
  match s with
  | [] => []
  | _ :: r => k / prod r :: unravel r (k mod prod r)
  end.

(* np.ravel_multi_index(idx, s) *)
Fixpoint ravel (s idx : list nat) : nat :=
  match s, idx with
  | _ :: r, i :: ir => i * prod r + ravel r ir
  | _, _ => 0
  end.

(* ------------------------------------------------------------------ np.moveaxis / ndarray.transpose *)
Fixpoint insert_at {A} (i : nat) (x : A) (l : list A) : list A :=      (* list.insert(i, x) *)
  match i, l with
  | O, _ => x :: l
  | S i', y :: r => y :: insert_at i' x r
  | S _, [] => [x]
  end.

Fixpoint ins_pair (p : nat * nat) (l : list (nat * nat)) : list (nat * nat) :=
  match l with
  | [] => [p]
  | q :: r => if fst p <=? fst q then p :: q :: r else q :: ins_pair p r
  end.
Definition sort_pairs (l : list (nat * nat)) : list (nat * nat) := fold_right ins_pair [] l.   (* sorted(zip(dst, src)) *)

Definition moveaxis_order (ndim : nat) (src dst : list nat) : list nat :=
  fold_left (fun order p => insert_at (fst p) (snd p) order) (sort_pairs (combine dst src))
            (filter (fun n => negb (existsb (Nat.eqb n) src)) (seq 0 ndim)).

Definition permute {A} (d : A) (l : list A) (order : list nat) : list A := map (fun a => nth a l d) order.

Fixpoint index_of (j : nat) (l : list nat) : nat :=
  match l with [] => 0 | a :: r => if Nat.eqb a j then 0 else S (index_of j r) end.
(* m[order[i]] = idx[i]  <=>  m = permute idx (invperm order) *)
Definition invperm (order : list nat) : list nat := map (fun j => index_of j order) (seq 0 (length order)).

Definition transpose (s order : list nat) (x : list Qc) : list Qc :=
  let s' := permute 0 s order in
  map (fun k => nthq x (ravel s (permute 0 (unravel s' k) (invperm order)))) (seq 0 (prod s')).

Definition moveaxis (s src dst : list nat) (x : list Qc) : list Qc :=
  transpose s (moveaxis_order (length s) src dst) x.
Definition moveaxis_shape (s src dst : list nat) : list nat :=
  permute 0 s (moveaxis_order (length s) src dst).

(* ------------------------------------------------------------------ TorchWrapper.__init__ *)
(* the classes that can occur in module.modules(); isinstance(_, nn.Conv2d) holds for Conv2d (and its subclasses) only *)
Inductive torch_layer := LConv2d | LConv1d | LConv3d | LConvTranspose2d | LLinear | LActivation | LFlatten | LContainer | LOther.
Definition is_conv2d (m : torch_layer) : bool := match m with LConv2d => true | _ => false end.

(* the loop with its break *)
Fixpoint has_conv_layers (modules : list torch_layer) : bool :=
  match modules with
  | [] => false
  | m :: r => if is_conv2d m then true else has_conv_layers r
  end.

Definition init_channel_first (is_channel_first : option bool) (modules : list torch_layer) : bool :=
  match is_channel_first with
  | None => has_conv_layers modules
  | Some b => b
  end.

(* ------------------------------------------------------------------ TorchWrapper.call and its custom gradient *)
Definition np_img_to_torch (channel_first : bool) (s : list nat) (flat : list Qc) : list Qc :=
  if channel_first then moveaxis s [3; 1; 2] [1; 2; 3] flat else flat.
Definition torch_shape (channel_first : bool) (s : list nat) : list nat :=
  if channel_first then moveaxis_shape s [3; 1; 2] [1; 2; 3] else s.
(* the batch as rows of one sample each *)
Definition rows (s : list nat) (flat : list Qc) : list (list Qc) := chunks (prod (tl s)) flat.

Section Wrapper.
Variable module_out : list Qc -> list Qc.
Variable module_vjp : list Qc -> list Qc -> list Qc.

(* s = shape of the batch handed to the wrapper, e.g. [n; h; w; c] or [n; d]; flat = its row-major data *)
Definition wrapper_call (cf : bool) (s : list nat) (flat : list Qc) : list (list Qc) :=
  map module_out (rows s (np_img_to_torch cf s flat)).

Definition wrapper_grad (cf : bool) (s : list nat) (flat : list Qc) (upstream : list (list Qc)) : list Qc :=
  let torch_inputs := np_img_to_torch cf s flat in
  let dx := concat (map2 module_vjp (rows s torch_inputs) upstream) in
  if cf then moveaxis (torch_shape cf s) [1; 2; 3] [3; 1; 2] dx else dx.

(* what xplique's predictions_operator and its GradientTape see: sum(wrapper(x) * targets, -1) and its gradient
   (the upstream gradient of row b is targets[b]) *)
Definition wrapper_scores (cf : bool) (s : list nat) (xs ts : list (list Qc)) : list Qc :=
  map2 dot (wrapper_call cf s (concat xs)) ts.
Definition wrapper_gradients (cf : bool) (s : list nat) (xs ts : list (list Qc)) : list (list Qc) :=
  rows s (wrapper_grad cf s (concat xs) ts).
End Wrapper.

(* the wrapper around a member of the F-quad family written in the layout the module receives *)
Definition fq_scores (ks : list qclass) := wrapper_scores (fquad_out ks).
Definition fq_outputs (ks : list qclass) := wrapper_call (fquad_out ks).
Definition fq_gradients (ks : list qclass) := wrapper_gradients (fquad_grad ks).

(* the F-quad member with its parameters moved from NCHW to NHWC positions: sigma = NHWC index read by NCHW position,
   tau = its inverse (NCHW index read by NHWC position) *)
Definition perm_class (n : nat) (sigma tau : nat -> nat) (k : qclass) : qclass :=
  {| qb := qb k;
     qW := map (fun i => nthq (qW k) (tau i)) (seq 0 n);
     qV := map (fun i => nthq (qV k) (tau i)) (seq 0 n);
     qX := map (fun e => let '(a, b, c) := e in (sigma a, sigma b, c)) (qX k) |}.

(* ------------------------------------------------------------------ predictions_one_hot_callable *)
Inductive pred :=
| Pred1 (p : list Qc)               (* 1-D array of shape (len p,) *)
| Pred2 (p : list (list Qc)).       (* 2-D array (rectangular) *)

Definition shape2 (m : list (list Qc)) : nat * nat := (length m, length (hd [] m)).
(* broadcasting of one dimension: equal, or one of them is 1; None = "operands could not be broadcast" *)
Definition bdim (a b : nat) : option nat :=
  if a =? b then Some a else if a =? 1 then Some b else if b =? 1 then Some a else None.
Definition bget (m : list (list Qc)) (i j : nat) : Qc :=
  let '(r, c) := shape2 m in nthq (nth (if r =? 1 then 0 else i) m []) (if c =? 1 then 0 else j).
Open Scope Qc_scope.
Definition bmul (a b : list (list Qc)) : option (list (list Qc)) :=
  let '(ra, ca) := shape2 a in let '(rb, cb) := shape2 b in
  match bdim ra rb, bdim ca cb with
  | Some r, Some c => Some (map (fun i => map (fun j => bget a i j * bget b i j) (seq 0 c)) (seq 0 r))
  | _, _ => None
  end.
Close Scope Qc_scope.
(* a 1-D operand of a 2-D product is a single row *)
Definition as2d (p : pred) : list (list Qc) := match p with Pred1 v => [v] | Pred2 m => m end.
Definition expand_dims_1 (p : pred) : pred :=            (* tf.expand_dims(pred, axis=1) when len(pred.shape) == 1 *)
  match p with Pred1 v => Pred2 (map (fun a => [a]) v) | Pred2 m => Pred2 m end.

(* [model] is the callable / predict_proba applied to the whole batch; targets are (N, output_size) *)
Definition one_hot_callable (model : list (list Qc) -> pred) (inputs targets : list (list Qc)) : option (list Qc) :=
  let pred := model inputs in
  let pred := if negb (length inputs =? 1) then expand_dims_1 pred else pred in
  option_map (map qsum) (bmul (as2d pred) targets).

(* operator_batching(predictions_one_hot_callable): batch by batch (remainder batch included) *)
Fixpoint concat_opt {A} (l : list (option (list A))) : option (list A) :=
  match l with
  | [] => Some []
  | None :: _ => None
  | Some a :: r => match concat_opt r with Some b => Some (a ++ b) | None => None end
  end.
Definition batch_one_hot_callable (model : list (list Qc) -> pred) (bs : option nat) (inputs targets : list (list Qc))
  : option (list Qc) :=
  match bs with
  | None => one_hot_callable model inputs targets
  | Some b => concat_opt (map (fun c => one_hot_callable model (map fst c) (map snd c)) (chunks b (combine inputs targets)))
  end.

(* ------------------------------------------------------------------ what `inputs` is when the operator receives it
   predictions_one_hot_callable calls inputs.numpy(): only tf tensors have that method.
   operator_batching: with a batch size the operator receives the tf tensors produced by
   tf.data.Dataset.from_tensor_slices((inputs, targets)).batch(b), whatever was handed in.  With batch_size=None
     - code as found:   results = operator(model, inputs, targets)            (the caller's own object)
     - current code:    results = operator(model, tf.convert_to_tensor(inputs), tf.convert_to_tensor(targets))
   Explainers sanitize with tensor_sanitize (tf tensors); metrics (metrics/base.py: numpy_sanitize) hold NumPy arrays.
   [batch_one_hot_callable_on] is the current code, [batch_one_hot_callable_on_orig] the code as found. *)
Inductive container := TfTensor | NdArray.
Definition has_numpy_method (k : container) : bool := match k with TfTensor => true | NdArray => false end.
Definition one_hot_callable_on (k : container) (model : list (list Qc) -> pred) (inputs targets : list (list Qc))
  : option (list Qc) :=
  if has_numpy_method k then one_hot_callable model inputs targets else None.        (* None = AttributeError *)
Definition convert_to_tensor (k : container) : container := TfTensor.
Definition batch_one_hot_callable_on (k : container) (model : list (list Qc) -> pred) (bs : option nat)
  (inputs targets : list (list Qc)) : option (list Qc) :=
  match bs with
  | None => one_hot_callable_on (convert_to_tensor k) model inputs targets
  | Some b => batch_one_hot_callable model (Some b) inputs targets
  end.
Definition batch_one_hot_callable_on_orig (k : container) (model : list (list Qc) -> pred) (bs : option nat)
  (inputs targets : list (list Qc)) : option (list Qc) :=
  match bs with
  | None => one_hot_callable_on k model inputs targets
  | Some b => batch_one_hot_callable model (Some b) inputs targets
  end.
Definition explainer_container := TfTensor.
Definition metric_container := NdArray.
