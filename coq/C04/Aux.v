(* C04/Aux.v — general list / Qc lemmas needed by C04 (candidates for Base) *)
From Xpl Require Import Base.Tensor.
From Coq Require Import Arith.
Close Scope Qc_scope. Open Scope nat_scope.

Lemma map2_app {A B C} (f : A -> B -> C) a a' b b' : length a = length b ->
  map2 f (a ++ a') (b ++ b') = map2 f a b ++ map2 f a' b'.
Proof.
  revert b; induction a as [|x a IH]; intros [|y b] H; cbn [length] in H; try discriminate.
  - reflexivity.
  - cbn [app map2]. f_equal. apply IH. lia.
Qed.

Lemma map2_repeat_r {A B C} (f : A -> B -> C) a y n : length a = n ->
  map2 f a (repeat y n) = map (fun x => f x y) a.
Proof. intros <-. induction a as [|x a IH]; [reflexivity|]. cbn [length repeat map2 map]. f_equal. exact IH. Qed.

Lemma map2_repeat_l {A B C} (f : A -> B -> C) x b n : length b = n ->
  map2 f (repeat x n) b = map (fun y => f x y) b.
Proof. intros <-. induction b as [|y b IH]; [reflexivity|]. cbn [length repeat map2 map]. f_equal. exact IH. Qed.

(* map2 stops at the shorter list *)
Lemma map2_firstn_l {A B C} (f : A -> B -> C) a b : map2 f (firstn (length b) a) b = map2 f a b.
Proof. revert b; induction a as [|x a IH]; intros [|y b]; cbn [length firstn map2]; try reflexivity.
  f_equal. apply IH. Qed.

Lemma removelast_firstn_len {A} (l : list A) : removelast l = firstn (length l - 1) l.
Proof.
  induction l as [|x l IH]; [reflexivity|]. destruct l as [|y l]; [reflexivity|].
  cbn [removelast length] in *. rewrite IH. cbn [Nat.sub firstn]. rewrite Nat.sub_0_r. reflexivity.
Qed.

(* g[:-1] `op` g[1:]  reads positions k and k+1 *)
Lemma map2_removelast_tl {A C} (f : A -> A -> C) (G : nat -> A) m :
  map2 f (removelast (map G (seq 0 (S m)))) (tl (map G (seq 0 (S m))))
  = map (fun k => f (G k) (G (S k))) (seq 0 m).
Proof.
  rewrite removelast_firstn_len. rewrite map_length, seq_length.
  replace (S m - 1) with m by lia.
  cbn [seq map tl]. rewrite <- seq_shift, map_map.
  replace (firstn m (G 0 :: map (fun x => G (S x)) (seq 0 m)))
    with (firstn m (map G (seq 0 (S m)))) by (cbn [seq map]; rewrite <- seq_shift, map_map; reflexivity).
  rewrite seq_S, map_app, firstn_app, map_length, seq_length, Nat.sub_diag. cbn [firstn plus].
  rewrite app_nil_r, firstn_all2 by (rewrite map_length, seq_length; lia).
  apply map2_seq.
Qed.

(* reshape (-1, m, ...) of a row-major (N, m) block gives back the N rows *)
Lemma chunks_flat_const {A B} (f : A -> list B) m l : 1 <= m -> (forall x, length (f x) = m) ->
  chunks m (flat_map f l) = map f l.
Proof.
  intros Hm Hf. induction l as [|x l IH]; [reflexivity|].
  cbn [flat_map map]. rewrite chunks_cons_step; [| exact Hm |].
  2:{ intro E. apply (f_equal (@length B)) in E. rewrite app_length, Hf in E. cbn [length] in E. lia. }
  rewrite firstn_app, Hf, Nat.sub_diag. cbn [firstn]. rewrite app_nil_r.
  rewrite firstn_all2 by (rewrite Hf; lia).
  rewrite skipn_app, Hf, Nat.sub_diag. cbn [skipn].
  rewrite skipn_all2 by (rewrite Hf; lia). cbn [app]. rewrite IH. reflexivity.
Qed.

Lemma rep_cons {A} n (x : A) l : rep n (x :: l) = repeat x n ++ rep n l.
Proof. reflexivity. Qed.

Lemma map2_flat_rep {A B C D} (f : B -> C -> D) (g : A -> list B) (h : A -> C) m l :
  (forall x, length (g x) = m) ->
  map2 f (flat_map g l) (rep m (map h l)) = flat_map (fun x => map (fun p => f p (h x)) (g x)) l.
Proof.
  intro Hg. induction l as [|x l IH]; [reflexivity|].
  cbn [flat_map map]. rewrite rep_cons, map2_app by (rewrite repeat_length; apply Hg).
  rewrite IH, map2_repeat_r by apply Hg. reflexivity.
Qed.

Open Scope Qc_scope.

Lemma nthq_map2 f a b i : length a = length b -> f 0 0 = 0 ->
  nthq (map2 f a b) i = f (nthq a i) (nthq b i).
Proof.
  unfold nthq. revert b i; induction a as [|x a IH]; intros [|y b] i H H0; cbn [length] in H; try discriminate.
  - destruct i; symmetry; exact H0.
  - destruct i; [reflexivity|]. cbn [map2 nth]. apply IH; [lia | exact H0].
Qed.

Lemma nthq_vmul a b i : length a = length b -> nthq (vmul a b) i = nthq a i * nthq b i.
Proof. intro H. unfold vmul. apply (nthq_map2 Qcmult); [exact H | ring]. Qed.
Lemma nthq_vsub a b i : length a = length b -> nthq (vsub a b) i = nthq a i - nthq b i.
Proof. intro H. unfold vsub. apply (nthq_map2 Qcminus); [exact H | ring]. Qed.
Lemma nthq_vadd' a b i : length a = length b -> nthq (vadd a b) i = nthq a i + nthq b i.
Proof. apply nthq_vadd. Qed.

Lemma nthq_repeat v n i : (i < n)%nat -> nthq (repeat v n) i = v.
Proof. unfold nthq. revert i; induction n as [|n IH]; intros [|i] H; cbn [repeat nth]; try lia; auto.
  apply IH; lia. Qed.

Lemma nthq_seq (f : nat -> Qc) n i : (i < n)%nat -> nthq (map f (seq 0 n)) i = f i.
Proof. intro H. unfold nthq. apply nth_map_seq; exact H. Qed.

Lemma nthq_overflow l i : (length l <= i)%nat -> nthq l i = 0.
Proof. intro H. unfold nthq. apply nth_overflow; exact H. Qed.

(* constants *)
Lemma half_two : half * two = 1.
Proof. apply Qc_is_canon. reflexivity. Qed.
Lemma two_eq : two = 1 + 1.
Proof. apply Qc_is_canon. reflexivity. Qed.
Lemma two_neq0 : two <> 0.
Proof. intro H. discriminate H. Qed.

Lemma qn_S k : qn (S k) = qn k + 1.
Proof. unfold qn. apply Qc_is_canon. rewrite Qc_plus_q, !Qc_Q2Qc_q.
  rewrite Nat2Z.inj_succ. unfold Qeq, Qplus; cbn. lia. Qed.
Lemma qn_0 : qn 0 = 0.
Proof. apply Qc_is_canon. reflexivity. Qed.
Lemma qn_pos k : (1 <= k)%nat -> 0 < qn k.
Proof. intro H. unfold qn. change (0 < this (Q2Qc (Z.of_nat k # 1)))%Q. rewrite Qc_Q2Qc_q.
  unfold Qlt; cbn. lia. Qed.
Lemma qn_neq0 k : (1 <= k)%nat -> qn k <> 0.
Proof. intros H E. pose proof (qn_pos k H) as P. apply Qclt_not_eq in P. congruence. Qed.

Lemma qsum_map_div {A} (f : A -> Qc) c l : qsum (map (fun x => f x / c) l) = qsum (map f l) / c.
Proof. unfold Qcdiv. induction l as [|x l IH]; cbn [map qsum]; [ring | rewrite IH; ring]. Qed.
Lemma qsum_map_mulr {A} (f : A -> Qc) c l : qsum (map (fun x => f x * c) l) = qsum (map f l) * c.
Proof. induction l as [|x l IH]; cbn [map qsum]; [ring | rewrite IH; ring]. Qed.
Lemma qsum_map_sub {A} (f g : A -> Qc) l :
  qsum (map (fun x => f x - g x) l) = qsum (map f l) - qsum (map g l).
Proof. induction l as [|x l IH]; cbn [map qsum]; [ring | rewrite IH; ring]. Qed.

(* a sum of functions each affine / quadratic in a is affine / quadratic in a *)
Lemma qsum_affine {A} (f g h : A -> Qc) a l : (forall e, In e l -> f e = g e + a * h e) ->
  qsum (map f l) = qsum (map g l) + a * qsum (map h l).
Proof. induction l as [|x l IH]; intro H; cbn [map qsum]; [ring|].
  rewrite (H x) by (left; reflexivity). rewrite IH by (intros; apply H; right; assumption). ring. Qed.

Lemma qsum_swap {A B} (f : A -> B -> Qc) la lb :
  qsum (map (fun a => qsum (map (fun b => f a b) lb)) la)
  = qsum (map (fun b => qsum (map (fun a => f a b) la)) lb).
Proof.
  induction la as [|a la IH]; cbn [map qsum].
  - rewrite qsum_zero. reflexivity.
  - rewrite IH, <- qsum_map_add. reflexivity.
Qed.

(* sum_{i in [s, s+n)} [a = i] g i *)
Lemma qsum_indicator (g : nat -> Qc) a s n :
  qsum (map (fun i => if Nat.eqb a i then g i else 0) (seq s n))
  = if ((s <=? a) && (a <? s + n))%nat then g a else 0.
Proof.
  revert s; induction n as [|n IH]; intro s; cbn [seq map qsum].
  - destruct (s <=? a)%nat eqn:E1; cbn [andb]; [|reflexivity].
    destruct (a <? s + 0)%nat eqn:E2; [|reflexivity].
    apply Nat.leb_le in E1. apply Nat.ltb_lt in E2. lia.
  - rewrite IH. destruct (Nat.eqb_spec a s) as [->|Hne].
    + rewrite Nat.leb_refl. replace (S s <=? s)%nat with false by (symmetry; apply Nat.leb_gt; lia).
      replace (s <? s + S n)%nat with true by (symmetry; apply Nat.ltb_lt; lia). cbn [andb]. ring.
    + destruct (s <=? a)%nat eqn:E1, (S s <=? a)%nat eqn:E3, (a <? S s + n)%nat eqn:E2, (a <? s + S n)%nat eqn:E4;
        cbn [andb]; try ring;
        repeat match goal with
        | H : (_ <=? _)%nat = true |- _ => apply Nat.leb_le in H
        | H : (_ <=? _)%nat = false |- _ => apply Nat.leb_gt in H
        | H : (_ <? _)%nat = true |- _ => apply Nat.ltb_lt in H
        | H : (_ <? _)%nat = false |- _ => apply Nat.ltb_ge in H
        end; lia.
Qed.

(* dot products read through nthq (map2 stops at the shorter list, nthq pads with 0: same thing) *)
Lemma dot_nthq w x : dot w x = qsum (map (fun i => nthq w i * nthq x i) (seq 0 (length x))).
Proof.
  unfold dot, vmul. revert w; induction x as [|xi x IH]; intro w.
  - destruct w; reflexivity.
  - destruct w as [|wi w].
    + cbn [map2 qsum length]. rewrite (qsum_map_ext _ (fun _ => 0)); [rewrite qsum_zero; reflexivity|].
      intros i _. unfold nthq. destruct i; cbn [nth]; ring.
    + cbn [map2 qsum length seq map]. rewrite IH. rewrite <- seq_shift, map_map. reflexivity.
Qed.

(* field on goals mentioning [two]: side conditions on variables must be in the context *)
Ltac qfield := rewrite ?two_eq; field; repeat split; try assumption; try (intro; discriminate).
