(* C04/Spec.v — the property's own words, no batching, no reshape:
   IG(x)_i = (x_i - baseline) * (1/(m-1)) * sum_{k < m-1} (g_k[i] + g_{k+1}[i]) / 2,
   g_k = gradient of the score at the k-th of the m equally spaced points of the segment from the
   constant baseline to x (end points included), taken with the target of x. *)
From Xpl Require Export C04.Model.
Open Scope Qc_scope.

(* the k-th of m equally spaced points of the segment [baseline, x]: baseline + k/(m-1) (x - baseline) *)
Definition seg_point (n m : nat) (bv : Qc) (x : sample) (k : nat) : sample :=
  map (fun i => bv + (qn k / qn (m - 1)) * (nthq x i - bv)) (seq 0 n).

Section Spec.
Variable grad : sample -> target -> sample.

(* trapezoidal average over the m points of feature i of the gradient *)
Definition trap_avg (m : nat) (g : nat -> Qc) : Qc :=
  qsum (map (fun k => (g k + g (S k)) / two) (seq 0 (m - 1))) / qn (m - 1).

Definition spec_ig_at (n m : nat) (bv : Qc) (x : sample) (t : target) (i : nat) : Qc :=
  (nthq x i - bv) * trap_avg m (fun k => nthq (grad (seg_point n m bv x k) t) i).

Definition spec_ig_one (n m : nat) (bv : Qc) (x : sample) (t : target) : sample :=
  map (spec_ig_at n m bv x t) (seq 0 n).

Definition spec_ig (n m : nat) (bv : Qc) (xs : list sample) (ts : list target) : list sample :=
  map2 (spec_ig_one n m bv) xs ts.

(* the pairs the gradient must be evaluated on: for each input, its m points, each with the input's target *)
Definition spec_queries (n m : nat) (bv : Qc) (xs : list sample) (ts : list target) : list (sample * target) :=
  flat_map (fun xt => map (fun k => (seg_point n m bv (fst xt) k, snd xt)) (seq 0 m)) (combine xs ts).
End Spec.

(* gradient functions return something of the shape of their input (what autodiff does) *)
Definition grad_shape (n : nat) (grad : sample -> target -> sample) : Prop :=
  forall p t, length p = n -> length (grad p t) = n.

Definition bs_ok (bs : option nat) : Prop := match bs with Some b => (1 <= b)%nat | None => True end.
