(* C04/Fam.v — F-cubic: an F-quad member plus pure cubes,
     s(x, t) = fquad ks x t + sum_c t_c * sum_i A_ci x_i^3 ,
   mirrored by CubicModule in harness/c04.py.  Used for the "gap shrinks as steps grows" clause. *)
From Xpl Require Export Base.Families.
Open Scope Qc_scope.

Definition three : Qc := Q2Qc 3.

Definition cube_score (As : list (list Qc)) (x t : list Qc) : Qc :=
  dot (map (fun A => dot A (vmul x (vmul x x))) As) t.
(* coefficient of x_i^3 in the explained score: sum_c t_c A_ci *)
Definition cube_coef (As : list (list Qc)) (t : list Qc) (i : nat) : Qc :=
  qsum (map2 (fun A tc => nthq A i * tc) As t).
Definition cube_grad (As : list (list Qc)) (x t : list Qc) : list Qc :=
  map (fun i => three * cube_coef As t i * (nthq x i * nthq x i)) (seq 0 (length x)).

Definition fcubic (ks : list qclass) (As : list (list Qc)) (x t : list Qc) : Qc :=
  fquad ks x t + cube_score As x t.
Definition fcubic_grad (ks : list qclass) (As : list (list Qc)) (x t : list Qc) : list Qc :=
  vadd (fquad_grad ks x t) (cube_grad As x t).
