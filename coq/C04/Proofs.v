(* C04/Proofs.v — the executable model of IntegratedGradients equals the straight-path trapezoid formula for
   every batch size; the trapezoid is exact on affine gradients; completeness for every quadratic (F-quad);
   closed form of the completeness gap for F-cubic. *)
From Xpl Require Import Base.Tensor Base.Families C04.Fam C04.Spec C04.Aux.
From Coq Require Import Arith Lqa.
Open Scope Qc_scope.

(* ---------- the path ---------- *)
Lemma path_point_seg n m bv x k : length x = n ->
  path_point (repeat bv n) x (alpha m k) = seg_point n m bv x k.
Proof.
  intro Hx. unfold path_point, seg_point, alpha.
  rewrite (list_as_seq x 0) at 1. rewrite Hx, repeat_as_seq, map2_seq.
  apply map_ext. intro i. reflexivity.
Qed.

Lemma interp_seg n m bv x : length x = n ->
  interp m (repeat bv n) x = map (seg_point n m bv x) (seq 0 m).
Proof. intro Hx. unfold interp. apply map_ext. intro k. apply path_point_seg; exact Hx. Qed.

Lemma interp_length m base x : length (interp m base x) = m.
Proof. unfold interp. rewrite map_length, seq_length. reflexivity. Qed.

Lemma seg_point_length n m bv x k : length (seg_point n m bv x k) = n.
Proof. unfold seg_point. rewrite map_length, seq_length. reflexivity. Qed.

Lemma nthq_seg_point n m bv x k i : (i < n)%nat ->
  nthq (seg_point n m bv x k) i = bv + (qn k / qn (m - 1)) * (nthq x i - bv).
Proof. intro H. unfold seg_point. rewrite nthq_seq by exact H. reflexivity. Qed.

(* end points included: the first point is the baseline, the last one is the input *)
Lemma seg_point_first n m bv x : seg_point n m bv x 0 = repeat bv n.
Proof.
  unfold seg_point. rewrite repeat_as_seq. apply map_ext. intro i.
  rewrite qn_0. unfold Qcdiv. ring.
Qed.

Lemma seg_point_last n m bv x : (2 <= m)%nat -> length x = n -> seg_point n m bv x (m - 1) = x.
Proof.
  intros Hm Hx. unfold seg_point.
  transitivity (map (fun i => nth i x 0) (seq 0 n)); [| rewrite <- Hx; symmetry; apply list_as_seq].
  apply map_ext. intro i. fold (nthq x i). field. apply qn_neq0. lia.
Qed.

(* equally spaced: consecutive points differ by (x - baseline)/(m-1) *)
Lemma seg_point_step n m bv x k i : (2 <= m)%nat -> (i < n)%nat ->
  nthq (seg_point n m bv x (S k)) i - nthq (seg_point n m bv x k) i = (nthq x i - bv) / qn (m - 1).
Proof.
  intros Hm Hi. rewrite !nthq_seg_point by exact Hi. rewrite qn_S. field. apply qn_neq0. lia.
Qed.

Section Main.
Variable grad : sample -> target -> sample.

(* ---------- batching of the gradient, label repetition, reshape ---------- *)
Lemma batched_grad_rowwise B pts tgs : (1 <= B)%nat -> batched_grad grad B pts tgs = map2 grad pts tgs.
Proof. intro HB. unfold batched_grad. rewrite map_chunks by exact HB. symmetry. apply map2_combine. Qed.

Definition ig_one (n m : nat) (base : sample) (x : sample) (t : target) : sample :=
  vmul (vsub x base) (average_gradients n (map (fun p => grad p t) (interp m base x))).

Lemma ig_batch_rowwise n m B base c : (1 <= B)%nat -> (1 <= m)%nat ->
  ig_batch grad n m B base c = map (fun xt => ig_one n m base (fst xt) (snd xt)) c.
Proof.
  intros HB Hm. unfold ig_batch. cbv zeta.
  rewrite batched_grad_rowwise by exact HB.
  assert (E : flat_map (interp m base) (map fst c) = flat_map (fun xt : sample * target => interp m base (fst xt)) c).
  { induction c as [|xt c IH]; cbn [map flat_map]; [reflexivity | rewrite IH; reflexivity]. }
  rewrite E. clear E.
  rewrite (map2_flat_rep grad (fun xt : sample * target => interp m base (fst xt)) snd m c)
    by (intro; apply interp_length).
  rewrite (chunks_flat_const (fun xt : sample * target => map (fun p => grad p (snd xt)) (interp m base (fst xt))) m c Hm)
    by (intro; rewrite map_length; apply interp_length).
    rewrite map_map, map2_map_l, map2_map_r, map2_same. reflexivity.
Qed.

Lemma chunk_size_pos B m : (1 <= Nat.max (B / m) 1)%nat.
Proof. lia. Qed.

(* whatever the batch size (below steps, equal, not a multiple, None), explain is the per-input formula *)
Lemma ig_rowwise n m bs bv xs ts : bs_ok bs -> xs <> [] -> (1 <= m)%nat ->
  ig grad n m bs bv xs ts = map2 (ig_one n m (repeat bv n)) xs ts.
Proof.
  intros Hbs Hxs Hm. unfold ig. cbv zeta.
  assert (HB : (1 <= eff_bs bs (length xs))%nat).
  { destruct bs as [b|]; cbn [eff_bs]; [exact Hbs|]. destruct xs; [congruence | cbn [length]; lia]. }
  rewrite (map_ext _ (map (fun xt => ig_one n m (repeat bv n) (fst xt) (snd xt))))
    by (intro c; apply ig_batch_rowwise; assumption).
  rewrite map_chunks by apply chunk_size_pos. symmetry. apply map2_combine.
Qed.

(* ---------- the trapezoid ---------- *)
Lemma average_gradients_nth n M (G : nat -> sample) i : (1 <= M)%nat -> (i < n)%nat ->
  (forall k, length (G k) = n) ->
  nthq (average_gradients n (map G (seq 0 (S M)))) i = trap_avg (S M) (fun k => nthq (G k) i).
Proof.
  intros HM Hi HG. unfold average_gradients. cbv zeta.
  rewrite map2_removelast_tl, map_length, seq_length.
  assert (HL : forall v, In v (map (fun k => vadd (G k) (G (S k))) (seq 0 M)) -> length v = n).
  { intros v Hv. apply in_map_iff in Hv as [k [<- _]]. rewrite vadd_length, !HG. lia. }
  assert (Hlen : length (vsum n (map (fun k => vadd (G k) (G (S k))) (seq 0 M))) = n).
  { unfold vsum. apply fold_vadd_length; [apply repeat_length | exact HL]. }
  rewrite (nthq_map _ _ 0) by (rewrite Hlen; exact Hi). fold (nthq (vsum n (map (fun k => vadd (G k) (G (S k))) (seq 0 M))) i).
  rewrite (nthq_vsum n) by exact HL. rewrite map_map.
  unfold trap_avg. replace (S M - 1)%nat with M by lia.
  rewrite (qsum_map_ext (fun k => nthq (vadd (G k) (G (S k))) i) (fun k => nthq (G k) i + nthq (G (S k)) i))
    by (intros k _; apply nthq_vadd; rewrite !HG; reflexivity).
  rewrite qsum_map_div. generalize (qsum (map (fun k => nthq (G k) i + nthq (G (S k)) i) (seq 0 M))). intro s.
  assert (Hq : qn M <> 0) by (apply qn_neq0; exact HM).
  assert (H2 := two_neq0). assert (Hh := half_two).
  replace half with (/ two) by (field_simplify_eq; [rewrite Qcmult_comm; symmetry; exact Hh | exact H2]).
  field. split; assumption.
Qed.

Lemma ig_one_spec n m bv x t : (2 <= m)%nat -> length x = n -> grad_shape n grad ->
  ig_one n m (repeat bv n) x t = spec_ig_one grad n m bv x t.
Proof.
  intros Hm Hx Hg. unfold ig_one. rewrite interp_seg by exact Hx. rewrite map_map.
  destruct m as [|M]; [lia|]. assert (HM : (1 <= M)%nat) by lia.
  set (G := fun k => grad (seg_point n (S M) bv x k) t).
  assert (HG : forall k, length (G k) = n) by (intro k; apply Hg; apply seg_point_length).
  assert (Havg : length (average_gradients n (map G (seq 0 (S M)))) = n).
  { unfold average_gradients. cbv zeta. rewrite map_length. unfold vsum.
    apply fold_vadd_length; [apply repeat_length|].
    intros v Hv. rewrite map2_removelast_tl in Hv. apply in_map_iff in Hv as [k [<- _]].
    rewrite vadd_length, !HG. lia. }
  assert (Hsub : length (vsub x (repeat bv n)) = n).
  { unfold vsub. rewrite map2_length, repeat_length, Hx. lia. }
  apply nthq_ext.
  - unfold vmul, spec_ig_one. rewrite map2_length, Hsub, Havg, map_length, seq_length. lia.
  - intros i Hi. unfold vmul in Hi. rewrite map2_length, Hsub, Havg in Hi. assert (Hi' : (i < n)%nat) by lia.
    rewrite nthq_vmul by (rewrite Hsub, Havg; reflexivity).
    rewrite nthq_vsub by (rewrite repeat_length; exact Hx).
    rewrite nthq_repeat by exact Hi'.
    rewrite (average_gradients_nth n M G i HM Hi' HG).
    unfold spec_ig_one. rewrite nthq_seq by exact Hi'. reflexivity.
Qed.

(* ig_correct: Model = Spec for every batch size, every steps >= 2, every baseline value, any N >= 1 *)
Theorem ig_correct n m bs bv xs ts : bs_ok bs -> (2 <= m)%nat -> xs <> [] ->
  (forall x, In x xs -> length x = n) -> grad_shape n grad ->
  ig grad n m bs bv xs ts = spec_ig grad n m bv xs ts.
Proof.
  intros Hbs Hm Hne Hxs Hg. rewrite ig_rowwise by (auto; lia). unfold spec_ig.
  clear Hne. revert ts. induction xs as [|x xs IH]; intro ts; [reflexivity|].
  destruct ts as [|t ts]; [reflexivity|]. cbn [map2]. f_equal.
  - apply ig_one_spec; [exact Hm | apply Hxs; left; reflexivity | exact Hg].
  - apply IH. intros y Hy. apply Hxs. right; exact Hy.
Qed.

(* batch_size only bounds memory (no hypothesis on the gradient at all) *)
Corollary ig_batch_invariant n m bs bs' bv xs ts : bs_ok bs -> bs_ok bs' -> (1 <= m)%nat -> xs <> [] ->
  ig grad n m bs bv xs ts = ig grad n m bs' bv xs ts.
Proof. intros. rewrite !ig_rowwise by assumption. reflexivity. Qed.
End Main.

(* ---------- the evaluated points ---------- *)
Lemma combine_map2 {A B} (a : list A) (b : list B) : combine a b = map2 pair a b.
Proof. revert b; induction a as [|x a IH]; intros [|y b]; cbn [combine map2]; try reflexivity. f_equal. apply IH. Qed.

Lemma concat_map_flat_map {A B} (f : A -> list B) cs : concat (map (flat_map f) cs) = flat_map f (concat cs).
Proof. induction cs as [|c cs IH]; cbn [map concat]; [reflexivity|]. rewrite flat_map_app, IH. reflexivity. Qed.

Lemma flat_map_ext_in {A B} (f g : A -> list B) l : (forall x, In x l -> f x = g x) -> flat_map f l = flat_map g l.
Proof. induction l as [|x l IH]; intro H; cbn [flat_map]; [reflexivity|].
  rewrite (H x) by (left; reflexivity). rewrite IH by (intros; apply H; right; assumption). reflexivity. Qed.

(* ig_path_points: the gradient is evaluated exactly on, for each input in turn, its m equally spaced points
   (seg_point ... k, k = 0..m-1), each paired with that input's own target — for every batch size *)
Theorem ig_path_points n m bs bv xs ts : bs_ok bs -> xs <> [] -> (1 <= m)%nat ->
  (forall x, In x xs -> length x = n) ->
  ig_queries n m bs bv xs ts = spec_queries n m bv xs ts.
Proof.
  intros Hbs Hne Hm Hxs. unfold ig_queries, spec_queries. cbv zeta.
  assert (HB : (1 <= eff_bs bs (length xs))%nat).
  { destruct bs as [b|]; cbn [eff_bs]; [exact Hbs|]. destruct xs; [congruence | cbn [length]; lia]. }
  set (base := repeat bv n).
  rewrite (map_ext _ (flat_map (fun xt : sample * target => map (fun p => (p, snd xt)) (interp m base (fst xt))))).
  2:{ intro c. rewrite concat_chunks by exact HB. rewrite combine_map2.
      assert (E : flat_map (interp m base) (map fst c) = flat_map (fun xt : sample * target => interp m base (fst xt)) c).
      { induction c as [|xt c IH]; cbn [map flat_map]; [reflexivity | rewrite IH; reflexivity]. }
      rewrite E. apply (map2_flat_rep pair (fun xt : sample * target => interp m base (fst xt)) snd m c).
      intro. apply interp_length. }
  rewrite concat_map_flat_map, concat_chunks by lia.
  apply flat_map_ext_in. intros [x t] Hin. cbn [fst snd]. apply in_combine_l in Hin.
  unfold base. rewrite interp_seg by (apply Hxs; exact Hin). rewrite map_map. reflexivity.
Qed.

(* ---------- the trapezoid is exact on affine gradients ---------- *)
Lemma sum_odd M : qsum (map (fun k => qn k + qn (S k)) (seq 0 M)) = qn M * qn M.
Proof.
  induction M as [|M IH]; [cbn [seq map qsum]; rewrite qn_0; ring|].
  rewrite seq_S, map_app, qsum_app, IH. cbn [plus map qsum]. rewrite !qn_S. ring.
Qed.

Theorem trapezoid_affine_exact m (g : nat -> Qc) u v : (2 <= m)%nat ->
  (forall k, (k < m)%nat -> g k = u + (qn k / qn (m - 1)) * v) ->
  trap_avg m g = u + v / two.
Proof.
  intros Hm Hg. unfold trap_avg.
  assert (Hq : qn (m - 1) <> 0) by (apply qn_neq0; lia). assert (H2 := two_neq0).
  rewrite (qsum_map_ext _ (fun k => u + (qn k + qn (S k)) * (v / (two * qn (m - 1))))).
  2:{ intros k Hk. apply in_seq in Hk. cbv beta. rewrite !Hg by lia. qfield. }
  rewrite qsum_map_add, qsum_map_mulr, sum_odd.
  rewrite (qsum_map_ext (fun _ : nat => u) (fun _ => u * 1)) by (intros; ring).
  rewrite qsum_map_scale. 
  assert (E : qsum (map (fun _ : nat => 1) (seq 0 (m - 1))) = qn (m - 1)).
  { generalize (m - 1)%nat. intro M. induction M as [|M IH]; [cbn; rewrite qn_0; reflexivity|].
    rewrite seq_S, map_app, qsum_app, IH, qn_S. cbn [map qsum]. ring. }
  rewrite E. qfield.
Qed.

(* ---------- F-quad: shape and pointwise reading of the closed-form gradient ---------- *)
Lemma nthq_vscale c v i : nthq (vscale c v) i = c * nthq v i.
Proof. unfold nthq, vscale. revert i; induction v as [|y v IH]; intros [|i]; cbn [map nth]; try ring. apply IH. Qed.

Lemma class_grad_length k x : length (class_grad k x) = length x.
Proof. unfold class_grad. rewrite map_length, seq_length. reflexivity. Qed.

Lemma fquad_terms_length ks x t v :
  In v (map2 (fun k tc => vscale tc (class_grad k x)) ks t) -> length v = length x.
Proof. rewrite map2_combine. intro H. apply in_map_iff in H as [kt [<- _]].
  unfold vscale. rewrite map_length. apply class_grad_length. Qed.

Lemma fquad_grad_length ks x t : length (fquad_grad ks x t) = length x.
Proof. unfold fquad_grad. apply fold_vadd_length; [apply repeat_length | apply fquad_terms_length]. Qed.

Lemma fquad_grad_shape n ks : grad_shape n (fquad_grad ks).
Proof. intros p t Hp. rewrite fquad_grad_length. exact Hp. Qed.

Lemma nthq_class_grad k x i : (i < length x)%nat ->
  nthq (class_grad k x) i
  = nthq (qW k) i + two * nthq (qV k) i * nthq x i + qsum (map (cross_grad x i) (qX k)).
Proof. intro H. unfold class_grad. rewrite nthq_seq by exact H. reflexivity. Qed.

Lemma nthq_fquad_grad ks x t i :
  nthq (fquad_grad ks x t) i = qsum (map (fun kt => snd kt * nthq (class_grad (fst kt) x) i) (combine ks t)).
Proof.
  unfold fquad_grad. fold (vsum (length x) (map2 (fun k tc => vscale tc (class_grad k x)) ks t)).
  rewrite (nthq_vsum (length x)) by apply fquad_terms_length.
  rewrite map2_combine, map_map. apply qsum_map_ext. intros kt _. apply nthq_vscale.
Qed.

Lemma fquad_as_sum ks x t : fquad ks x t = qsum (map (fun kt => snd kt * class_score (fst kt) x) (combine ks t)).
Proof.
  unfold fquad, fquad_out, dot, vmul. rewrite map2_map_l, map2_combine. f_equal. apply map_ext. intro. ring.
Qed.

(* ---------- along the segment the gradient of a quadratic is affine in alpha ---------- *)
Definition lin_point (n : nat) (bv : Qc) (x : sample) (a : Qc) : sample :=
  map (fun i => bv + a * (nthq x i - bv)) (seq 0 n).

Lemma seg_point_lin n m bv x k : seg_point n m bv x k = lin_point n bv x (qn k / qn (m - 1)).
Proof. reflexivity. Qed.

Lemma lin_point_length n bv x a : length (lin_point n bv x a) = n.
Proof. unfold lin_point. rewrite map_length, seq_length. reflexivity. Qed.

(* valid at EVERY index (both sides are 0 beyond n): cross terms may mention any index *)
Lemma lin_point_nth n bv x a j : length x = n ->
  nthq (lin_point n bv x a) j = nthq (repeat bv n) j + a * (nthq x j - nthq (repeat bv n) j).
Proof.
  intro Hx. destruct (Nat.lt_ge_cases j n) as [H|H].
  - unfold lin_point. rewrite nthq_seq, nthq_repeat by exact H. reflexivity.
  - rewrite (nthq_overflow (lin_point n bv x a)) by (rewrite lin_point_length; exact H).
    rewrite (nthq_overflow (repeat bv n)) by (rewrite repeat_length; exact H).
    rewrite (nthq_overflow x) by (rewrite Hx; exact H). ring.
Qed.

Lemma cross_grad_affine n bv x a i e : length x = n ->
  cross_grad (lin_point n bv x a) i e
  = cross_grad (repeat bv n) i e + a * (cross_grad x i e - cross_grad (repeat bv n) i e).
Proof.
  intro Hx. destruct e as [[ea eb] kk]. unfold cross_grad. rewrite !(lin_point_nth n bv x a) by exact Hx.
  destruct (Nat.eqb ea i), (Nat.eqb eb i); ring.
Qed.

Lemma class_grad_affine n bv x a k i : length x = n -> (i < n)%nat ->
  nthq (class_grad k (lin_point n bv x a)) i
  = nthq (class_grad k (repeat bv n)) i + a * (nthq (class_grad k x) i - nthq (class_grad k (repeat bv n)) i).
Proof.
  intros Hx Hi.
  rewrite !nthq_class_grad by (rewrite ?lin_point_length, ?repeat_length, ?Hx; exact Hi).
  rewrite (qsum_affine (cross_grad (lin_point n bv x a) i) (cross_grad (repeat bv n) i)
             (fun e => cross_grad x i e - cross_grad (repeat bv n) i e) a)
    by (intros e _; apply cross_grad_affine; exact Hx).
  rewrite qsum_map_sub, (lin_point_nth n bv x a i Hx). ring.
Qed.

(* fquad_grad along the segment is affine in alpha *)
Lemma fquad_grad_affine n bv x a ks t i : length x = n -> (i < n)%nat ->
  nthq (fquad_grad ks (lin_point n bv x a) t) i
  = nthq (fquad_grad ks (repeat bv n) t) i
    + a * (nthq (fquad_grad ks x t) i - nthq (fquad_grad ks (repeat bv n) t) i).
Proof.
  intros Hx Hi. rewrite !nthq_fquad_grad.
  rewrite (qsum_affine _ (fun kt => snd kt * nthq (class_grad (fst kt) (repeat bv n)) i)
             (fun kt => snd kt * nthq (class_grad (fst kt) x) i - snd kt * nthq (class_grad (fst kt) (repeat bv n)) i) a).
  - rewrite qsum_map_sub. reflexivity.
  - intros kt _. rewrite (class_grad_affine n bv x a (fst kt) i Hx Hi). ring.
Qed.

(* ---------- midpoint identity of quadratics:  q(x) - q(y) = < x - y, (grad q(x) + grad q(y)) / 2 > ---------- *)
Lemma cross_midpoint n x y e : length x = n -> length y = n ->
  qsum (map (fun i => (nthq x i - nthq y i) * ((cross_grad y i e + cross_grad x i e) / two)) (seq 0 n))
  = cross_term x e - cross_term y e.
Proof.
  intros Hx Hy. destruct e as [[ea eb] kk]. unfold cross_grad, cross_term.
  rewrite (qsum_map_ext _ (fun i =>
      (if Nat.eqb ea i then (nthq x i - nthq y i) * (kk * (nthq y eb + nthq x eb) / two) else 0)
    + (if Nat.eqb eb i then (nthq x i - nthq y i) * (kk * (nthq y ea + nthq x ea) / two) else 0))).
  2:{ intros i _. cbv beta. destruct (Nat.eqb ea i), (Nat.eqb eb i); qfield. }
  rewrite qsum_map_add, !qsum_indicator. cbn [plus Nat.leb andb].
  assert (Z : forall j, (j <? n)%nat = false -> nthq x j - nthq y j = 0).
  { intros j Hj. apply Nat.ltb_ge in Hj. rewrite !nthq_overflow by (rewrite ?Hx, ?Hy; exact Hj). ring. }
  destruct (ea <? n)%nat eqn:Ea, (eb <? n)%nat eqn:Eb;
    try (pose proof (Z ea Ea) as Za); try (pose proof (Z eb Eb) as Zb).
  - qfield.
  - transitivity ((nthq x ea - nthq y ea) * (kk * (nthq y eb + nthq x eb) / two)
                  + (nthq x eb - nthq y eb) * (kk * (nthq y ea + nthq x ea) / two)); [rewrite Zb; ring | qfield].
  - transitivity ((nthq x ea - nthq y ea) * (kk * (nthq y eb + nthq x eb) / two)
                  + (nthq x eb - nthq y eb) * (kk * (nthq y ea + nthq x ea) / two)); [rewrite Za; ring | qfield].
  - transitivity ((nthq x ea - nthq y ea) * (kk * (nthq y eb + nthq x eb) / two)
                  + (nthq x eb - nthq y eb) * (kk * (nthq y ea + nthq x ea) / two)); [rewrite Za, Zb; ring | qfield].
Qed.

Lemma class_midpoint n k x y : length x = n -> length y = n ->
  qsum (map (fun i => (nthq x i - nthq y i) * ((nthq (class_grad k y) i + nthq (class_grad k x) i) / two)) (seq 0 n))
  = class_score k x - class_score k y.
Proof.
  intros Hx Hy. unfold class_score.
  assert (Lx : length (vmul x x) = n) by (unfold vmul; rewrite map2_length, Hx; apply Nat.min_id).
  assert (Ly : length (vmul y y) = n) by (unfold vmul; rewrite map2_length, Hy; apply Nat.min_id).
  rewrite !dot_nthq, Lx, Ly, Hx, Hy.
  rewrite (qsum_map_ext _ (fun i =>
      (nthq (qW k) i * nthq x i - nthq (qW k) i * nthq y i)
    + (nthq (qV k) i * nthq (vmul x x) i - nthq (qV k) i * nthq (vmul y y) i)
    + qsum (map (fun e => (nthq x i - nthq y i) * ((cross_grad y i e + cross_grad x i e) / two)) (qX k)))).
  2:{ intros i Hi. apply in_seq in Hi. cbv beta.
      rewrite !nthq_class_grad by (rewrite ?Hx, ?Hy; lia). rewrite !nthq_vmul by reflexivity.
      rewrite qsum_map_scale, qsum_map_div, qsum_map_add. qfield. }
  rewrite !qsum_map_add, !qsum_map_sub.
  rewrite (qsum_swap (fun i e => (nthq x i - nthq y i) * ((cross_grad y i e + cross_grad x i e) / two))).
  rewrite (qsum_map_ext _ (fun e => cross_term x e - cross_term y e))
    by (intros e _; apply cross_midpoint; assumption).
  rewrite qsum_map_sub. ring.
Qed.

Lemma fquad_midpoint n ks x y t : length x = n -> length y = n ->
  qsum (map (fun i => (nthq x i - nthq y i)
                      * ((nthq (fquad_grad ks y t) i + nthq (fquad_grad ks x t) i) / two)) (seq 0 n))
  = fquad ks x t - fquad ks y t.
Proof.
  intros Hx Hy. rewrite !fquad_as_sum, <- qsum_map_sub.
  rewrite (qsum_map_ext _ (fun i => qsum (map (fun kt => snd kt *
     ((nthq x i - nthq y i) * ((nthq (class_grad (fst kt) y) i + nthq (class_grad (fst kt) x) i) / two))) (combine ks t)))).
  2:{ intros i _. cbv beta. rewrite !nthq_fquad_grad.
      rewrite <- qsum_map_add, <- qsum_map_div, <- qsum_map_scale. apply qsum_map_ext. intros kt _. qfield. }
  rewrite (qsum_swap (fun i kt => snd kt * ((nthq x i - nthq y i)
      * ((nthq (class_grad (fst kt) y) i + nthq (class_grad (fst kt) x) i) / two)))).
  apply qsum_map_ext. intros kt _. cbv beta. rewrite qsum_map_scale, (class_midpoint n) by assumption. ring.
Qed.

(* ---------- completeness for every quadratic ---------- *)
Lemma spec_ig_quadratic_at n m bv ks x t i : (2 <= m)%nat -> length x = n -> (i < n)%nat ->
  spec_ig_at (fquad_grad ks) n m bv x t i
  = (nthq x i - nthq (repeat bv n) i)
    * ((nthq (fquad_grad ks (repeat bv n) t) i + nthq (fquad_grad ks x t) i) / two).
Proof.
  intros Hm Hx Hi. unfold spec_ig_at.
  rewrite (trapezoid_affine_exact m _ (nthq (fquad_grad ks (repeat bv n) t) i)
             (nthq (fquad_grad ks x t) i - nthq (fquad_grad ks (repeat bv n) t) i) Hm).
  - rewrite nthq_repeat by exact Hi. qfield.
  - intros k _. rewrite seg_point_lin. apply fquad_grad_affine; assumption.
Qed.

Theorem spec_complete_quadratic n m bv ks x t : (2 <= m)%nat -> length x = n ->
  qsum (spec_ig_one (fquad_grad ks) n m bv x t) = fquad ks x t - fquad ks (repeat bv n) t.
Proof.
  intros Hm Hx. unfold spec_ig_one.
  rewrite <- (fquad_midpoint n ks x (repeat bv n) t Hx (repeat_length bv n)).
  apply qsum_map_ext. intros i Hi. apply in_seq in Hi. apply spec_ig_quadratic_at; [exact Hm | exact Hx | lia].
Qed.

(* ig_complete_quadratic: the attributions returned by the MODEL of explain (any batch size) sum, for each input,
   to score(x) - score(baseline), for every member of F-quad (general quadratic, cross terms included) *)
Theorem ig_complete_quadratic n m bs bv ks xs ts : bs_ok bs -> (2 <= m)%nat -> xs <> [] ->
  (forall x, In x xs -> length x = n) ->
  map qsum (ig (fquad_grad ks) n m bs bv xs ts)
  = map2 (fun x t => fquad ks x t - fquad ks (repeat bv n) t) xs ts.
Proof.
  intros Hbs Hm Hne Hxs. rewrite ig_correct by (auto; apply fquad_grad_shape).
  unfold spec_ig. rewrite map_map2. clear Hne.
  revert ts. induction xs as [|x xs IH]; intro ts; [reflexivity|].
  destruct ts as [|t ts]; [reflexivity|]. cbn [map2]. f_equal.
  - apply spec_complete_quadratic; [exact Hm | apply Hxs; left; reflexivity].
  - apply IH. intros y Hy. apply Hxs. right; exact Hy.
Qed.

(* ---------- F-cubic: closed form of the completeness gap ---------- *)
Lemma three_eq : three = 1 + 1 + 1.
Proof. apply Qc_is_canon. reflexivity. Qed.
Ltac qfield3 := rewrite ?two_eq, ?three_eq; field; repeat split; try assumption; try (intro; discriminate).

Lemma sum_ones M : qsum (map (fun _ : nat => 1) (seq 0 M)) = qn M.
Proof. induction M as [|M IH]; [cbn; rewrite qn_0; reflexivity|].
  rewrite seq_S, map_app, qsum_app, IH, qn_S. cbn [map qsum]. ring. Qed.

Lemma sum_const (u : Qc) M : qsum (map (fun _ : nat => u) (seq 0 M)) = qn M * u.
Proof. induction M as [|M IH]; [cbn; rewrite qn_0; ring|].
  rewrite seq_S, map_app, qsum_app, IH, qn_S. cbn [map qsum]. ring. Qed.

Lemma sum_squares M :
  three * qsum (map (fun k => qn k * qn k + qn (S k) * qn (S k)) (seq 0 M)) = qn M * (two * qn M * qn M + 1).
Proof.
  induction M as [|M IH]; [cbn [seq map qsum]; rewrite qn_0; ring|].
  rewrite seq_S, map_app, qsum_app. cbn [plus map qsum].
  rewrite Qcmult_plus_distr_r, IH, !qn_S, two_eq, three_eq. ring.
Qed.

(* trapezoidal average of a quadratic function of alpha: exact integral u + v/2 + w/3 plus w / (6 (m-1)^2) *)
Theorem trapezoid_quadratic m (g : nat -> Qc) u v w : (2 <= m)%nat ->
  (forall k, (k < m)%nat -> g k = u + (qn k / qn (m - 1)) * v + (qn k / qn (m - 1)) * (qn k / qn (m - 1)) * w) ->
  trap_avg m g = u + v / two + w / three + w / (two * three * (qn (m - 1) * qn (m - 1))).
Proof.
  intros Hm Hg. unfold trap_avg.
  assert (Hq : qn (m - 1) <> 0) by (apply qn_neq0; lia).
  rewrite (qsum_map_ext _ (fun k => u + (qn k + qn (S k)) * (v / (two * qn (m - 1)))
                                   + (qn k * qn k + qn (S k) * qn (S k)) * (w / (two * (qn (m - 1) * qn (m - 1)))))).
  2:{ intros k Hk. apply in_seq in Hk. cbv beta. rewrite !Hg by lia. qfield. }
  rewrite !qsum_map_add, !qsum_map_mulr, sum_const, sum_odd.
  pose proof (sum_squares (m - 1)) as S2.
  set (s2 := qsum (map (fun k => qn k * qn k + qn (S k) * qn (S k)) (seq 0 (m - 1)))) in *.
  assert (E : s2 = qn (m - 1) * (two * qn (m - 1) * qn (m - 1) + 1) / three).
  { rewrite <- S2. qfield3. }
  rewrite E. qfield3.
Qed.

Lemma trap_avg_add m f g : trap_avg m (fun k => f k + g k) = trap_avg m f + trap_avg m g.
Proof.
  unfold trap_avg.
  rewrite (qsum_map_ext _ (fun k => (f k + f (S k)) / two + (g k + g (S k)) / two))
    by (intros; unfold Qcdiv; ring).
  rewrite qsum_map_add. unfold Qcdiv. ring.
Qed.

Lemma cube_grad_length As x t : length (cube_grad As x t) = length x.
Proof. unfold cube_grad. rewrite map_length, seq_length. reflexivity. Qed.

Lemma fcubic_grad_shape n ks As : grad_shape n (fcubic_grad ks As).
Proof. intros p t Hp. unfold fcubic_grad. rewrite vadd_length, fquad_grad_length, cube_grad_length, Hp. apply Nat.min_id. Qed.

Lemma nthq_fcubic_grad ks As p t i :
  nthq (fcubic_grad ks As p t) i = nthq (fquad_grad ks p t) i + nthq (cube_grad As p t) i.
Proof. unfold fcubic_grad. apply nthq_vadd. rewrite fquad_grad_length, cube_grad_length. reflexivity. Qed.

Lemma spec_ig_at_cubic_split ks As n m bv x t i :
  spec_ig_at (fcubic_grad ks As) n m bv x t i
  = spec_ig_at (fquad_grad ks) n m bv x t i + spec_ig_at (cube_grad As) n m bv x t i.
Proof.
  unfold spec_ig_at. rewrite <- Qcmult_plus_distr_r, <- trap_avg_add. f_equal. unfold trap_avg.
  f_equal. f_equal. apply map_ext. intro k. rewrite !nthq_fcubic_grad. reflexivity.
Qed.

(* the pure-cube part: attribution of feature i = c_i (x_i^3 - b^3) + c_i (x_i - b)^3 / (2 (m-1)^2) *)
Lemma spec_ig_at_cube As n m bv x t i : (2 <= m)%nat -> length x = n -> (i < n)%nat ->
  spec_ig_at (cube_grad As) n m bv x t i
  = cube_coef As t i * (nthq x i * nthq x i * nthq x i - bv * bv * bv)
    + cube_coef As t i * ((nthq x i - bv) * (nthq x i - bv) * (nthq x i - bv)) / (two * (qn (m - 1) * qn (m - 1))).
Proof.
  intros Hm Hx Hi. unfold spec_ig_at.
  assert (Hq : qn (m - 1) <> 0) by (apply qn_neq0; lia).
  set (c := cube_coef As t i). set (d := nthq x i - bv).
  rewrite (trapezoid_quadratic m _ (three * c * (bv * bv)) (two * three * c * bv * d) (three * c * (d * d)) Hm).
  - unfold d. qfield3.
  - intros k _. unfold cube_grad. rewrite seg_point_length, nthq_seq by exact Hi.
    rewrite nthq_seg_point by exact Hi. fold c. fold d. qfield3.
Qed.

Lemma cube_score_as_sum As x t :
  cube_score As x t
  = qsum (map (fun i => cube_coef As t i * (nthq x i * nthq x i * nthq x i)) (seq 0 (length x))).
Proof.
  unfold cube_score, cube_coef, dot at 1, vmul at 1. rewrite map2_map_l, !map2_combine.
  assert (L : length (vmul x (vmul x x)) = length x).
  { unfold vmul. rewrite !map2_length, !Nat.min_id. reflexivity. }
  rewrite (qsum_map_ext _ (fun At => qsum (map (fun i => nthq (fst At) i * snd At * (nthq x i * nthq x i * nthq x i))
                                               (seq 0 (length x))))).
  2:{ intros At _. cbv beta. rewrite dot_nthq, L, <- qsum_map_mulr. apply qsum_map_ext.
      intros i Hi. cbv beta. unfold vmul at 1. rewrite (nthq_map2 Qcmult) by (try ring; unfold vmul; rewrite map2_length, Nat.min_id; reflexivity).
      rewrite nthq_vmul by reflexivity. ring. }
  rewrite (qsum_swap (fun At i => nthq (fst At) i * snd At * (nthq x i * nthq x i * nthq x i))).
  apply qsum_map_ext. intros i _. cbv beta. rewrite map2_combine, <- qsum_map_mulr. reflexivity.
Qed.

Definition cubic_K (As : list (list Qc)) (n : nat) (bv : Qc) (x t : list Qc) : Qc :=
  qsum (map (fun i => cube_coef As t i * ((nthq x i - bv) * (nthq x i - bv) * (nthq x i - bv))) (seq 0 n)) / two.

Theorem spec_gap_cubic n m bv ks As x t : (2 <= m)%nat -> length x = n ->
  qsum (spec_ig_one (fcubic_grad ks As) n m bv x t)
  = fcubic ks As x t - fcubic ks As (repeat bv n) t + cubic_K As n bv x t / (qn (m - 1) * qn (m - 1)).
Proof.
  intros Hm Hx. assert (Hq : qn (m - 1) <> 0) by (apply qn_neq0; lia).
  unfold spec_ig_one, fcubic, cubic_K.
  rewrite (qsum_map_ext _ (fun i => spec_ig_at (fquad_grad ks) n m bv x t i
     + (cube_coef As t i * (nthq x i * nthq x i * nthq x i) - cube_coef As t i * (bv * bv * bv)
        + cube_coef As t i * ((nthq x i - bv) * (nthq x i - bv) * (nthq x i - bv)) * (/ (two * (qn (m - 1) * qn (m - 1))))))).
  2:{ intros i Hi. apply in_seq in Hi. rewrite spec_ig_at_cubic_split, spec_ig_at_cube by (auto; lia).
      unfold Qcdiv. ring. }
  rewrite !qsum_map_add, qsum_map_sub, qsum_map_mulr.
  fold (spec_ig_one (fquad_grad ks) n m bv x t). rewrite spec_complete_quadratic by assumption.
  rewrite !cube_score_as_sum, repeat_length, Hx.
  rewrite (qsum_map_ext (fun i => cube_coef As t i * (nthq (repeat bv n) i * nthq (repeat bv n) i * nthq (repeat bv n) i))
                        (fun i => cube_coef As t i * (bv * bv * bv))).
  2:{ intros i Hi. apply in_seq in Hi. rewrite nthq_repeat by lia. reflexivity. }
  rewrite !qsum_map_mulr. qfield.
Qed.

(* ig_gap_cubic: for every member of F-cubic the completeness gap of the MODEL of explain is exactly
   K(x, baseline) / (m-1)^2, K independent of m and of the batch size *)
Theorem ig_gap_cubic n m bs bv ks As xs ts : bs_ok bs -> (2 <= m)%nat -> xs <> [] ->
  (forall x, In x xs -> length x = n) ->
  map qsum (ig (fcubic_grad ks As) n m bs bv xs ts)
  = map2 (fun x t => fcubic ks As x t - fcubic ks As (repeat bv n) t
                     + cubic_K As n bv x t / (qn (m - 1) * qn (m - 1))) xs ts.
Proof.
  intros Hbs Hm Hne Hxs. rewrite ig_correct by (auto; apply fcubic_grad_shape).
  unfold spec_ig. rewrite map_map2. clear Hne.
  revert ts. induction xs as [|x xs IH]; intro ts; [reflexivity|].
  destruct ts as [|t ts]; [reflexivity|]. cbn [map2]. f_equal.
  - apply spec_gap_cubic; [exact Hm | apply Hxs; left; reflexivity].
  - apply IH. intros y Hy. apply Hxs. right; exact Hy.
Qed.

(* ---------- "the gap shrinks as steps grows": K/(m-1)^2 is strictly decreasing in absolute value ---------- *)
Lemma qn_lt a b : (a < b)%nat -> qn a < qn b.
Proof. intro H. unfold qn. change (this (Q2Qc (Z.of_nat a # 1)) < this (Q2Qc (Z.of_nat b # 1)))%Q.
  rewrite !Qc_Q2Qc_q. unfold Qlt; cbn. lia. Qed.

Lemma shrink_pos (g g' a b : Q) : (0 < a -> a < b -> g * (a*a) == g' * (b*b) -> 0 < g -> 0 <= g' /\ g' < g)%Q.
Proof.
  intros Ha Hab E Hg.
  assert (0 < a*a)%Q by nra. assert (a*a < b*b)%Q by nra.
  assert (0 < g * (a*a))%Q by nra.
  split.
  - assert (~ g' < 0)%Q; [intro; nra | lra].
  - assert (~ g <= g')%Q; [intro; nra | lra].
Qed.

Lemma shrink_core (g g' a b : Qc) : 0 < a -> a < b -> g * (a*a) = g' * (b*b) -> g <> 0 -> Qcabs g' < Qcabs g.
Proof.
  intros Ha Hab E Hg.
  destruct (Qc_dec 0 g) as [[P|N]|Z]; [| |congruence].
  - assert (R : (0 <= this g' /\ this g' < this g)%Q).
    { apply (shrink_pos (this g) (this g') (this a) (this b)); qc2q; auto. }
    unfold Qcabs. destruct (Qclt_le_dec g' 0) as [H1|H1], (Qclt_le_dec g 0) as [H2|H2]; qc2q; lra.
  - assert (R : (0 <= - this g' /\ - this g' < - this g)%Q).
    { apply (shrink_pos (- this g) (- this g') (this a) (this b)); qc2q; auto; lra. }
    unfold Qcabs. destruct (Qclt_le_dec g' 0) as [H1|H1], (Qclt_le_dec g 0) as [H2|H2]; qc2q; lra.
Qed.

Theorem gap_strictly_decreasing (K : Qc) m m' : (2 <= m)%nat -> (m < m')%nat -> K <> 0 ->
  Qcabs (K / (qn (m' - 1) * qn (m' - 1))) < Qcabs (K / (qn (m - 1) * qn (m - 1))).
Proof.
  intros Hm Hlt HK.
  assert (Ha : 0 < qn (m - 1)) by (apply qn_pos; lia).
  assert (Hab : qn (m - 1) < qn (m' - 1)) by (apply qn_lt; lia).
  assert (Ha0 : qn (m - 1) <> 0) by (apply qn_neq0; lia).
  assert (Hb0 : qn (m' - 1) <> 0) by (apply qn_neq0; lia).
  apply (shrink_core _ _ (qn (m - 1)) (qn (m' - 1)) Ha Hab).
  - field. split; assumption.
  - intro E. apply HK.
    replace K with (K / (qn (m - 1) * qn (m - 1)) * (qn (m - 1) * qn (m - 1))) by (field; exact Ha0).
    rewrite E. ring.
Qed.
(* ---------- channel reduction keeps completeness (sum) / scales it by C (mean) ---------- *)
Lemma chunks_exact {A} c k (l : list A) : (1 <= c)%nat -> length l = (k * c)%nat ->
  forall b, In b (chunks c l) -> length b = c.
Proof.
  intro Hc. revert l. induction k as [|k IH]; intros l Hl b Hb.
  - destruct l; [destruct Hb | cbn [length] in Hl; lia].
  - assert (Hne : l <> []) by (intro E; rewrite E in Hl; cbn [length] in Hl; lia).
    rewrite chunks_cons_step in Hb by assumption. destruct Hb as [<-|Hb].
    + rewrite firstn_length. lia.
    + apply (IH (skipn c l)); [rewrite skipn_length; lia | exact Hb].
Qed.

Lemma harmonize_sum_total c e : qsum (harmonize RSum c e) = qsum e.
Proof.
  unfold harmonize. destruct (2 <=? c)%nat eqn:E; [|reflexivity].
  apply Nat.leb_le in E. cbn [reduce_block].
  rewrite <- qsum_concat, concat_chunks by lia. reflexivity.
Qed.

Lemma harmonize_mean_total c k e : (2 <= c)%nat -> length e = (k * c)%nat ->
  qn c * qsum (harmonize RMean c e) = qsum e.
Proof.
  intros Hc Hl. unfold harmonize. replace (2 <=? c)%nat with true by (symmetry; apply Nat.leb_le; exact Hc).
  cbn [reduce_block].
  rewrite (qsum_map_ext _ (fun blk => qsum blk / qn c)).
  2:{ intros blk Hb. cbv beta. cbn [reduce_block]. rewrite (chunks_exact c k e ltac:(lia) Hl blk Hb). reflexivity. }
  rewrite qsum_map_div, <- qsum_concat, concat_chunks by lia.
  field. apply qn_neq0. lia.
Qed.
