(* C04/Model.v — executable transcription of xplique/attributions/integrated_gradients.py (no proofs here)

   IntegratedGradients.explain:
     batch_size = self.batch_size or len(inputs)
     baseline   = tf.ones(inputs.shape[1:]) * baseline_value                      (_get_baseline)
     for x_batch, y_batch in batch_tensor((inputs, targets), max(batch_size // steps, 1)):
        interpolated_inputs = _get_interpolated_points(x_batch, steps, baseline)
            alpha = linspace(0, 1, steps)          reshaped (1, steps, 1...)
            z = repeat(expand_dims(x, 1), steps, axis=1);  z = baseline + alpha * (z - baseline)
            reshape(z, (-1, *shape))               -> per input, its `steps` points, consecutively
        repeated_targets = repeat_labels(y_batch, steps)                           (each label steps times)
        g = batch_gradient(model, interpolated_inputs, repeated_targets, batch_size)
            = concat [gradient(model, x, y) for x, y in dataset.batch(batch_size)]  (operator_batching)
        g = reshape(g, (-1, steps, *shape))        -> consecutive groups of `steps` gradients
        averaged = _average_gradients(g)
            trapezoidal = g[:, :-1] + g[:, 1:] ;  reduce_mean(trapezoidal, axis=1) * 0.5
        batch_ig = (x_batch - baseline) * averaged
        integrated_gradients = concat(integrated_gradients, batch_ig)
   then WhiteBoxExplainer._harmonize_channel_dimension: 4-D explanations whose last axis is not 1 are
   reduced over the channel axis by tf.reduce_<reducer> (keepdims) unless reducer is None.

   The autodiff gradient of the operator is [grad : sample -> target -> sample], applied row-wise. *)
From Xpl Require Export Base.ListX.
Close Scope Qc_scope. Open Scope nat_scope.

Definition sample := list Qc.
Definition target := list Qc.

Open Scope Qc_scope.

(* tf.linspace(0., 1., m)[k] *)
Definition alpha (m k : nat) : Qc := qn k / qn (m - 1).

(* baseline + alpha * (x - baseline), element-wise *)
Definition path_point (base x : sample) (a : Qc) : sample :=
  map2 (fun bi xi => bi + a * (xi - bi)) base x.

(* the `steps` points of one input, in the order of the flattened (n, steps) block *)
Definition interp (m : nat) (base x : sample) : list sample :=
  map (fun k => path_point base x (alpha m k)) (seq 0 m).

(* _average_gradients on one row of the (-1, steps, ...) tensor: gs = the `steps` gradients of one input *)
Definition average_gradients (n : nat) (gs : list sample) : sample :=
  let trapezoidal := map2 vadd (removelast gs) (tl gs) in                 (* g[:-1] + g[1:] *)
  map (fun s => s / qn (length trapezoidal) * half) (vsum n trapezoidal). (* reduce_mean(axis=1) * 0.5 *)

Section IG.
Variable grad : sample -> target -> sample.

(* operator_batching(gradient)(model, inputs, targets, B) *)
Definition batched_grad (B : nat) (pts : list sample) (tgs : list target) : list sample :=
  concat (map (map (fun pt => grad (fst pt) (snd pt))) (chunks B (combine pts tgs))).

(* body of the for loop for one (x_batch, y_batch) *)
Definition ig_batch (n m B : nat) (base : sample) (c : list (sample * target)) : list sample :=
  let x_batch := map fst c in
  let y_batch := map snd c in
  let interpolated_inputs := flat_map (interp m base) x_batch in
  let repeated_targets := rep m y_batch in
  let g := batched_grad B interpolated_inputs repeated_targets in
  let g := chunks m g in                                                   (* reshape (-1, steps, ...) *)
  let averaged := map (average_gradients n) g in
  map2 (fun x a => vmul (vsub x base) a) x_batch averaged.

(* IntegratedGradients(model, batch_size=bs, steps=m, baseline_value=bv, reducer=None).explain(xs, ts);
   n = number of scalars of one input (product of inputs.shape[1:]) *)
Definition ig (n m : nat) (bs : option nat) (bv : Qc) (xs : list sample) (ts : list target) : list sample :=
  let B := eff_bs bs (length xs) in
  let base := repeat bv n in
  concat (map (ig_batch n m B base) (chunks (Nat.max (B / m) 1) (combine xs ts))).

(* the (point, target) pairs handed to the gradient, in evaluation order *)
Definition ig_queries (n m : nat) (bs : option nat) (bv : Qc) (xs : list sample) (ts : list target)
  : list (sample * target) :=
  let B := eff_bs bs (length xs) in
  let base := repeat bv n in
  concat (map (fun c => concat (chunks B (combine (flat_map (interp m base) (map fst c)) (rep m (map snd c)))))
              (chunks (Nat.max (B / m) 1) (combine xs ts))).
End IG.

(* ---- channel harmonisation of WhiteBoxExplainer (images (H, W, C), C > 1, reducer not None) ---- *)
Inductive reducer := RNone | RMean | RSum | RMax | RMin.

Definition qfold1 (f : Qc -> Qc -> Qc) (l : list Qc) : Qc :=
  match l with [] => 0 | x :: r => fold_left f r x end.

Definition reduce_block (r : reducer) (blk : list Qc) : Qc :=
  match r with
  | RNone => 0
  | RMean => qsum blk / qn (length blk)
  | RSum => qsum blk
  | RMax => qfold1 Qcmax blk
  | RMin => qfold1 Qcmin blk
  end.

(* c = size of the last axis of a 4-D input, 0 for tabular / time series (no channel axis) *)
Definition harmonize (r : reducer) (c : nat) (e : sample) : sample :=
  match r with
  | RNone => e
  | _ => if (2 <=? c)%nat then map (reduce_block r) (chunks c e) else e
  end.

Definition ig_explain grad (r : reducer) (c n m : nat) (bs : option nat) (bv : Qc)
  (xs : list sample) (ts : list target) : list sample :=
  map (harmonize r c) (ig grad n m bs bv xs ts).

(* ---- scale for the float32 tolerance of the correspondence (not used by any theorem):
   1 + max_i |x_i - bv| * max_{k,i} |grad(point_k)_i| over one input ---- *)
Definition qmaxabs (l : list Qc) : Qc := fold_left (fun a v => Qcmax a (Qcabs v)) l 0.
Definition ig_scale_one grad (n m : nat) (bv : Qc) (x : sample) (t : target) : Qc :=
  1 + qmaxabs (map (fun xi => xi - bv) x)
      * qmaxabs (map (fun p => qmaxabs (grad p t)) (interp m (repeat bv n) x)).
Definition ig_scale grad (n m : nat) (bv : Qc) (xs : list sample) (ts : list target) : Qc :=
  qmaxabs (map2 (ig_scale_one grad n m bv) xs ts).
