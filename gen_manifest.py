#!/usr/bin/env python3
"""regenerates MANIFEST.json from the table below (kept in one place so it stays valid)"""
import json, pathlib
HERE = pathlib.Path(__file__).resolve().parent
props = [json.loads(l) for l in open(HERE / "properties.jsonl")]
ids = [p["id"] for p in props]

CLAIMED = {
 "C06": dict(
   text="Machine-checked proof (Coq 8.16.1, closed under the global context) that an executable Gallina transcription of "
        "Occlusion.explain equals the property's reference definition for every score function, geometry, occlusion value, "
        "batch size and input list; the transcription is tied to /repo on every run by an exact (bit-for-bit rational) "
        "correspondence check through the public API on generated geometries.",
   note="Trusted: Coq kernel + vm_compute; the hand-written model (checked against /repo by correspondence only, on the generated cases); "
        "harness (float->rational, literal writer); TF/NumPy semantics; row-wise score assumption.",
   design="5 (C06)", technique="Coq proof Model=Spec by induction over mask batches + exact differential correspondence (vm_compute)"),
 "C19": dict(
   text="Machine-checked proof that the executable heap-based model of Objective (+, -, scalar *, compile) compiles every program's "
        "expression to the linear combination it denotes, never modifies operand objects, enumerates combinations as the Cartesian "
        "product, and that min-max rescaling lands in the requested range; the model is tied to /repo by running random objective "
        "programs through the real Objective class and comparing multipliers, combinations and compiled losses. The original code "
        "violated the property (three defects, refuted in Coq, reproduced, fixed in /repo).",
   note="Trusted: Coq kernel + vm_compute; hand-written heap model (checked by correspondence); sub-losses taken from the implementation's own "
        "sub-objective functions; float32 tolerance 2e-5 relative; sigmoid/recorrelation/FFT are library code (range checked on outputs only).",
   design="5 (C19)", technique="Coq proof over a heap/program semantics (invariant by induction over statements) + differential correspondence"),
 "C02": dict(
   text="Machine-checked proofs about executable models of (a) the operator / inference / gradient dispatch (finite decision table, every case), "
        "(b) the prediction, segmentation and object-detection operators (documented scores, IoU bounds and symmetry, variants), and (c) the "
        "white-box constructor with output_layer (the explainer differentiates the truncated model); tied to /repo by an exhaustive dispatch "
        "enumeration over 6 model kinds x 21 operator specs, random operator inputs, operator-selection end to end (Occlusion, Saliency, "
        "GradientInput) and output_layer runs on dense-relu nets against the Coq net model and against the truncated Keras model. The code as "
        "found ignored output_layer (refuted in Coq, reproduced, fixed).",
   note="Trusted: Coq kernel + vm_compute; hand-written models (checked by correspondence); TF autodiff; tf.norm as Euclidean norm (rational-norm class "
        "vectors in generated cases); TfLite kind not exercised; metrics share get_inference_function with explainers (dispatch stream) and are run end to "
        "end with named / Tasks-member / custom operators by the C14 check (Deletion, Insertion).",
   design="5 (C02)", technique="Coq proofs (finite case analysis, order reasoning via lra/nra, list induction) + differential correspondence incl. exhaustive dispatch table"),
 "C09": dict(
   text="Machine-checked proof (Coq 8.16.1, closed under the global context) that an executable Gallina transcription of Rise.explain (loop over mask "
        "batches with remainder batch, numerator/denominator accumulators) equals, for every score function, input kind, mask list, mask value, "
        "nb_samples >= 1 and batch size, the map sum_k score(m_k x+(1-m_k)v) m_k /(sum_k m_k + 1e-4); constant-score, min/max bound, query-form, "
        "query-count and crop-size consequences proved; tied to /repo on every run by a correspondence check that recovers the masks actually applied "
        "from a recording model (bit-exactly for mask value 0) and compares maps and queries inside Coq.",
   note="Trusted: Coq kernel + vm_compute; hand-written model (correspondence only); harness; TF RNG/resize/crop (mask range and shape checked at run time, "
        "distribution reported as support only); float32 tolerances tolA=tolB=5e-6 condition-scaled, exact query equality in the v=0 class; row-wise score.",
   design="5 (C09)", technique="Coq proof Model=Spec by induction over mask batches (pair fold -> vsum), lra/nra order lemmas; differential correspondence with recorded random masks (vm_compute)"),
 "C04": dict(
   text="Machine-checked proof that the executable model of IntegratedGradients.explain (interpolation, repeated labels, batched gradients with remainder "
        "batches, regroup by steps, trapezoid, (x - baseline) product) equals the straight-path trapezoidal formula for every gradient function, batch size, "
        "steps >= 2, baseline and N; the evaluated points are exactly the equally spaced path points with end points; completeness proved for the whole "
        "quadratic family; for the cubic family the completeness gap is exactly K/(steps-1)^2 and strictly decreasing; tied to /repo by exact / tolerance "
        "correspondence incl. recorded gradient queries and completeness of the implementation's own output.",
   note="Trusted: Coq kernel + vm_compute; hand-written model (correspondence only); TF autodiff equals the closed-form gradients of the two polynomial families; "
        "the 'all smooth models' clause is covered only by these families; float32 exact on dyadic inputs when steps-1 is a power of two else tol 1e-5 scaled.",
   design="5 (C04)", technique="Coq proof Model=Spec (induction over chunks, ring/field/nra) + closed-form completeness theorems; differential correspondence (vm_compute)"),
 "C14": dict(
   text="Machine-checked proof (Coq 8.16.1, closed under the global context) that an executable Gallina transcription of CausalFidelity.detailed_evaluate/evaluate "
        "(Deletion, Insertion) equals the documented curve for every score, argsort, shape, channel count, steps (-1 and > features included), max_percentage, "
        "baseline, number of samples and batch size; plus proofs of step spacing, ranking-only dependence, end points, Insertion/Deletion duality (pointwise and on "
        "the full grid), trapezoid form, batch invariance and optimality of exact attributions for additive models. Tied to /repo on every run by a correspondence "
        "check through the public API.",
   note="Trusted: Coq kernel + vm_compute; the hand-written model; harness; NumPy argsort and linspace (float64 artefacts of integer linspace guarded and counted); "
        "row-wise score; tolerance 1e-5 where float32 division is inexact; activation options not exercised.",
   design="5 (C14)", technique="Coq proof Model=Spec (index arithmetic, dictionary fold, StronglySorted/Permutation uniqueness of rankings, exchange argument for top-k) + differential correspondence (vm_compute)"),
 "C13": dict(
   text="Machine-checked proofs over two state machines: (1) a heap model of the class-level model cache (objects with unique identity, Python ids reusable after "
        "garbage collection, models sharing input/output tensors): for every history a new explainer explains the function of the model it is given and keeps doing so; "
        "(2) a generic object with lazily set kind-determined fields and per-call accumulators: the result of a call is independent of earlier calls. Tied to /repo by "
        "replaying random model/explainer/discard histories on real Keras objects against the Coq heap model, and by history-vs-fresh-object runs of all 16 methods "
        "and 4 metrics under identical seeds with byte comparison of inputs, targets and weights.",
   note="Trusted: Coq kernel + vm_compute; the heap model's assumptions (a functional model's function is determined by its tensor objects; CPython frees unreachable "
        "objects, ids unique among live objects); the history stream is implementation-vs-implementation (observational tie of the generic machine), seeds fix the draws "
        "(random methods run eagerly); object aliasing itself is observed by byte equality, not modelled.",
   design="5 (C13)", technique="Coq invariant proofs by induction over operation histories (heap/cache state machine, lazy-field machine) + replay of histories on the real objects"),
 "C18": dict(
   text="Machine-checked proofs (Coq 8.16.1, all closed under the global context) about an executable transcription of ProtoGreedySearch / MMDCriticSearch / "
        "ProtoDashSearch + Prototypes: for a symmetric kernel matrix and EVERY batch size, the triangularly accumulated padded tables equal the dense column means / "
        "diagonal, and the whole batched greedy selection (padded masks, incremental selection kernel, per-batch arg-max, strict > across batches) equals the dense greedy "
        "with first-index tie-breaking for any objective of the family (hence batch-size independent for the three methods); selected cases distinct; weights non-negative "
        "summing to one; MMDCritic / ProtoGreedy objectives equal the documented formulas on the full kernel matrix; ProtoDash starts at the largest column mean; (batch, "
        "position) <-> flat index translation and label/index consistency of local explanations. Tied to /repo on every run through the public API (default and custom "
        "kernel_fn, projections, 4 distances; indices exact under a margin guard, weights / tables / distances within 1e-4..4e-6, implementation-vs-implementation across batch sizes).",
   note="Trusted: Coq kernel + vm_compute; the hand-written model (validated by correspondence only); harness including the float64 dense reference used only for near-tie / "
        "conditioning guards; kernel values rounded to 2^-24 and eps = 17*2^-24; TF argmax / inv semantics; float32 covered by tolerances and the cond <= 60 guard. Not proved: "
        "k-nearest correctness of the KNN over prototypes (C16); batch-independence of the weights is covered by correspondence only; exact (SLSQP) ProtoDash weight update not modelled.",
   design="5 (C18)", technique="Coq loop invariants (triangular traversal on an abstract block decomposition; greedy loop with table invariants) + generic first-arg-max batching lemma + differential correspondence with margin / conditioning guards"),
 "C01": dict(
   text="Machine-checked proof (Coq 8.16.1, closed) that executable transcriptions of Saliency/GradientInput/GradientStatistic.explain (literal batching and while loop, "
        "online statistics, channel harmonisation) equal the per-sample reference definitions for every gradient function, batch size, nb_samples, N and shape, and "
        "evaluate exactly nb_samples noisy copies per input; F-quad gradient proved to be the derivative; tied to /repo on every run by correspondence with recorded noise.",
   note="Trusted: Coq kernel + vm_compute, the hand-written model, the harness, TF autodiff/float32 (exact or 1e-5 scaled tolerance), the row-wise assumption; the noise "
        "distribution is not addressed; only the F-quad family is executed.",
   design="5 (C01)", technique="Coq proof Model=Spec by loop invariant over perturbation chunks + differential correspondence (exact / scaled tolerance) with recorded random draws"),
 "C08": dict(
   text="Machine-checked proofs that the executable models of the replicated designs, the five Sobol total-order estimators, the GSA explain loop and the HSIC estimator "
        "equal their published / documented formulas for all n, d and batch sizes; Jansen is non-negative, exactly zero on inert dimensions and affine-invariant; HSIC "
        "scores permute with cells and, for the binary kernel, are the quadratic form (2/n)u'Lu hence non-negative under a PSD hypothesis on L. Tied to /repo by "
        "correspondence on estimator classes, samplers/designs and explainers end to end (recorded outputs, explainer.masks, staged bicubic resize).",
   note="Trusted: Coq kernel + vm_compute; hand-written model; sqrt, exp, np.percentile, cv2.blur, QMC/LHS draws and the bicubic resize are inputs / tables re-checked in Coq; "
        "PSD-ness of the RBF Gram matrix is a hypothesis; non-negativity proved for the binary kernel only; convergence to analytic indices is statistical (support only). "
        "Janon / Homma / Saltelli / Glen normalisation defects refuted on the _orig transcriptions and fixed in /repo; all five estimators proved exactly 0 on inert dimensions.",
   design="5 (C08)", technique="Coq proofs over Qc (list/batch induction, ring/field, qc2q+nra, finite-sum algebra for HSIC) + differential correspondence (vm_compute) on recorded designs and outputs"),
 "C03": dict(
   text="Batch-invariance corollaries of the machine-checked Model = Spec theorems of the individual methods (every batch size or None), re-stated in one place, plus the "
        "generic proofs that row-wise evaluation batch by batch equals evaluation at once and that a per-sample method commutes with any selection (permutation, subset, "
        "duplication) of its inputs; the methods as wholes are tied by running every listed method of /repo with many batch sizes (and selections) under fixed seeds and "
        "requiring equal results.",
   note="Trusted: Coq kernel; the per-method models are tied to /repo by the checks of their own properties; this check's correspondence is implementation-vs-implementation "
        "across batch sizes (tolerance rtol 2e-5); sampling methods run eagerly under a fixed seed. Methods whose per-method model is not finished yet are covered here by the "
        "differential runs only (see DESIGN.md).",
   design="5 (C03)", technique="Coq corollaries of per-method Model=Spec theorems + generic list lemmas; differential runs across batch sizes on the real code"),
 "C12": dict(
   text="Machine-checked proofs that the model of tensor_sanitize maps a dataset batched by any b >= 1 (remainder batch included), the unbatched dataset and plain arrays "
        "to the same (inputs, targets), hence identical explanations for every explain function, that __call__ is explain, and - derived from the proved value models of "
        "Saliency, GradientInput, Occlusion, IntegratedGradients, RISE - one explanation per input with the documented size (W; T*W; H*W*1 with a reducer; H*W*C without). "
        "The implementation is observed for all 16 methods x supported kinds x shapes x N x containers x dtypes: shape, float32 dtype, finiteness, equality across containers.",
   note="dtype, finiteness and the shapes of the 11 methods without a value model are OBSERVED on the implementation (not expressible over exact rationals / not modelled); "
        "sampling methods run eagerly under a fixed seed; a batched dataset hidden behind prefetch/map is a recorded known finding (C12-prefetch).",
   design="5 (C12)", technique="Coq proofs (concat-of-chunks round trip, shape corollaries of the per-method Model=Spec theorems) + observation of the implementation across containers"),
 "C11": dict(
   text="Machine-checked proofs about executable models of TorchWrapper (np.moveaxis as literal index arithmetic: explicit positions, round trip, adjointness; for every "
        "module the wrapper's outputs and input gradients equal the module evaluated natively sample by sample; F-quad in NCHW equals the NHWC member with moved parameters; "
        "the constructor's channel-first rule) and of predictions_one_hot_callable with operator_batching (scored like a Keras model for 2-D, 1-D and squeezed predictions, "
        "every batch size, tensor and array inputs). Tied to /repo by four streams: torch modules (dense, explicit F-quad in both layouts, real Conv2d nets, H!=W, C in "
        "{1,2,3,4}) through six gradient methods against the Coq model and against native torch.autograd; constructor rule on random module trees; callable / predict_proba "
        "shapes x batch sizes; one function under up to 7 wrappings through 6 black-box methods and 3 metrics with seeded draws. One defect refuted, reproduced and fixed: "
        "metrics on callables with batch_size=None raised AttributeError.",
   note="Trusted: Coq kernel and vm_compute; hand-written models; torch.autograd and TF custom_gradient plumbing (validated against the closed-form F-quad gradient); float32 "
        "exactness on dyadic inputs, 1e-5 relative tolerance for the three gradient statistics and for Rise / Sobol / HSIC; convolutions enter only as extracted F-quad or "
        "native reference; TorchWrapper is exercised in eager mode only (it cannot run otherwise); the dispatch table is C02's; TfLite branch not exercised.",
   design="5 (C11)", technique="Coq proofs (ravel/unravel induction, sum re-indexing through Permutation, nthq_ext) + differential correspondence, exact and against a native torch reference"),
 "C15": dict(
   text="28 machine-checked theorems on the executable model of MuFidelity.evaluate/_perturb_samples and AverageStability.evaluate: model = spec for every batch size "
        "(exactly nb_samples perturbations per sample; the drop and the summed attribution of the same subset are paired), rank invariances (positive scaling, increasing maps, "
        "negation), Cauchy-Schwarz bound hence [-1,1], +1 / -1 / 0 on additive exact / negated / constant-score cases, stability non-negativity, 0 for input-ignoring "
        "explainers and neighbour count. Correlations are specified root-free; tied to /repo by correspondence on recorded masks and neighbours plus a SciPy rank/spearman stream.",
   note="Trusted: Coq kernel + vm_compute; hand-written model; row-wise score / explainer / baseline function; scipy.stats.spearmanr modelled as average ranks + Pearson (validated "
        "by a dedicated stream, not proved); sqrt inside Coq via Z.sqrt to 1e-9 (proved >= 0, sqrt 0 = 0); invariance under reordering the pairs of one sample is a harness assumption.",
   design="5 (C15)", technique="Coq Qc models, induction over the while-loop with fuel, Lagrange-identity Cauchy-Schwarz, relational correlation + correspondence with recorded random draws"),
 "C16": dict(
   text="Machine-checked proof that the executable model of KNN.kneighbors inside SimilarExamples (harmonised batch size, batch-wise projection, running top-k: k fills of "
        "(+inf,(-1,-1)), per batch concat / argsort / keep k, dataset_gather) returns, for every batch size, k, N, distance, projection and every tie-breaking argsort, exactly "
        "the k smallest true distances in the projected space, sorted, each with a valid (batch, position) index of a distinct original case and its label, and that no "
        "unreturned case is closer; tied to /repo by a tie-tolerant correspondence over containers, distances, projections and case_returns.",
   note="Trusted: Coq kernel + vm_compute; hand-written model; tf.argsort is a sorting permutation; root-free comparison of euclidean / Minkowski (1e-5 rel.), cosine only on "
        "rational-norm data; Hadamard / Attribution projections, DataLoader containers (crash in torch conversion, outside the property's container list), ORDER.DESCENDING not exercised.",
   design="5 (C16)", technique="Coq proofs (mathcomp sort / perm_eq uniqueness + top-k merge lemma bridged to stdlib Permutation / Sorted; induction over batches; div / mod index arithmetic) + differential correspondence"),
 "C17": dict(
   text="Machine-checked proofs on the executable models of FilterKNN (masked distances +inf) and KLEOR (NUN search, ranking by distance to the NUN, strict Global-Sim filter): "
        "every finite-distance result satisfies its class constraint with true distances, admissible cases not returned are no closer, exactly min(k, #admissible) slots are "
        "finite, the NUN is a nearest unlike neighbour, strictness of Global-Sim; for all batch sizes / k / tie-breakings. Tied to /repo by tie-tolerant correspondence over "
        "label assignments (empty / tiny classes), all four methods and all outputs.",
   note="Trusted: as C16, plus tf.argmax is the first maximiser; the distance to the +inf NUN placeholder is modelled as +inf (false for cosine: known finding C17-kleor-cosine-nan).",
   design="5 (C17)", technique="Coq proofs (running top-k with admissibility masks, reuse of the C16 merge/uniqueness lemmas) + differential correspondence"),
 "C07": dict(
   text="19 machine-checked theorems: the executable model of Lime.explain hands to its interpretable model, for every batch size, exactly (Z, [score(input masked by z "
        "with the reference value)], [kernel argument of (x, masked z)]) in row order, and returns coef o mapping; Euclidean and cosine kernel arguments; default "
        "references and maps; KernelShap: probability vector P(k) ~ (F-1)/(k(F-k)), the sampler construction yields exactly k active features for k in 1..F-1, additive "
        "scores give affine targets, OLS exactness under full column rank, efficiency, end-to-end exactness; F=2 proved structurally singular (known finding). Tied to /repo "
        "with a recording estimator and recording model (exact y / queries / explanations, tolerance-based weights), sampler replay on recorded TF draws, end-to-end "
        "KernelShap on additive models. Lime cosine sign defect refuted, reproduced, fixed.",
   note="Trusted: Coq kernel + vm_compute; hand-written model; score row-wise; fit, sqrt and image segmentation abstract; Z, the random rows, drawn sizes and argsort "
        "permutations are inputs (nothing distributional is proved); rank-deficient KernelShap designs skipped and counted; default image segmentations not exercised; "
        "F=2 inexactness is known finding C07-kshap-F2.",
   design="5 (C07)", technique="Gallina model over Qc, induction over batches, index arithmetic, Permutation/StronglySorted counting, least-squares sum-of-squares argument; vm_compute correspondence with recording estimator / model / TF random functions"),
 "C10": dict(
   text="26 machine-checked theorems on an executable F-net model with the custom-gradient override of commons/model_override.py and reverse mode: the clone's forward "
        "equals the user's forward for every max_value / threshold / policy (slope 0), DeconvNet and GuidedBackprop equal the published recursions for every net and batch "
        "size, the override touches exactly the ReLUs and keeps weights / structure; Grad-CAM and Grad-CAM++ arithmetic, layer choice (default = last layer with filters; by "
        "name / index) and batching, with TF autodiff and the bicubic resize as parameters. Tied to /repo by exact correspondence on dense and conv nets (conv as probed dense "
        "matrices) with four comparisons per case plus byte-level purity checks, and Grad-CAM(++) through the probed bicubic matrix.",
   note="Trusted: Coq kernel + vm_compute; hand-written model; TF autodiff; Keras ReLU kink semantics; bicubic resize as an abstract function (probed matrix); float32 exactness "
        "of the generated nets; forward-unchanged is REFUTED for negative_slope != 0 (known finding C10-negative-slope); user-model purity is decided by correspondence only; "
        "a TF CPU conv2d family that is not row-wise is avoided by the generator (skipped and counted).",
   design="5 (C10)", technique="Gallina F-net with custom-gradient override + reverse mode, induction over layers/batches; exact Qc correspondence (conv as probed dense matrices), Grad-CAM via probed bicubic matrix with tolerance"),
 "C05": dict(
   text="Machine-checked proofs (Coq 8.16.1, closed under the global context) of the index algebra between perturbed and reported cells of the perturbation-based methods "
        "for every H, W, C and grid: nearest upsampling (rows H / columns W, monotone, in range, covering, exact blocks), Sobol reshape round trip, HSIC implicit/explicit "
        "transposes compose to the identity, the two Lime/KernelShap gathers use one mapping; and of the exact-zero clauses (Occlusion positions whose covering patches miss "
        "the region; Sobol cells whose pixels miss the region, five estimators; KernelShap on additive scores) and of the tie-tolerant 'largest value inside the region' for "
        "Occlusion and for Sobol-Jansen before upsampling; tied to /repo on every run by nine correspondence streams (tf nearest resize as primitive, recorded perturbed "
        "inputs, exact Occlusion, low-resolution maps from the explainer's estimator, recorded Lime masks/gathers).",
   note="The 'largest attribution in the region' clause for RISE, HSIC, Lime, KernelShap (non-additive), Sobol after the bicubic resize and non-Jansen Sobol estimators is "
        "statistical: support evidence under margin guards only (DESIGN section 6). Trusted: Coq kernel and vm_compute, the hand-written models of C05/C06/C07/C08, the harness, "
        "TF/NumPy/sklearn/cv2 semantics, the row-wise score assumption. HSIC NaN at median 0 not exercised.",
   design="5 (C05)", technique="Coq index-algebra proofs (div/mod uniqueness, grid_flat) + corollaries of C06/C07/C08 model theorems + predicate evaluation inside Coq on implementation outputs"),
 "C20": dict(
   text="22 machine-checked theorems on the executable model of CraftTorch: both permutes and both reshapes as index arithmetic (location (n,h,w) keeps its row), transform "
        "independent of the batch size, crop anchors and count, concept importance = mean over inputs of Jansen's total index of the class logit under concept-wise masking "
        "of the coefficients (in design order, every batch size), non-negative, invariant under affine rescaling of the logits (k != 0), exactly zero for a concept the logit "
        "ignores (in particular a zero bank row); Jansen estimator and replicated design reused from C08. Tied to /repo on 40 CraftTorch cases per run: crops exactly, transform "
        "exactly (NMF as a recorded row table), every activation the head receives, importances under tolerance, affine invariance and zero bank row on the implementation.",
   note="Trusted / checked at run time only: the NMF fit and transform values, non-negativity of U / W / transform output (scikit-learn's contract, checked on the implementation), "
        "the bilinear resize of crops; float32 covered by tolerance (1e-5 relative on head inputs, 5e-5 on importances) with a variance guard; scikit-learn's transform is not "
        "row-wise (it is a matrix function in the model); CraftTf is not exercised (Keras 3 incompatibilities of the sandbox), CraftTorch is.",
   design="5 (C20)", technique="Gallina model over Qc of the CraftTorch reshapes / permutes / batching and of estimate_importance, reuse of the C08 Jansen theorems; vm_compute correspondence on recorded library observations"),
}
PENDING_REASON = "check not built yet (planned in DESIGN.md section 5)"

checks = []
for i in ids:
    if i in CLAIMED:
        c = CLAIMED[i]
        checks.append(dict(property_id=i, quick_cmd=f"./check {i} quick", thorough_cmd=f"./check {i} thorough",
                           evidence_file=f"evidence/{i}.json", replay_cmd_template=f"./check {i} --replay {{path}}",
                           engine="coq-correspondence",
                           level_claimed=dict(category="proof", text=c["text"], design_ref=c["design"]),
                           level_note=c["note"], technique=c["technique"]))
na = [dict(property_id=i, reason=PENDING_REASON) for i in ids if i not in CLAIMED]
m = dict(version=1,
         setup_cmd="cd coq && coq_makefile -f _CoqProject -o Makefile && make -j16",
         hooks=dict(guard="XPLIQUE_VERIF", enable="no source hooks: checks drive /repo through its public API with PYTHONPATH=/repo",
                    baseline_off_cmd="cd /repo && /venv/bin/python -m pytest -ra -q -p no:cacheprovider --timeout=900 --continue-on-collection-errors",
                    source_commits=[], add_only=True),
         engines=[dict(name="coq-correspondence", path="check", serves_properties=sorted(CLAIMED),
                       kind_free_text="Coq 8.16.1 models + theorems (coq/), Python correspondence harness (harness/) evaluating the models with vm_compute")],
         checks=checks, not_applicable=na,
         notes="See DESIGN.md. Every check: (1) full .vo build + Props/<id>.v re-checked with Print Assumptions, (2) correspondence of the proved model with /repo (XPLIQUE_REPO selects another tree; VERIF_SEED another PRNG seed). seeded/: 148 independently written property-breaking changes, all caught (tools/rerun_seeded.sh); harmless/: 40 independently written behaviour-preserving rewrites, all silent (tools/rerun_harmless.sh); known_findings.json: fixed and known findings.")
(HERE / "MANIFEST.json").write_text(json.dumps(m, indent=1) + "\n")
print("claimed", sorted(CLAIMED), "pending", len(na))
